"""Build holopy's compiled extensions from a checkout into <out>/ (f2py + gcc +
gfortran), for runtime confirmation of findings.  Usage: build.py <checkout> <out>"""
import glob, os, shutil, subprocess, sys, sysconfig
import numpy as np, numpy.f2py
co, out = sys.argv[1], sys.argv[2]
os.makedirs(out, exist_ok=True)
T = os.path.join(co, 'holopy/scattering/theory')
TP = os.path.join(co, 'holopy/scattering/third_party')
mods = {
 'uts_scsmfo': [T+'/mie_f/uts_scsmfo.for', TP+'/SBESJY.F'],
 'mieangfuncs': [T+'/mie_f/mieangfuncs.f90', T+'/mie_f/uts_scsmfo.for', TP+'/SBESJY.F', TP+'/csphjy.for'],
 'scsmfo_min': [T+'/mie_f/scsmfo_min.for'],
 'S': [T+'/tmatrix_f/S.f', T+'/tmatrix_f/ampld.lp.f', T+'/tmatrix_f/lpd.f'],
}
f2py_src = os.path.join(os.path.dirname(numpy.f2py.__file__), 'src')
pyinc = sysconfig.get_paths()['include']
ext = sysconfig.get_config_var('EXT_SUFFIX')
def run(cmd, cwd):
    p = subprocess.run(cmd, cwd=cwd, stdout=subprocess.PIPE, stderr=subprocess.STDOUT, text=True)
    if p.returncode != 0:
        print(p.stdout[-3000:]); print('BUILD FAILED', cmd); sys.exit(3)
for m, srcs in mods.items():
    tmp = os.path.join(out, 'build_' + m)
    shutil.rmtree(tmp, ignore_errors=True); os.makedirs(tmp)
    names = []
    for s in srcs:
        shutil.copy(s, tmp); names.append(os.path.basename(s))
    for inc in glob.glob(os.path.dirname(srcs[0]) + '/*.for') + glob.glob(os.path.dirname(srcs[0]) + '/*.f'):
        if not os.path.exists(os.path.join(tmp, os.path.basename(inc))):
            shutil.copy(inc, tmp)
    run([sys.executable, '-m', 'numpy.f2py'] + names + ['-m', m, '--lower', '--build-dir', '.'], tmp)
    run(['gcc', '-fPIC', '-O1', '-I'+pyinc, '-I'+np.get_include(), '-I'+f2py_src, '-c', m+'module.c',
         os.path.join(f2py_src, 'fortranobject.c')], tmp)
    fs = list(names)
    for w in glob.glob(os.path.join(tmp, m + '-f2pywrappers*')):
        fs.append(os.path.basename(w))
    run(['gfortran', '-fPIC', '-O1', '-std=legacy', '-w', '-c'] + fs, tmp)
    objs = sorted(glob.glob(os.path.join(tmp, '*.o')))
    so = os.path.join(out, m + ext)
    run(['gfortran', '-shared', '-o', so] + objs + ['-lquadmath'], tmp)
    print('built', so)
