"""Runtime confirmation of the C10 known finding (not a check; needs gfortran).
  /venv/bin/python tools/confirm/build_extensions.py <scratch copy of /repo> <out>
  copy the four .so files next to mie_f/ and tmatrix_f/ of the scratch copy, then
  cd <scratch copy> && /venv/bin/python /verif/tools/confirm/tmatrix_vs_mie.py
Prints the relative difference between Tmatrix and Mie far fields of a sphere over
polar angle and azimuth: 1e-6 at phi in {0, pi}, growing to 66 % at theta = 2."""
import sys, os, warnings
sys.path.insert(0, os.getcwd()); warnings.simplefilter('ignore')
import numpy as np
from holopy.scattering import Sphere, Mie, Tmatrix
from holopy.core.metadata import to_vector
s = Sphere(n=1.59, r=0.9, center=(0, 0, 0))
k = 2 * np.pi / (0.66 / 1.33)
mie, tm, pol = Mie(False, False), Tmatrix(), to_vector((1, 0))
for theta in (0.1, 0.5, 1.0, 2.0):
    for phi in (0.0, np.pi / 4, np.pi / 2, 2.0, np.pi, 4.0):
        pos = np.array([[100.0], [theta], [phi]])
        fm = np.array(mie.raw_fields(pos.copy(), s, k, 1.33, pol))
        ft = np.array(tm.raw_fields(pos.copy(), s, k, 1.33, pol))
        st = tm.raw_scat_matrs(s, pos.copy(), k, 1.33)
        sm = mie.raw_scat_matrs(s, pos.copy(), k, 1.33)
        print('theta=%.1f phi=%.2f field rel diff %.2e | S_mie diag %s | S_tmatrix %s' % (
            theta, phi, abs(fm - ft).max() / abs(fm).max(),
            np.round([sm[0][0, 0], sm[0][1, 1]], 3), np.round(st[0], 3).tolist()))
