#!/bin/bash
# Run scripts against a scratch copy of /repo's working tree that has the compiled
# theories (built once with tools/confirm/build_extensions.py into $SEED_BUILT,
# default /tmp/hpbuild/out).  Never used by a check.  Usage: run_built.sh script.py ...
B=${SEED_BUILT:-/tmp/hpbuild/out}
W=$(mktemp -d /tmp/rb_XXXX)
rsync -a --exclude .git /repo/ $W/
for so in $B/*.so; do
  case $(basename $so) in S.*) sub=tmatrix_f;; *) sub=mie_f;; esac
  cp $so $W/holopy/scattering/theory/$sub/
done
rc=0
for s in "$@"; do
  echo "== $s"; (cd $W && timeout 1800 /venv/bin/python $(realpath $s)); r=$?; echo "rc=$r"; [ $r -ne 0 ] && rc=$r
done
rm -rf $W
exit $rc
