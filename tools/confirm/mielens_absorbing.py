"""Runtime confirmation of fix 88dfe97 (needs the extensions built as in
tmatrix_vs_mie.py): MieLens against Lens(Mie) for real and absorbing spheres.
Before the fix: 8e-9 (n = 1.59), 1.1e-2 (1.59+0.001j), 7.2e-1 (1.59+0.1j);
after: 8e-9, 7e-9."""
import sys, os, warnings
sys.path.insert(0, os.getcwd()); warnings.simplefilter('ignore')
import numpy as np
from holopy.scattering import Sphere, calc_field, Mie
from holopy.scattering.theory import MieLens
from holopy.scattering.theory.lens import Lens
from holopy.core import detector_grid
det = detector_grid(shape=12, spacing=0.4)
kw = dict(medium_index=1.33, illum_wavelen=0.66, illum_polarization=(1, 0))
acc = {'interpolate_integrals': False}
for n in (1.59, 1.59 + 0.001j, 1.59 + 0.1j):
    s2 = Sphere(n=n, r=0.9, center=(2, 2, 20))
    a = calc_field(det, s2, theory=MieLens(lens_angle=0.8, calculator_accuracy_kwargs=acc), **kw).values
    b = calc_field(det, s2, theory=Lens(0.8, Mie(False, False)), **kw).values
    print('n=%s MieLens vs Lens(Mie): %.3e' % (n, abs(a - b).max() / abs(a).max()))
