"""Confirm a seeded defect myself: in a fresh scratch worktree of /repo the demo
passes, with the patch applied it fails, and the pinned baseline still has its
400 passing tests.  Writes meta.json next to the patch.  Usage:
  tools/confirm_seed.py seeded/<name> <property> "<what it needs to manifest>"
"""
import json, os, shutil, subprocess, sys, tempfile
d = os.path.abspath(sys.argv[1])
prop = sys.argv[2]
needs = sys.argv[3] if len(sys.argv) > 3 else ''
name = os.path.basename(d)
wt = tempfile.mkdtemp(prefix='cs_' + name + '_')
os.rmdir(wt)
def sh(cmd, **kw):
    return subprocess.run(cmd, shell=True, capture_output=True, text=True, **kw)
r = sh('git -C /repo worktree add -q --detach %s HEAD' % wt)
assert r.returncode == 0, r.stderr
meta = dict(property=prop, name=name, needs=needs, ran=[])
# SEED_BUILT=<dir with the .so files of tools/confirm/build_extensions.py>: the demo
# needs the compiled theories (the pinned baseline does not use them)
built = os.environ.get('SEED_BUILT')
if built:
    import glob
    for so in glob.glob(os.path.join(built, '*.so')):
        sub = 'tmatrix_f' if os.path.basename(so).startswith('S.') else 'mie_f'
        shutil.copy(so, os.path.join(wt, 'holopy/scattering/theory', sub))
    meta['needs_built_extensions'] = True
try:
    demo = os.path.join(d, 'demo.py')
    have_demo = os.path.exists(demo)
    if have_demo:
        shutil.copy(demo, os.path.join(wt, 'demo_seed.py'))
        r0 = sh('cd %s && timeout 900 /venv/bin/python demo_seed.py' % wt)
        meta['demo_clean_exit'] = r0.returncode
        meta['ran'].append('cd <worktree> && /venv/bin/python demo.py  (clean) -> exit %d' % r0.returncode)
    r = sh('git -C %s apply %s' % (wt, os.path.join(d, 'patch.diff')))
    meta['patch_applies'] = r.returncode == 0
    if r.returncode != 0:
        meta['error'] = r.stderr[-500:]
    else:
        if have_demo:
            r1 = sh('cd %s && timeout 900 /venv/bin/python demo_seed.py' % wt)
            meta['demo_patched_exit'] = r1.returncode
            meta['demo_patched_tail'] = (r1.stdout + r1.stderr)[-400:]
            meta['ran'].append('git apply patch.diff; /venv/bin/python demo.py -> exit %d' % r1.returncode)
            os.unlink(os.path.join(wt, 'demo_seed.py'))
        rb = sh('/venv/bin/python /verif/tools/baseline.py %s' % wt)
        meta['baseline'] = rb.stdout.strip().splitlines()[0] if rb.stdout.strip() else rb.stderr[-200:]
        meta['baseline_ok'] = rb.returncode == 0
        meta['ran'].append('tools/baseline.py <worktree> -> %s' % meta['baseline'])
    meta['confirmed'] = bool(meta.get('patch_applies') and meta.get('baseline_ok') and
                             (not have_demo or (meta.get('demo_clean_exit') == 0 and
                                                meta.get('demo_patched_exit') not in (0, None))))
finally:
    sh('git -C /repo worktree remove --force %s' % wt)
    shutil.rmtree(wt, ignore_errors=True)
json.dump(meta, open(os.path.join(d, 'meta.json'), 'w'), indent=1)
print(name, 'CONFIRMED' if meta['confirmed'] else 'NOT CONFIRMED', meta.get('baseline'), meta.get('demo_clean_exit'), meta.get('demo_patched_exit'))
