"""Run checks against a scratch copy of /repo with a patch applied.

  tools/mutest.py PATCH [PROP ...]      (default: all claimed properties)
Prints one line per property: exit code and the first violation lines.
The scratch copy lives under /tmp and is removed afterwards.
"""
import json, os, shutil, subprocess, sys, tempfile
HERE = os.path.dirname(os.path.dirname(os.path.abspath(__file__)))


def run(patch, props, reverse=False, verbose=True):
    tmp = tempfile.mkdtemp(prefix='hpmut_')
    try:
        shutil.copytree('/repo/holopy', os.path.join(tmp, 'holopy'),
                        ignore=shutil.ignore_patterns('__pycache__', '*.so', '*.pyc'))
        cmd = ['patch', '-p1', '-s', '-d', tmp, '-i', os.path.abspath(patch)]
        if reverse:
            cmd.insert(1, '-R')
        r = subprocess.run(cmd, capture_output=True, text=True)
        if r.returncode != 0:
            print('PATCH FAILED', r.stdout, r.stderr)
            return None
        out = {}
        env = dict(os.environ, HOLOPY_REPO=tmp,
                   VERIF_EVIDENCE_DIR=os.path.join(tmp, 'evidence'))
        for p in props:
            r = subprocess.run([os.path.join(HERE, 'check'), p, '--repo', tmp],
                               capture_output=True, text=True, env=env, cwd=HERE)
            lines = [l for l in r.stdout.splitlines()
                     if l.lstrip().startswith(('violated:', 'ANALYSIS-ERROR', 'VIOLATION'))]
            out[p] = (r.returncode, lines)
            if verbose and r.returncode != 0:
                print('  %s exit=%d' % (p, r.returncode))
                for l in lines[:6]:
                    print('     ', l.strip()[:300])
        return out
    finally:
        shutil.rmtree(tmp, ignore_errors=True)


def claimed():
    m = json.load(open(os.path.join(HERE, 'MANIFEST.json')))
    return [c['property_id'] for c in m['checks']]


if __name__ == '__main__':
    args = sys.argv[1:]
    reverse = '-R' in args
    args = [a for a in args if a != '-R']
    patch = args[0]
    props = args[1:] or claimed()
    res = run(patch, props, reverse)
    if res is None:
        sys.exit(3)
    caught = [p for p, (rc, _) in res.items() if rc == 1]
    errs = [p for p, (rc, _) in res.items() if rc not in (0, 1)]
    print('%s: caught by %s; analysis errors %s; silent %s' % (
        os.path.basename(os.path.dirname(os.path.abspath(patch))), caught, errs,
        [p for p, (rc, _) in res.items() if rc == 0]))
