"""Regenerate MANIFEST.json from the META tables of the rule modules."""
import importlib
import json
import os
import sys

HERE = os.path.dirname(os.path.dirname(os.path.abspath(__file__)))
sys.path.insert(0, HERE)

ids = [json.loads(l)['id'] for l in open(os.path.join(HERE, 'properties.jsonl'))]
checks, na = [], []
for pid in ids:
    try:
        mod = importlib.import_module('rules.' + pid.lower())
        meta = getattr(mod, 'META', None)
    except ImportError:
        meta = None
    if not meta or not meta.get('claimed'):
        na.append(dict(property_id=pid, reason=(meta or {}).get(
            'na_reason', 'static engine for this property not built yet; '
            'not claimed rather than approximated (DESIGN.md section 6)')))
        continue
    checks.append(dict(
        property_id=pid,
        quick_cmd='./check %s --tier quick' % pid,
        thorough_cmd='./check %s --tier thorough' % pid,
        evidence_file='evidence/%s.json' % pid,
        replay_cmd_template='cat {path}',
        engine='hpstatic',
        level_claimed=dict(category=getattr(mod, 'LEVEL', 'other'),
                           text=meta['level_text'],
                           design_ref=meta.get('design_ref', 'DESIGN.md section 4 ' + pid)),
        level_note=meta['level_note'],
        technique=meta['technique']))
manifest = dict(
    version=1,
    setup_cmd='true',
    hooks=dict(guard='HOLOPY_VERIF', enable='no hooks: the checks read the '
               'source of /repo and need no instrumentation',
               baseline_off_cmd='cd /repo && /venv/bin/python -m pytest -q -p '
               'no:cacheprovider --timeout=900 --continue-on-collection-errors',
               source_commits=[], add_only=True),
    engines=[dict(name='hpstatic', path='hpstatic/',
                  serves_properties=[c['property_id'] for c in checks],
                  kind_free_text='custom static analysis over the Python AST '
                  '(forward substitution / value numbering with an algebraic '
                  'normaliser, weight typing, effect and dependence analysis, '
                  'dispatch- and table-agreement rules) and a Fortran scanner '
                  'for call-graph reachability of STOP statements; pure stdlib')],
    checks=checks,
    not_applicable=na,
    notes='Every check decides named structural clauses of its property from '
          'the source of /repo (see level_note); numerical clauses are not '
          'decided by any check (DESIGN.md section 6).  Exit 2 + ANALYSIS-ERROR '
          'means the analyser could not decide (never reported as a violation).')
with open(os.path.join(HERE, 'MANIFEST.json'), 'w') as f:
    json.dump(manifest, f, indent=1)
print('claimed:', [c['property_id'] for c in checks])
print('not applicable:', [n['property_id'] for n in na])
