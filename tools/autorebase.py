import subprocess, sys, os, shutil, tempfile
seeds=sys.argv[1:]
for sname in seeds:
    d='/verif/seeded/'+sname
    tmp=tempfile.mkdtemp(prefix='rb_')
    shutil.copytree('/repo/holopy', tmp+'/a/holopy')
    shutil.copytree('/repo/holopy', tmp+'/b/holopy')
    r=subprocess.run(['patch','-p1','-F3','-s','--no-backup-if-mismatch','-i',d+'/patch.diff'],cwd=tmp+'/b',capture_output=True,text=True)
    if r.returncode:
        print(sname,'STILL FAILS:',(r.stdout+r.stderr).strip().splitlines()[:2])
    else:
        for root,_,files in os.walk(tmp+'/b'):
            for f in files:
                if f.endswith(('.orig','.rej')): os.unlink(os.path.join(root,f))
        r2=subprocess.run(['diff','-ruN','a/holopy','b/holopy'],cwd=tmp,capture_output=True,text=True)
        out=r2.stdout
        # normalise headers
        lines=[]
        for l in out.splitlines(True):
            if l.startswith('diff -ruN'): continue
            if l.startswith('--- a/') or l.startswith('+++ b/'):
                l=l.split('\t')[0]+'\n'
            lines.append(l)
        shutil.copy(d+'/patch.diff', d+'/patch.diff.pre_rebase')
        open(d+'/patch.diff','w').write(''.join(lines))
        os.unlink(d+'/patch.diff.pre_rebase')
        print(sname,'rebased')
    shutil.rmtree(tmp)
