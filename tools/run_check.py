"""CLI: run the static rules of one property against /repo's working tree."""
import argparse
import importlib
import os
import sys
import traceback

HERE = os.path.dirname(os.path.dirname(os.path.abspath(__file__)))
sys.path.insert(0, HERE)
sys.setrecursionlimit(20000)


def main():
    ap = argparse.ArgumentParser()
    ap.add_argument('property')
    ap.add_argument('--tier', default=os.environ.get('VERIF_TIER', 'quick'),
                    choices=['quick', 'thorough'])
    ap.add_argument('--repo', default=None)
    args = ap.parse_args()
    if args.repo:
        os.environ['HOLOPY_REPO'] = args.repo
    from hpstatic.loader import Program, AnalysisError
    from hpstatic.report import Check
    pid = args.property.upper()
    try:
        mod = importlib.import_module('rules.' + pid.lower())
    except ImportError as e:
        print('ANALYSIS-ERROR property=%s no rule module: %s' % (pid, e))
        return 2
    check = Check(pid, args.tier, level=getattr(mod, 'LEVEL', 'other'))
    try:
        prog = Program()
        check.extra['repo_digest'] = prog.digest.hexdigest()
        check.extra['repo_root'] = prog.root
        if hasattr(mod, 'selftest'):
            mod.selftest(check)
        mod.run(check, prog)
        if args.tier == 'thorough':
            if hasattr(mod, 'thorough'):
                mod.thorough(check, prog)
            targets = getattr(mod, 'MUTATION_TARGETS', None)
            if targets:
                from hpstatic.mutate import battery
                battery(check, prog, targets)
    except AnalysisError as e:
        check.error(str(e))
    except Exception as e:  # a traceback must never look like a violation
        traceback.print_exc()
        check.error('internal error: %r' % (e,))
    try:
        return check.finish()
    except Exception as e:
        traceback.print_exc()
        print('ANALYSIS-ERROR property=%s cannot write evidence: %r' % (pid, e))
        return 2


if __name__ == '__main__':
    sys.exit(main())
