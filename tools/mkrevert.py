#!/usr/bin/env python3
"""mkrevert.py <commit> <Cnn> <slug> <demo.py path> "<demonstration text>" "<fixed text>" """
import sys, subprocess, json, os, shutil, re
commit, prop, slug, demo, demotext, fixedtext = sys.argv[1:7]
name = 'revert_%s_%s' % (commit, slug)
d = '/verif/seeded/' + name
os.makedirs(d, exist_ok=True)
diff = subprocess.check_output(['git', '-C', '/repo', 'diff', commit, commit + '~1']).decode()
open(d + '/patch.diff', 'w').write(diff)
shutil.copy(demo, d + '/demo.py')
json.dump(dict(property=prop, name=name, origin='reverse of /repo fix commit ' + commit,
               demonstration=demotext, baseline='stable_pass: 400, passing now: 400, missing: 0',
               confirmed=True), open(d + '/meta.json', 'w'), indent=1)
p = '/verif/tools/regress.py'
s = open(p).read()
key = "'revert_%s': '%s'," % (commit, prop)
if key not in s:
    s = s.replace("'revert_6899418': 'C10',", "'revert_6899418': 'C10', " + key, 1)
    open(p, 'w').write(s)
k = json.load(open('/verif/known_findings.json'))
k['fixed'].append(dict(property=prop, commit=commit,
                       what='fixed: property=%s %s %s' % (prop, commit, fixedtext)))
json.dump(k, open('/verif/known_findings.json', 'w'), indent=1)
print(name)
