"""Run the checks of one property (or all) against /repo + a candidate patch in a
scratch copy.  Usage: tools/try_seed.py <dir with patch.diff> [Cnn ...]"""
import os, subprocess, sys, tempfile, shutil
d = os.path.abspath(sys.argv[1])
props = sys.argv[2:] or ['C%02d' % i for i in range(1, 21)]
tmp = tempfile.mkdtemp(prefix='try_')
try:
    shutil.copytree('/repo/holopy', os.path.join(tmp, 'holopy'))
    r = subprocess.run(['patch', '-p1', '-s', '-i', os.path.join(d, 'patch.diff')], cwd=tmp,
                       capture_output=True, text=True)
    if r.returncode:
        print('PATCH FAILED', r.stdout, r.stderr)
        sys.exit(3)
    env = dict(os.environ, HOLOPY_REPO=tmp, VERIF_EVIDENCE_DIR=os.path.join(tmp, 'ev'))
    caught, errs = [], []
    for p in props:
        r = subprocess.run(['/verif/check', p], env=env, capture_output=True, text=True)
        if r.returncode == 1:
            caught.append(p)
            for l in r.stdout.splitlines():
                if l.strip().startswith('violated:'):
                    print('  ', p, l.strip()[:260])
        elif r.returncode != 0:
            errs.append(p)
            for l in r.stdout.splitlines():
                if 'ANALYSIS-ERROR' in l:
                    print('  ', p, l.strip()[:260])
    print(os.path.basename(d), 'caught by', caught, 'errors', errs)
finally:
    shutil.rmtree(tmp, ignore_errors=True)
