"""Run the pinned baseline and compare with BASELINE.json's stable_pass list."""
import json, subprocess, sys, tempfile, os
import xml.etree.ElementTree as ET
repo = sys.argv[1] if len(sys.argv) > 1 else '/repo'
base = json.load(open('/root/.vp/BASELINE.json'))
out = tempfile.mktemp(suffix='.xml')
subprocess.call(['/venv/bin/python', '-m', 'pytest', '-ra', '-q', '-p', 'no:cacheprovider',
                 '--timeout=900', '--continue-on-collection-errors', '--junitxml=' + out],
                cwd=repo, stdout=subprocess.DEVNULL, stderr=subprocess.DEVNULL)
passed = set()
for tc in ET.parse(out).getroot().iter('testcase'):
    if not any(ch.tag in ('failure', 'error', 'skipped') for ch in tc):
        passed.add('%s::%s' % (tc.get('classname'), tc.get('name')))
os.unlink(out)
missing = sorted(set(base['stable_pass']) - passed)
print('stable_pass: %d, passing now: %d, missing: %d' % (len(base['stable_pass']), len(passed & set(base['stable_pass'])), len(missing)))
for m in missing:
    print('  MISSING', m)
sys.exit(1 if missing else 0)
