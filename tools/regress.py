"""Regression: every claimed check on the clean tree (must exit 0), every
seeded patch against its target property (must exit 1), and every
behaviour-preserving patch seeded/benign_* against all checks (must exit 0).
  tools/regress.py [--all-props]   (with --all-props every seed runs all checks)
"""
import json, os, subprocess, sys
from concurrent.futures import ThreadPoolExecutor
HERE = os.path.dirname(os.path.dirname(os.path.abspath(__file__)))
sys.path.insert(0, os.path.join(HERE, 'tools'))
import mutest

TARGET = {  # revert_* seeds: the property whose check must catch them
    'revert_769463e': 'C15', 'revert_e9309de': 'C15', 'revert_c583771': 'C20',
    'revert_b0eed93': 'C01', 'revert_ce6aec7': 'C15', 'revert_2f9dba4': 'C14',
    'revert_8e6a59f': 'C17', 'revert_f213336': 'C05', 'revert_235dd5b': 'C17',
    'revert_4583095': 'C19', 'revert_639a63f': 'C08', 'revert_57f5d84': 'C15', 'revert_88dfe97': 'C02', 'revert_e8d267c': 'C16', 'revert_974b30f': 'C20', 'revert_7afc4b9': 'C11', 'revert_a0f3ca7': 'C07', 'revert_7aa8ebe': 'C13', 'revert_bd754f9': 'C18', 'revert_530ebdb': 'C18', 'revert_de7f375': 'C10', 'revert_13f2a0b': 'C02', 'revert_6899418': 'C10', 'revert_8b04ff7': 'C17', 'revert_d7516b0': 'C16', 'revert_fce5fcc': 'C18', 'revert_167fe03': 'C07', 'revert_414c5ea': 'C15', 'revert_ea19384': 'C20', 'revert_dc9bac6': 'C15', 'revert_7336f23': 'C02', 'revert_1662911': 'C20', 'revert_acb4012': 'C20', 'revert_6a0a1a2': 'C10', 'revert_889f950': 'C09', 'revert_2e8b290': 'C14', 'revert_c94e0fc': 'C19', 'revert_31e8a33': 'C15', 'revert_31a851e': 'C06', 'revert_7bdfc3f': 'C15', 'revert_fd2208a': 'C13', 'revert_0d3e948': 'C14', 'revert_d71599b': 'C12', 'revert_22cd7b0': 'C15', 'revert_7e12235': 'C15', 'revert_4c33363': 'C15', 'revert_eba0fa0': 'C07', 'revert_2f8676f': 'C06', 'revert_375b49d': 'C12', 'revert_f732404': 'C01', 'revert_d83d52c': 'C14', 'revert_21d7399': 'C13', 'revert_65d5263': 'C15', 'revert_b94a2dd': 'C13', 'revert_06ccfdc': 'C07', 'revert_f9bd274': 'C10', 'revert_ae6b6dd': 'C07', 'revert_02848a1': 'C18', 'revert_96a7d5a': 'C10', 'revert_c0714e8': 'C18', 'revert_fec20b3': 'C02', 'revert_4287b90': 'C10', 'revert_0bd628a': 'C16', 'revert_c17a8ad': 'C13', 'revert_2ceeee9': 'C13', 'revert_9c4d0a2': 'C14', 'revert_7bf61be': 'C11', 'revert_9594bc4': 'C10', 'revert_bd2c00a': 'C20', 'revert_6a7ba84': 'C18', 'revert_0de5adf': 'C02', 'revert_8a42f6d': 'C13', 'revert_0200a77': 'C16', 'revert_8a9419d': 'C06', 'revert_6088189': 'C13', 'revert_d2ec20e': 'C20', 'revert_7f955a0': 'C13', 'revert_a2c87a0': 'C06', 'revert_d531043': 'C10', 'revert_13ac4da': 'C13', 'revert_47e1432': 'C07', 'revert_05392e9': 'C09', 'revert_35d3c7e': 'C02', 'revert_73d1096': 'C14', 'revert_eef6954': 'C16', 'revert_d3bd5f4': 'C16', 'revert_5ed4cfb': 'C15', 'revert_1b341b1': 'C20', 'revert_8c373b3': 'C13', 'revert_3c7ba26': 'C18', 'revert_3ae063b': 'C14', 'revert_265f63e': 'C13', 'revert_bb9603f': 'C13', 'revert_5b59e35': 'C01', 'revert_6229546': 'C01', 'revert_cc3d9f1': 'C07', 'revert_f746c4f': 'C07', 'revert_613e9f1': 'C16', 'revert_f2005a2': 'C19', 'revert_47d1a6f': 'C19',
}


def main():
    allprops = '--all-props' in sys.argv
    claimed = mutest.claimed()
    clean = {}
    for p in claimed:
        r = subprocess.run([os.path.join(HERE, 'check'), p], capture_output=True,
                           text=True, cwd=HERE,
                           env=dict(os.environ, VERIF_EVIDENCE_DIR='/tmp/regress_ev'))
        clean[p] = r.returncode
    print('clean tree:', ' '.join('%s=%d' % kv for kv in sorted(clean.items())))
    seeds = sorted(d for d in os.listdir(os.path.join(HERE, 'seeded'))
                   if os.path.exists(os.path.join(HERE, 'seeded', d, 'patch.diff'))
                   and not d.startswith('benign_'))
    benign = sorted(d for d in os.listdir(os.path.join(HERE, 'seeded'))
                    if d.startswith('benign_'))

    def job(d):
        tgt = TARGET.get(d[:14]) or d[:3]
        meta = os.path.join(HERE, 'seeded', d, 'meta.json')
        if os.path.exists(meta):
            tgt = json.load(open(meta)).get('property', tgt)
        props = claimed if allprops else ([tgt] if tgt in claimed else [])
        extra = json.load(open(meta)).get('also', []) if os.path.exists(meta) else []
        props = list(dict.fromkeys(props + [e for e in extra if e in claimed]))
        if not props:
            return d, tgt, None
        res = mutest.run(os.path.join(HERE, 'seeded', d, 'patch.diff'), props,
                         verbose=False)
        return d, tgt, res
    with ThreadPoolExecutor(12) as ex:
        results = list(ex.map(job, seeds))
    missed = []
    for d, tgt, res in results:
        if res is None:
            print('%-60s target %s not claimed yet' % (d, tgt))
            continue
        caught = [p for p, (rc, _) in res.items() if rc == 1]
        errs = [p for p, (rc, _) in res.items() if rc not in (0, 1)]
        status = 'CAUGHT' if caught else ('ERROR' if errs else 'MISSED')
        if not caught:
            missed.append(d)
        print('%-60s %-7s caught=%s err=%s' % (d, status, caught, errs))
    print('missed:', missed)
    # behaviour-preserving rewrites: every claimed check must stay silent
    noisy = []

    def bjob(d):
        return d, mutest.run(os.path.join(HERE, 'seeded', d, 'patch.diff'), claimed,
                             verbose=False)
    with ThreadPoolExecutor(4) as ex:
        for d, res in ex.map(bjob, benign):
            if res is None:
                print('%-60s PATCH DOES NOT APPLY' % d)
                noisy.append(d)
                continue
            loud = [p for p, (rc, _) in res.items() if rc != 0]
            print('%-60s %s' % (d, 'SILENT' if not loud else 'FALSE ALARM in %s' % loud))
            if loud:
                noisy.append(d)
    return 1 if any(v != 0 for v in clean.values()) or noisy else 0


if __name__ == '__main__':
    sys.exit(main())
