"""C15  HoloPy objects survive save -> load unchanged.   Engine E4 (+E7/E8).

Decides (statically, from the source):
  R1  every constructor argument of every serialisable class is stored, on the
      normal exits of the __init__ chain actually called, in an attribute or
      property of the same name whose value depends on the argument;
  R2  no non-argument local of __init__ (they are all in co_varnames, which
      the saver iterates) has the name of an attribute / property / method of
      the class;
  R3  the saver's filter drops a value only if it is None, and keeps an
      explicit None whose constructor default is something else;
  R4  scalar tags written by the representers have constructors for every
      loader; class tags are unique; writer and reader use the same tag format;
      the reader builds nested objects (deep=True) and calls cls(**fields);
  R5  Model._iteritems / Model.from_yaml: the keys written are the keys read,
      and every keyword that can reach cls(**kwargs) is a constructor
      parameter of every Model subclass.
Not decided: textual idempotence of the dump, float round-tripping by PyYAML.
"""
import ast

from hpstatic.interp import Interp
from hpstatic.logic import eval3
from hpstatic.loader import AnalysisError
from hpstatic.terms import sym, atoms_of, show, subterms, NONE, calls_in, intern, num
from .common import (HPO, THEORY, exported_classes, init_of, init_params,
                     param_defaults, final_self, code_varnames,
                     self_attr_stores, const_keys, const_list)

MUTATION_TARGETS = {'holopy/core/holopy_object.py': ['_iteritems', 'to_yaml', 'from_yaml'], 'holopy/core/io/serialize.py': ['complex_representer', 'complex_constructor', 'ndarray_representer', 'tuple_representer', 'numpy_float_representer'], 'holopy/inference/model.py': ['_iteritems', 'from_yaml'], 'holopy/inference/nmpfit.py': ['__init__'], 'holopy/scattering/theory/mielens.py': ['__init__'], 'holopy/scattering/scatterer/sphere.py': ['__init__']}

LEVEL = 'other'
META = dict(
    claimed=True,
    technique='constructor-closure analysis: symbolic evaluation of every '
              '__init__ chain (def-use of each argument into the attribute '
              'the saver reads), co_varnames/attribute-name collision, '
              '3-valued evaluation of the saver filter, yaml tag writer/reader '
              'table agreement, Model map-key vs constructor-signature inclusion; producer / writer / reader agreement on the number of stage results of a tempered result; the stored attribute is the argument or a normalisation of it, never arithmetic on it',
    level_text='Static, exhaustive over every serialisable class and every '
               'constructor argument in the source tree: decides the structural '
               'clauses R1-R5 (a lost or constant-stored argument, a local that '
               'shadows an attribute, a filter that drops non-default values, an '
               'unregistered tag, a keyword the constructor rejects).  These are '
               'necessary conditions of the round trip; they are what breaks it '
               'in practice.  Does not decide PyYAML text idempotence or float '
               'formatting.',
    level_note='Trusted: CPython semantics of co_varnames (3.12 inlines '
               'comprehension targets), PyYAML construct_mapping/represent_* '
               'semantics, my AST front end.  Scope quick: classes exported by '
               'holopy.scattering(.scatterer/.theory), holopy.inference, '
               'holopy.core.prior (both tiers; thorough adds the mutation battery).',
)

SCOPE_PKGS = ['holopy.scattering', 'holopy.scattering.scatterer',
              'holopy.scattering.theory', 'holopy.inference', 'holopy.core.prior']
MODEL = 'holopy.inference.model.Model'


def serialisable_scope(prog, tier):
    # the property quantifies over the exported classes; internal helpers such
    # as LnpostWrapper (a pickling shim, never saved) are out of scope
    allc = prog.subclasses(HPO, strict=True)
    exp = exported_classes(prog, SCOPE_PKGS)
    return [c for c in allc if c in exp]


def uses_default_saver(prog, cq):
    hit = prog.lookup(cq, '_iteritems')
    if not hit or hit[1] != HPO:
        return False
    if prog.lookup(cq, '_save'):
        return False
    return True


def reader_loader(check, prog):
    """R6: file and stream targets are read alike, by a loader that constructs
    what the writer emits.  `serialize.save` writes with the full `yaml.dump`
    (Python complex numbers, NumPy functions, `dict` come out with python/...
    tags), so both branches of `serialize.load` -- a file name, an already open
    stream -- must hand the stream to `yaml.load` with the same non-safe loader."""
    from .common import call_args
    q = 'holopy.core.io.serialize.load'
    fd = prog.func(q)
    loc = prog.loc(q, fd)
    it = Interp(prog, max_depth=1)
    res = it.analyze(q)
    reads = [c for c in it.calls if c['name'] in (
        'yaml.load', 'yaml.safe_load', 'yaml.full_load', 'yaml.unsafe_load',
        'yaml.load_all')]
    check.need('yaml reads in serialize.load', len(reads), 2, 'R6-reader-loader',
               'serialize.load branches', 'one read for a file name, one for an open '
               'stream', loc)

    def loader(c):
        if c['name'] != 'yaml.load':
            return c['name'].split('.')[-1]
        v = call_args(prog, c).get('Loader')
        if v is None and len(c['args']) > 1:
            v = c['args'][1]
        return show(v) if v is not None else None
    ls = [loader(c) for c in reads]
    good = ('FullLoader', 'UnsafeLoader', 'Loader', 'full_load', 'unsafe_load')
    ok = bool(ls) and len(set(ls)) == 1 and any(
        str(ls[0]).endswith(g) for g in good)
    check.require(ok, 'R6-reader-loader', 'serialize.load',
                  'every branch reads with the same full loader (%s)' % ls[0]
                  if ls else 'reads', loc,
                  fail_detail='the branches of serialize.load read with %s: text that '
                  'loads from a file name raises ConstructorError from an open stream '
                  '(python/complex, python/name: tags -- every model, every prior built '
                  'with arithmetic, a scatterer with a Python-complex index)' % ls)
    wr = 'holopy.core.io.serialize.save'
    itw = Interp(prog, max_depth=1)
    itw.analyze(wr)
    dumps = [c['name'] for c in itw.calls if c['name'].startswith('yaml.') and
             'dump' in c['name']]
    check.require(bool(dumps) and set(dumps) == {'yaml.dump'}, 'R6-reader-loader', 'serialize.save writer',
                  'the writer is the full yaml.dump the reader is matched to',
                  prog.loc(wr, prog.func(wr)),
                  fail_detail='serialize.save writes with %s' % dumps)


def run(check, prog):
    tier = check.tier
    check.explanation = (
        'For every serialisable class the __init__ chain is evaluated '
        'symbolically; each constructor argument must reach the attribute of '
        'the same name that HoloPyObject._iteritems reads.  The saver filter, '
        'the yaml tag tables and Model.from_yaml are checked as tables.')
    check.trusted += ['CPython ast', 'PyYAML documented semantics',
                      'co_varnames layout of CPython 3.12']
    scope = serialisable_scope(prog, tier)
    check.floor('serialisable classes in scope', len(scope), 30)
    r1_r2(check, prog, scope)
    r3_saver_filter(check, prog)
    r4_tags(check, prog)
    r5_model(check, prog)
    reader_loader(check, prog)
    # a reloaded model keeps its value-to-place mapping and its ties only if the
    # map grammar is read back digit for digit and rebuilt scatterers keep the
    # identity of shared priors (rules shared with C11)
    from . import c11
    c11.grammar(check, prog)
    c11.rebuilding(check, prog)
    # loading calls the constructor with what the constructor stored: a value it
    # fills in itself (the default guess of a Uniform: a bound, the midpoint, 0)
    # must be one it accepts back, i.e. the refusal is exactly "outside the
    # bounds" (rule shared with C14)
    from . import c14
    from hpstatic.poly import Canon
    c14.r8_uniform_guess(check, prog, Canon())
    tempered_stage_count(check, prog)
    shared_objects_aliased(check, prog)
    scalars_never_aliased(check, prog)
    writer_drops_only_unfindable_defaults(check, prog)
    scalar_kinds_and_order(check, prog)


def scalar_kinds_and_order(check, prog):
    """R10: what the text writer does with values that are not HoloPy objects.
    (a) every kind of NumPy scalar has a representer of the library's own -- the
    abstract kinds np.floating, np.integer, np.bool_, np.complexfloating (or a
    common base): a scalar without one goes through PyYAML's generic object
    representer (`!!python/object/apply:numpy...scalar`), which the loaders refuse,
    so Sphere(r=np.float32(.5)) saves and cannot be loaded; (b) a Python complex is
    written like np.complex128 -- the reader returns Python complex, so otherwise
    the text of a reloaded object differs from the text it was loaded from; (c)
    dictionaries are written in the order they have (`sort_keys=False`): a model
    numbers its parameters in that order, so a scatterer with a per-channel
    dictionary of priors, reloaded with sorted keys, builds a model whose parameter
    vector means something else."""
    import ast
    m = prog.module('holopy.core.io.serialize')
    loc = '%s:1' % m.relpath
    reg = {}          # registered type expression -> (kind, function name)
    for n in ast.walk(m.tree):
        if isinstance(n, ast.Call) and isinstance(n.func, ast.Attribute) and \
                n.func.attr in ('add_representer', 'add_multi_representer') and \
                len(n.args) >= 2:
            reg[ast.unparse(n.args[0])] = (n.func.attr, ast.unparse(n.args[1]))
    multi = {k.rpartition('.')[2] for k, v in reg.items() if v[0] == 'add_multi_representer'}
    COVER = {'floating': ('floating', 'inexact', 'number', 'generic'),
             'integer': ('integer', 'number', 'generic'),
             'bool_': ('bool_', 'bool', 'generic'),
             'complexfloating': ('complexfloating', 'inexact', 'number', 'generic')}
    for kind, by in COVER.items():
        check.require(any(b in multi for b in by), 'R10-numpy-scalar-kinds',
                      'serialize representers: np.' + kind,
                      'every NumPy scalar of this kind has a representer', loc,
                      fail_detail='representers are registered for %s only: any other '
                      'np.%s is written as python/object/apply and refused on load'
                      % (sorted(k for k in reg if k.startswith('np.')), kind))
    py = reg.get('complex')
    npc = reg.get('np.complex128') or reg.get('np.complexfloating')
    check.require(py is not None and npc is not None and py[1] == npc[1],
                  'R10-complex-one-form', 'serialize representers: complex',
                  'Python complex and NumPy complex are written by the same '
                  'representer', loc,
                  fail_detail='complex -> %s, np.complex128 -> %s: n = np.complex128('
                  '1.5+0.1j) is written as !complex, reloads as a Python complex and '
                  'is written as !!python/complex the second time' % (py, npc))
    q = 'holopy.core.io.serialize.save'
    fd = prog.func(q)
    dumps = [n for n in ast.walk(fd) if isinstance(n, ast.Call) and
             ast.unparse(n.func) in ('yaml.dump', 'yaml.safe_dump', 'dump')]
    ok = bool(dumps) and all(any(k.arg == 'sort_keys' and isinstance(k.value, ast.Constant)
                                 and k.value.value is False for k in d.keywords)
                             for d in dumps)
    check.require(ok, 'R10-dictionary-order-kept', 'serialize.save',
                  'the text writer keeps the order of dictionaries (sort_keys=False)',
                  prog.loc(q, fd),
                  fail_detail='yaml.dump sorts mapping keys by default: Sphere(n={\'red\': '
                  'p1, \'green\': p2}) reloads as {green, red}, and AlphaModel(reloaded) '
                  'numbers its parameters n.green, n.red where the original has n.red, '
                  'n.green')
    check.need('yaml.dump calls in serialize.save', len(dumps), 1,
               'R10-dictionary-order-kept', 'serialize.save', 'save writes with yaml.dump',
               prog.loc(q, fd))


def writer_drops_only_unfindable_defaults(check, prog):
    """R3b: the one thing the yaml writer may leave out of what the saver emits is
    an argument that has a default and whose value is a function no loader could
    find again (it would be written by name and the whole file refused).  Every
    `continue` in the writer's loop over `_iteritems()` sits under a conjunction
    of exactly these two tests -- and the filter is not in `_iteritems` itself,
    which also feeds `repr` and `==` (two strategies with different lambdas would
    compare equal)."""
    import ast
    q = HPO + '.to_yaml'
    fd = prog.func(q)
    loc = prog.loc(q, fd)
    skips = []
    for loop in ast.walk(fd):
        if not isinstance(loop, ast.For) or '_iteritems' not in ast.unparse(loop.iter):
            continue
        for st in ast.walk(loop):
            if isinstance(st, ast.If) and any(isinstance(x, ast.Continue)
                                              for b in st.body for x in ast.walk(b)):
                skips.append(st)
    for st in skips:
        parts = st.test.values if isinstance(st.test, ast.BoolOp) and \
            isinstance(st.test.op, ast.And) else [st.test]
        txt = [ast.unparse(p_) for p_ in parts]
        has_default = any(' in ' in t_ and 'not in' not in t_ for t_ in txt)
        unfindable = any(t_.replace(' ', '').startswith('notfound_by_name(') for t_ in txt)
        check.require(has_default and unfindable and len(parts) == 2,
                      'R3-writer-drops-only-unfindable-defaults',
                      'HoloPyObject.to_yaml skip', 'an emitted pair is left out only if '
                      'the argument has a default and its value is a function that '
                      'cannot be found by name', loc,
                      fail_detail='skips when %s' % ' and '.join(txt)[:120])
    it = Interp(prog, max_depth=0)
    it.analyze(HPO + '._iteritems')
    inside = [c for c in it.calls if c['name'].endswith('found_by_name')]
    check.require(not inside, 'R3-writer-drops-only-unfindable-defaults',
                  'HoloPyObject._iteritems', 'the saver itself (which repr and == '
                  'read) leaves nothing out for being a function', loc,
                  fail_detail='_iteritems consults found_by_name: objects that differ '
                  'in a lambda argument print and compare alike')


def scalars_never_aliased(check, prog):
    """R9: numbers, strings and booleans are written in place, never as an anchor
    and a reference.  Whether two equal numbers are one object is an accident of
    the interpreter (small ints and the constructor's defaults are, values that
    came out of NumPy are not), so anchors on scalars make the text of an object
    differ from the text of its own reloaded copy.  The library replaces PyYAML's
    `ignore_aliases`; its scalar test has to be reached by a scalar, i.e. must
    not come after an operation a scalar does not support (len) in the same try
    block, whose TypeError handler makes the answer None."""
    import ast
    q = 'holopy.core.io.serialize.ignore_aliases'
    if not prog.has_func(q):
        check.note('R9', 'no replacement of ignore_aliases: PyYAML\'s own applies')
        return
    fd = prog.func(q)
    arg = fd.args.args[0].arg

    def flat_stmts(body):
        for st in body:
            if isinstance(st, ast.Try):
                yield from flat_stmts(st.body)
            else:
                yield st
    # the decisions in evaluation order: the operands of an `or` chain are tried
    # left to right and stop at the first that holds
    first_len = first_scalar = None
    pos = 0
    scalar_stmt = None
    for i, st in enumerate(flat_stmts(fd.body)):
        test = st.test if isinstance(st, ast.If) else None
        operands = [st] if test is None else (
            list(test.values) if isinstance(test, ast.BoolOp) and
            isinstance(test.op, ast.Or) else [test])
        returns_true = test is not None and any(
            isinstance(r, ast.Return) and isinstance(r.value, ast.Constant) and
            r.value.value is True for r in st.body)
        for op_ in operands:
            pos += 1
            for n in ast.walk(op_):
                if isinstance(n, ast.Call) and isinstance(n.func, ast.Name) and \
                        n.func.id == 'len' and n.args and \
                        isinstance(n.args[0], ast.Name) and n.args[0].id == arg:
                    # (`x is None or len(x)`: evaluated for every x that is not None)
                    first_len = pos if first_len is None else first_len
            if test is not None and isinstance(op_, ast.Call) and \
                    isinstance(op_.func, ast.Name) and op_.func.id == 'isinstance' and \
                    isinstance(op_.args[0], ast.Name) and op_.args[0].id == arg:
                kinds = {e.id for e in ast.walk(op_.args[1]) if isinstance(e, ast.Name)}
                kinds |= {e.attr for e in ast.walk(op_.args[1])
                          if isinstance(e, ast.Attribute)}
                numeric = {'int', 'float'} <= kinds or 'Number' in kinds or \
                    'Real' in kinds
                if numeric and 'str' in kinds and returns_true and \
                        first_scalar is None:
                    first_scalar = pos
                    scalar_stmt = i
    # ... and nothing before it answers for a scalar: an earlier test that a
    # NumPy scalar satisfies (np.float64 is a float, but also an np.generic of size
    # 1) decides for it first
    early = None
    for i, st in enumerate(flat_stmts(fd.body)):
        if scalar_stmt is not None and i >= scalar_stmt:
            break
        if isinstance(st, ast.If) and any(isinstance(r, ast.Return) for b in (
                st.body, st.orelse) for x in b for r in ast.walk(x)):
            t_ = st.test
            only_none = isinstance(t_, ast.Compare) and len(t_.ops) == 1 and \
                isinstance(t_.ops[0], ast.Is) and \
                isinstance(t_.comparators[0], ast.Constant) and \
                t_.comparators[0].value is None
            if not only_none:
                early = st
    ok = first_scalar is not None and (first_len is None or first_scalar < first_len) \
        and early is None
    check.require(ok, 'R9-scalars-never-aliased', 'serialize.ignore_aliases',
                  'the scalar test is reached by a scalar', prog.loc(q, fd),
                  fail_detail='len(%s) is evaluated before the isinstance test: for a '
                  'number it raises TypeError, the handler falls through and the '
                  'function returns None -- equal ints that happen to be one object '
                  'are written as &id001 / *id001, and the text of a reloaded object '
                  'differs from the text it was loaded from' % arg
                  if first_scalar is not None and early is None else (
                      'an earlier test answers first: `if %s` (line %d)' % (
                          ast.unparse(early.test)[:60], early.lineno)
                      if early is not None else 'no scalar test returning True'))


def shared_objects_aliased(check, prog):
    """R8: an object that occurs at several places of what is saved is written
    once and referred to afterwards, so that it is one object again on load.  One
    prior object at several places *is* the tie between them (C11: one parameter
    per distinct prior), so writing it out once per place turns a two-parameter
    cluster into a four-parameter one.  PyYAML's own `represent_mapping` records
    each node under the dumper's alias key before it descends; a representer that
    builds its MappingNode by hand has to do the same."""
    import ast
    n = 0
    for cq in sorted(prog.classes):
        c = prog.classes[cq]
        fd = c.methods.get('to_yaml')
        if fd is None or not prog.is_subclass(cq, HPO):
            continue
        args = [a.arg for a in fd.args.args]
        if len(args) < 3:
            continue
        dumper = args[1]
        built = [t.targets[0].id for t in ast.walk(fd) if isinstance(t, ast.Assign)
                 and len(t.targets) == 1 and isinstance(t.targets[0], ast.Name)
                 and isinstance(t.value, ast.Call)
                 and ast.unparse(t.value.func).endswith('MappingNode')]
        if not built:
            continue                # delegates to the dumper's own methods
        # (other names bound to the same node)
        grew = True
        while grew:
            grew = False
            for t in ast.walk(fd):
                if isinstance(t, ast.Assign) and len(t.targets) == 1 and \
                        isinstance(t.targets[0], ast.Name) and \
                        isinstance(t.value, ast.Name) and t.value.id in built and \
                        t.targets[0].id not in built:
                    built.append(t.targets[0].id)
                    grew = True
        n += 1
        recorded = False
        for t in ast.walk(fd):
            if isinstance(t, ast.Assign) and len(t.targets) == 1 and \
                    isinstance(t.targets[0], ast.Subscript) and \
                    isinstance(t.value, ast.Name) and t.value.id in built:
                tgt = t.targets[0]
                if ast.unparse(tgt.value) == dumper + '.represented_objects' and \
                        ast.unparse(tgt.slice) == dumper + '.alias_key':
                    # ... on every path on which there is a key: unguarded, or in
                    # the body of `if dumper.alias_key is not None` / `if
                    # dumper.alias_key`
                    guards = [g for g in ast.walk(fd) if isinstance(g, ast.If) and any(
                        x is t for b in (g.body, g.orelse) for st_ in b
                        for x in ast.walk(st_))]
                    key = dumper + '.alias_key'
                    recorded = all(
                        any(x is t for st_ in g.body for x in ast.walk(st_)) and
                        ast.unparse(g.test) in (key + ' is not None', key,
                                                'None is not ' + key)
                        for g in guards)
        check.require(recorded, 'R8-shared-objects-aliased', c.name + '.to_yaml',
                      'the mapping node built by hand is recorded under the '
                      'dumper\'s alias key', prog.loc(cq, fd),
                      fail_detail='%s = MappingNode(...) is never stored in %s.'
                      'represented_objects[%s.alias_key]: an object met again is '
                      'written out again -- a prior shared between two spheres '
                      'reloads as two priors (model parameters r, x become 0:r, x, '
                      '1:r, x_0)' % (built[0], dumper, dumper))
    check.floor('hand-built yaml mapping nodes', n, 1)


def tempered_stage_count(check, prog):
    """R7: a tempered sampling result is read back with as many stage results as
    were written.  `TemperedStrategy.sample` builds one result per stage strategy
    and `_save` writes one group per stage result, numbered from 0; `_load` reads
    the groups 0 .. count-1, and its count is the number of stage strategies."""
    from .common import list_builder
    RES = 'holopy.inference.result.TemperedSamplingResult'
    STR = 'holopy.inference.emcee.TemperedStrategy'
    try:
        fd_l = prog.func(RES + '._load')
        fd_s = prog.func(STR + '.sample')
        fd_w = prog.func(RES + '._save')
    except (KeyError, AnalysisError):
        return
    loc = prog.loc(RES + '._load', fd_l)

    def built(q, depth):
        it = Interp(prog, max_depth=depth, inline_new=False)
        res = it.analyze(q)
        out = []
        for x in subterms(res.ret):
            if x[0] == 'new' and x[1] == RES:
                out.append(dict(x[3]).get('stage_results'))
        return it, [t for t in out if t is not None]
    it_s, made = built(STR + '.sample', 0)
    per_stage = False
    for t in made:
        lb = list_builder(t)
        if lb is None:
            continue
        itr = lb[1]
        if itr[0] == 'call' and itr[1] in ('enumerate', 'list', 'iter') and \
                len(itr[2]) == 1:
            itr = itr[2][0]
        if itr == ('attr', sym('self'), 'stage_strategies'):
            per_stage = True
    check.need('stage results built by TemperedStrategy.sample', int(per_stage), 1,
               'R7-stage-count', 'TemperedStrategy.sample',
               'one stage result per stage strategy', prog.loc(STR + '.sample', fd_s))
    it_w = Interp(prog, max_depth=0)
    it_w.analyze(RES + '._save')
    groups = [c for c in it_w.calls if c['name'] == '._save' and
              dict(c['kwargs']).get('group') is not None]
    all_written = any(
        any(x[0] == 'call' and x[1] == 'enumerate' and x[2] and
            x[2][0] == ('attr', sym('self'), 'stage_results')
            for x in subterms(dict(c['kwargs'])['group'])) for c in groups)
    check.need('group per stage result in TemperedSamplingResult._save',
               int(all_written), 1, 'R7-stage-count', 'TemperedSamplingResult._save',
               'every stage result is written to its own numbered group',
               prog.loc(RES + '._save', fd_w))
    it_l, read = built(RES + '._load', 1)
    ok = False
    detail = 'no list of stage results built in _load'
    for t in read:
        lb = list_builder(t)
        if lb is None:
            continue
        itr = lb[1]
        detail = 'groups read: %s' % show(itr)[:120]
        if itr[0] == 'call' and itr[1] == 'range' and len(itr[2]) == 1 and not itr[3]:
            n = itr[2][0]
            ok = n[0] == 'call' and n[1] == 'len' and len(n[2]) == 1 and \
                n[2][0][0] == 'attr' and n[2][0][2] == 'stage_strategies'
    check.require(ok and per_stage and all_written, 'R7-stage-count',
                  'TemperedSamplingResult._load',
                  'the groups 0 .. len(strategy.stage_strategies) - 1 are read: as many '
                  'as sample() made and _save wrote', loc,
                  fail_detail=detail + ': a saved result comes back with another '
                  'number of stage results than it was written with')


# ----------------------------------------------------------------------
def ite_leaves(t):
    if t[0] == 'ite':
        return ite_leaves(t[2]) + ite_leaves(t[3])
    return [t]


def r1_r2(check, prog, scope, floor=120):
    nparams = 0
    for cq in scope:
        owner, fd = init_of(prog, cq)
        short = cq.rpartition('.')[2]
        if fd is None:
            continue
        if not uses_default_saver(prog, cq):
            check.note('classes with own saver (R5 / C13)', short)
            continue
        check.note('classes (R1/R2)', short)
        fs = final_self(prog, cq)
        it, fr, selft, res = fs
        loc = prog.loc(owner, fd)
        if selft is None:
            # abstract base: __init__ always raises
            check.note('abstract (init always raises)', short)
            continue
        params = init_params(fd)
        for p in params:
            nparams += 1
            v = it.getattr_term(selft, p, fr, ())
            construct = '%s.__init__(%s)' % (short, p)
            stored = not (v[0] == 'attr' and v[2] == p and
                          v[1][0] in ('sym',))
            if not stored:
                check.bad('R1-arg-stored', construct,
                          'argument is never stored in an attribute or exposed '
                          'by a property named %r: lost on save/load' % p, loc)
                continue
            dep = sym(p) in atoms_of(v)
            check.require(
                dep, 'R1-arg-stored', construct,
                'self.%s depends on argument %s' % (p, p), loc,
                fail_detail='self.%s = %s does not depend on the argument: '
                'the passed value is ignored and lost on save/load'
                % (p, show(v)[:120]))
            # ... and what is stored is the argument or a normalised form of it
            # (list(x), np.array(x), a default filled in for None), which storing
            # again leaves alone.  Arithmetic on the argument is not: the saver
            # writes self.<p>, so a constructor that leaves seed + k there is
            # reloaded from seed + k and leaves seed + 2 k
            drift = [leaf for leaf in ite_leaves(v) if leaf[0] == 'bin' and
                     leaf[1] in ('+', '-', '*', '/', '//', '**', '%') and
                     sym(p) in (leaf[2], leaf[3]) and
                     any(x[0] == 'num' for x in (leaf[2], leaf[3]))]
            check.require(not drift, 'R1-arg-stored-as-given', construct,
                          'self.%s holds the argument, not a number computed from it'
                          % p, loc,
                          fail_detail='self.%s = %s when __init__ returns: saved, '
                          'and computed from again on load' % (p, show(v)[:100]))
        # R2: locals of the resolved __init__ that collide with attributes
        args, local = code_varnames(fd)
        stores = self_attr_stores(prog, cq)
        for L in local:
            hit = prog.lookup(cq, L)
            construct = '%s.__init__ local %s' % (short, L)
            if hit is not None or L in stores:
                what = hit[0] if hit else 'attribute set at %s' % (stores[L][0],)
                check.bad('R2-local-shadows-attribute', construct,
                          'local variable %r is in co_varnames and names a %s of '
                          'the class: emitted on save, rejected by the constructor '
                          'on load' % (L, what), loc)
            else:
                check.ok('R2-local-shadows-attribute', construct, '', loc)
    check.floor('constructor arguments checked', nparams, floor)


# ----------------------------------------------------------------------
def r3_saver_filter(check, prog):
    q = HPO + '._iteritems'
    # a module-level predicate the filter may consult about the value: whether a
    # plain function can be found again under its name (one that cannot would be
    # written and then refused by every loader).  Kept opaque here and decided
    # separately: it must hold for everything that is not a function
    NAMED = HPO.rpartition('.')[0] + '.found_by_name'
    has_named = prog.has_func(NAMED)
    it = Interp(prog, max_depth=3, opaque=[NAMED] if has_named else [])
    res = it.analyze(q)
    ys = [e for e in it.effects if e['kind'] == 'yield' and e['func'] == q]
    check.need('yield sites in HoloPyObject._iteritems', len(ys), 1,
               'R3-saver-emits', 'HoloPyObject._iteritems',
               'the saver emits (name, value) pairs', prog.loc(q, prog.func(q)),
               missing='no yield is left in the saver: every object is written '
               'without its arguments and reloads as the default')
    if has_named:
        nfd = prog.func(NAMED)
        arg = sym(nfd.args.args[0].arg)

        def not_a_function(t):
            if t[0] == 'call' and t[1] == 'isinstance' and t[2] and t[2][0] == arg:
                kinds = show(t[2][1])
                if 'FunctionType' in kinds or 'partial' in kinds:
                    return False
            return None
        nit = Interp(prog, max_depth=0, decide=not_a_function)
        nres = nit.analyze(NAMED)
        check.require(nres.ret == ('const', True), 'R3-filter-drops-only-functions',
                      'found_by_name', 'holds for every value that is not a plain '
                      'function or a partial', prog.loc(NAMED, nfd),
                      fail_detail='returns %s for a value that is not a function'
                      % show(nres.ret)[:100])
    fd = prog.func(q)
    loc = prog.loc(q, fd)
    for y in ys:
        cond = [(t, pol) for t, pol in y['cond'] if t[0] != 'loop-iter']
        value = y['value']
        # the value read: getattr(self, var[, None])
        gets = [c for c in calls_in(('tuple', tuple(t for t, _ in cond)) +
                                    (value,), 'getattr')]
        if not gets and cond:
            check.error('cannot identify the value read by the saver filter')
            continue

        def is_value(t):
            return t[0] == 'call' and t[1] == 'getattr' and len(t[2]) >= 2

        def depends_on_defaults(t):
            return any(x[0] == 'attr' and x[2] in ('__defaults__', '__kwdefaults__')
                       for x in subterms(t)) or any(
                x[0] == 'call' and isinstance(x[1], str) and 'signature' in x[1]
                for x in subterms(t))

        def named(t):
            return has_named and t[0] == 'call' and t[1] == NAMED

        def atom_value_not_none(t):
            # hypothesis A: the attribute value is some non-None object (and not
            # a function no loader could find)
            if named(t):
                return True
            if t[0] == 'cmp' and t[1] in ('is not', '!=') and is_value(t[2]) \
                    and t[3] == NONE:
                return True
            if t[0] == 'cmp' and t[1] in ('is', '==') and is_value(t[2]) \
                    and t[3] == NONE:
                return False
            return None

        def atom_explicit_none(t):
            # hypothesis B: attribute exists, is None, default is not None
            if named(t):
                return True
            if t[0] == 'cmp' and t[3] == NONE and is_value(t[2]):
                return t[1] in ('is', '==')
            if t[0] == 'call' and t[1] == 'hasattr':
                return True
            if is_value(t):
                return False          # truthiness of None
            if t[0] == 'cmp' and t[3] == NONE and depends_on_defaults(t[2]):
                return t[1] in ('is not', '!=')
            if t[0] == 'cmp' and t[1] in ('in', 'not in') and \
                    depends_on_defaults(t[3]):
                return t[1] == 'in'
            return None

        def all3(hyp):
            vals = []
            for t, pol in cond:
                v = eval3(t, hyp)
                vals.append(None if v is None else (v if pol else not v))
            if any(v is False for v in vals):
                return False
            return True if all(v is True for v in vals) else None
        a = all3(atom_value_not_none)
        check.require(
            a is True, 'R3-filter-keeps-non-None', 'HoloPyObject._iteritems',
            'every non-None attribute value is emitted', loc,
            fail_detail='the guard of the yield is not implied by "value is not '
            'None" (evaluates to %r): values such as 0, False or [] can be '
            'dropped and reload as the default' % (a,))
        b = all3(atom_explicit_none)
        check.require(
            b is True, 'R3-filter-keeps-explicit-None', 'HoloPyObject._iteritems',
            'an explicit None whose default is not None is emitted', loc,
            fail_detail='with value None and a non-None constructor default the '
            'guard evaluates to %r: the argument reloads as the default' % (b,))
    # what is iterated, what is emitted, and the defaults table the filter uses
    q = HPO + '._iteritems'
    me = sym('self')
    init = intern(('attr', me, '__init__'))
    code = intern(('attr', init, '__code__'))
    names = intern(('idx', ('attr', code, 'co_varnames'), ('slice', num(1), NONE, NONE)))
    lps = [l for l in it.loops.values() if l['func'] == q]
    ok = len(lps) == 1 and lps[0]['iter'] == names
    check.require(ok, 'R3-saver-iterates-arguments', 'HoloPyObject._iteritems',
                  'every name of __init__.__code__.co_varnames after self is considered',
                  loc, fail_detail='iterates over %s' % [show(l['iter'])[:80]
                                                         for l in lps])
    for y in ys:
        v = y['value']
        ok = v[0] == 'tuple' and len(v[1]) == 2 and v[1][0][0] == 'elem' and \
            v[1][0][1] == names
        if ok:
            var = v[1][0]
            g = intern(('call', 'getattr', (me, var), ()))
            val = v[1][1]
            leaves = set()

            def walk(t):
                if t[0] == 'ite':
                    walk(t[2])
                    walk(t[3])
                else:
                    leaves.add(t)
            walk(val)
            ok = leaves <= {g, intern(('call', 'list', (g,), ()))} and g in leaves
        check.require(ok, 'R3-saver-emits-attribute', 'HoloPyObject._iteritems',
                      'the value emitted for an argument name is the attribute of that '
                      'name (1-d arrays as lists)', loc,
                      fail_detail='emits %s' % show(v)[:160])
        # defaults table: positional names and __defaults__ aligned from the right,
        # keyword-only defaults merged in
        tabs = [x for t, p in y['cond'] for x in subterms(t)
                if x[0] == 'call' and isinstance(x[1], tuple) and x[1][0] == 'attr' and
                x[1][2] == 'get' and len(x[2]) >= 1 and x[2][0] == v[1][0]] if ok else []
        okt = len(tabs) >= 1
        if okt:
            tab = tabs[0][1][1]
            rev = ('slice', NONE, NONE, num(-1))
            pos = intern(('idx', ('idx', ('attr', code, 'co_varnames'),
                                  ('slice', NONE, ('attr', code, 'co_argcount'), NONE)),
                          rev))
            dfl = intern(('idx', ('bool', 'or', (('attr', init, '__defaults__'),
                                                 ('tuple', ()))), rev))
            base = intern(('call', 'dict', (('call', 'zip', (pos, dfl), ()),), ()))
            kwd = intern(('bool', 'or', (('attr', init, '__kwdefaults__'),
                                         ('dict', ()))))
            okt = tab == ('mut', base, 'update', (kwd,), ())
        check.require(okt, 'R3-defaults-table', 'HoloPyObject._iteritems',
                      'defaults = positional names paired with __defaults__ from the '
                      'right, plus __kwdefaults__ (Python\'s own alignment)', loc,
                      fail_detail='table is %s' % (show(tabs[0][1][1])[:200] if tabs
                                                   else None))
    # to_yaml writes every pair of _iteritems; from_yaml = cls(**fields), deep
    q = HPO + '.to_yaml'
    it = Interp(prog, max_depth=2, opaque=[HPO + '._iteritems'])
    res = it.analyze(q)
    fd = prog.func(q)
    data_ = sym(fd.args.args[2].arg)
    dumper_ = sym(fd.args.args[1].arg)
    items = intern(('call', ('attr', data_, '_iteritems'), (), ()))
    apps = [e for e in it.effects if e['kind'] == 'mutcall' and e['method'] == 'append']
    okw = len(apps) == 1 and len(apps[0]['args']) == 1
    if okw:
        pair = apps[0]['args'][0]
        okw = pair[0] == 'tuple' and len(pair[1]) == 2 and all(
            x[0] == 'call' and x[1] == ('attr', dumper_, 'represent_data') and
            len(x[2]) == 1 and x[2][0][0] == 'idx' and x[2][0][1][0] == 'elem' and
            x[2][0][1][1] == items for x in pair[1]) and \
            pair[1][0][2][0][2] == num(0) and pair[1][1][2][0][2] == num(1)
    v = res.ret
    okn = v[0] == 'call' and v[1] == 'yaml.nodes.MappingNode' and len(v[2]) == 2 and \
        v[2][1] == ('list', ()) and v[2][0][0] == 'call' and \
        isinstance(v[2][0][1], tuple) and v[2][0][1][2] == 'format' and \
        v[2][0][1][1] == ('const', '!{0}') and \
        v[2][0][2] == (('attr', ('attr', data_, '__class__'), '__name__'),)
    check.require(okw and okn, 'R4-writer-emits-all-items',
                  'HoloPyObject.to_yaml',
                  "a mapping node tagged '!<class name>' holding one (key node, value "
                  'node) pair per item of _iteritems', prog.loc(q, fd),
                  fail_detail='returns %s; appends %s' % (
                      show(v)[:100], [show(a)[:120] for e in apps for a in e['args']]))
    q = HPO + '.from_yaml'
    it = Interp(prog, max_depth=2)
    res = it.analyze(q)
    ret = res.ret
    fd = prog.func(q)
    cm = calls_in(ret, 'construct_mapping')
    deep = bool(cm) and any(k == 'deep' and v == ('const', True)
                            for c in cm for k, v in c[3])
    is_ctor = ret[0] in ('call', 'new') and any(k == '**' for k, v in ret[3])
    check.require(deep, 'R4-reader-deep', 'HoloPyObject.from_yaml',
                  'construct_mapping(node, deep=True): nested objects are built '
                  'before the constructor runs', prog.loc(q, fd),
                  fail_detail='construct_mapping is not called with deep=True: '
                  'nested HoloPy objects / lists arrive empty in the constructor')
    check.require(is_ctor and any(k == '**' and calls_in(v, 'construct_mapping')
                                  for k, v in ret[3]),
                  'R4-reader-calls-constructor', 'HoloPyObject.from_yaml',
                  'returns cls(**fields)', prog.loc(q, fd))


# ----------------------------------------------------------------------
def r4_tags(check, prog):
    m = prog.module('holopy.core.io.serialize')
    rep_tags = {}
    for n in ast.walk(m.tree):
        if isinstance(n, ast.Call) and isinstance(n.func, ast.Attribute) and \
                n.func.attr == 'represent_scalar' and n.args and \
                isinstance(n.args[0], ast.Constant):
            rep_tags[n.args[0].value] = n.lineno
    ctor_tags = {}
    for n in ast.walk(m.tree):
        if isinstance(n, ast.For) and ast.unparse(n.iter) == 'YAMLLOADERS':
            for c in ast.walk(n):
                if isinstance(c, ast.Call) and ast.unparse(c.func).endswith(
                        'add_constructor') and c.args and \
                        isinstance(c.args[0], ast.Constant):
                    usesloader = any(k.arg == 'Loader' and isinstance(k.value, ast.Name)
                                     and isinstance(n.target, ast.Name)
                                     and k.value.id == n.target.id
                                     for k in c.keywords)
                    if usesloader:
                        ctor_tags[c.args[0].value] = c.lineno
    check.floor('scalar tags written by representers', len(rep_tags), 4)
    for tag, ln in sorted(rep_tags.items()):
        check.require(tag in ctor_tags, 'R4-tag-has-constructor', 'tag ' + tag,
                      'constructor registered for every loader in YAMLLOADERS',
                      '%s:%d' % (m.relpath, ln),
                      fail_detail='representer writes %s but no constructor is '
                      'registered for every loader in YAMLLOADERS' % tag)
    # registered representers: the types the library promises to write
    reps = {}
    for n in ast.walk(m.tree):
        if isinstance(n, ast.Call) and ast.unparse(n.func) == 'yaml.add_representer' \
                and len(n.args) == 2:
            reps[ast.unparse(n.args[0])] = ast.unparse(n.args[1])
    need = {'np.ndarray': 'ndarray_representer', 'tuple': 'tuple_representer',
            'np.complex128': 'complex_representer',
            'np.float64': 'numpy_float_representer',
            'np.int64': 'numpy_int_representer',
            'np.ufunc': 'numpy_ufunc_representer',
            'SerializableMetaclass': 'class_representer',
            'types.MethodType': 'instancemethod_representer'}
    for ty, fn in need.items():
        check.require(ty in reps, 'R4-representer-registered', ty,
                      'representer registered', m.relpath,
                      fail_detail='no representer registered for %s' % ty)
    # lossless text for complex: repr(...) on the writer, complex(...) reader
    it = Interp(prog, max_depth=2)
    r = it.analyze('holopy.core.io.serialize.complex_representer')
    rs = [c for c in calls_in(r.ret, 'represent_scalar')]
    ok = bool(rs) and len(rs[0][2]) >= 2 and rs[0][2][1][0] == 'call' and \
        rs[0][2][1][1] == 'repr'
    check.require(ok, 'R4-complex-lossless', 'complex_representer',
                  'complex scalars are written with repr() (shortest '
                  'round-tripping text)', m.relpath,
                  fail_detail='complex scalar text is %s, not repr(): digits '
                  'may be lost' % (show(rs[0][2][1]) if rs and len(rs[0][2]) > 1
                                   else '?'))
    r = it.analyze('holopy.core.io.serialize.complex_constructor')
    ok = r.ret[0] == 'call' and r.ret[1] == 'complex' and \
        r.ret[2] and r.ret[2][0] == ('attr', sym('node'), 'value')
    check.require(ok, 'R4-complex-lossless', 'complex_constructor',
                  'reader is complex(node.value)', m.relpath)
    # the scalar / sequence representers hand the value itself to the yaml
    # writer: converted to the python type of the same value, and nothing else
    # (no formatting, rounding or arithmetic on the way)
    data = sym('data')

    def lossless(x, kinds):
        """x is `data` after conversions that keep the value"""
        while True:
            if x == data:
                return True
            if x[0] == 'call' and x[1] in kinds and len(x[2]) == 1 and not x[3]:
                x = x[2][0]
            elif x[0] == 'call' and isinstance(x[1], tuple) and x[1][0] == 'attr' and \
                    x[1][2] in ('item', 'tolist') and not x[2]:
                x = x[1][1]
            else:
                return False

    def handed(ret, method, kinds):
        leaves = []

        def walk(t):
            if t[0] == 'ite':
                walk(t[2])
                walk(t[3])
            else:
                leaves.append(t)
        walk(ret)
        good = [t for t in leaves if t[0] == 'call' and isinstance(t[1], tuple) and
                t[1][0] == 'attr' and t[1][2] in method and len(t[2]) == 1 and
                lossless(t[2][0], kinds)]
        return len(good) == len(leaves) and bool(leaves), leaves
    r = it.analyze('holopy.core.io.serialize.ndarray_representer')
    ok, leaves = handed(r.ret, ('represent_list', 'represent_data'), ('list',))
    ok = ok and any(t[1][2] == 'represent_list' and calls_in(t[2][0], 'tolist')
                    for t in leaves)
    check.require(ok, 'R4-ndarray-as-list', 'ndarray_representer',
                  'arrays of ndim > 0 are written as (nested) lists of python '
                  'scalars via tolist(), 0-d arrays as their item', m.relpath,
                  fail_detail='writes %s' % [show(t)[:80] for t in leaves])
    r = it.analyze('holopy.core.io.serialize.tuple_representer')
    ok, leaves = handed(r.ret, ('represent_list',), ('list',))
    check.require(ok, 'R4-tuple-as-list', 'tuple_representer',
                  'the tuple\'s own items, as a list', m.relpath,
                  fail_detail='writes %s' % [show(t)[:80] for t in leaves])
    r = it.analyze('holopy.core.io.serialize.numpy_float_representer')
    ok, leaves = handed(r.ret, ('represent_float',), ('float',))
    check.require(ok, 'R4-numpy-scalars', 'numpy_float_representer',
                  'np.float64 handed to the yaml float writer as the python float of '
                  'the same value (the writer emits repr(): every digit)', m.relpath,
                  fail_detail='writes %s: digits are lost before the writer sees the '
                  'value' % [show(t)[:80] for t in leaves])
    r = it.analyze('holopy.core.io.serialize.numpy_int_representer')
    ok, leaves = handed(r.ret, ('represent_int',), ('int',))
    check.require(ok, 'R4-numpy-scalars', 'numpy_int_representer',
                  'np.int64/32 handed over as the python int of the same value',
                  m.relpath, fail_detail='writes %s' % [show(t)[:80] for t in leaves])
    # class tags: unique short names among Serializable subclasses
    ser = prog.subclasses('holopy.core.holopy_object.Serializable')
    names = {}
    for q in ser:
        names.setdefault(prog.classes[q].name, []).append(q)
    for n, qs in sorted(names.items()):
        check.require(len(qs) == 1, 'R4-class-tag-unique', '!' + n,
                      'one class per yaml tag', qs[0],
                      fail_detail='tag !%s is registered by %s: the later '
                      'registration wins and the other class cannot be loaded'
                      % (n, qs))
    check.floor('class tags', len(names), 40)
    # tag format agreement writer/reader
    hm = prog.module('holopy.core.holopy_object')
    fmts = set()
    sites = 0
    for n in ast.walk(hm.tree):
        if isinstance(n, ast.Call) and isinstance(n.func, ast.Attribute) and \
                n.func.attr == 'format' and isinstance(n.func.value, ast.Constant) \
                and isinstance(n.func.value.value, str) and \
                n.func.value.value.startswith('!'):
            sites += 1
            arg = ast.unparse(n.args[0]) if n.args else ''
            kind = 'name-of-class' if arg.endswith('__name__') else arg
            fmts.add((n.func.value.value, kind))
    check.require(sites >= 3 and len(fmts) == 1, 'R4-tag-format-agrees',
                  'holopy_object tag format',
                  'metaclass constructor tag, Serializable.to_yaml and '
                  'HoloPyObject.to_yaml all use %r of the class name' % (
                      sorted(fmts)[0][0] if fmts else '?',), hm.relpath,
                  fail_detail='writer and reader build class tags differently: %r'
                  % (sorted(fmts),))
    # metaclass registers constructor for every loader and a representer
    mc = prog.classes['holopy.core.holopy_object.SerializableMetaclass']
    src = ast.unparse(mc.methods['__init__'])
    check.require('for loader in YAMLLOADERS' in src and
                  'add_constructor(tag, cls.from_yaml, Loader=loader)' in src and
                  'add_representer(cls, cls.to_yaml)' in src,
                  'R4-metaclass-registers', 'SerializableMetaclass.__init__',
                  'constructor per loader + representer registered per class',
                  hm.relpath)


# ----------------------------------------------------------------------
def r5_model(check, prog):
    q = MODEL + '.from_yaml'
    fd = prog.func(q)
    loc = prog.loc(q, fd)
    it = Interp(prog, max_depth=1, opaque=['holopy.core.mapping.read_map'])
    res = it.analyze(q)
    # keys read from the saved mapping: subscripts of the variable bound to
    # loader.construct_mapping(...)
    fields_reads = set()
    cm = [c for c in it.calls if c['name'] == '.construct_mapping']
    if len(cm) != 1:
        raise AnalysisError('Model.from_yaml: construct_mapping call not found')
    check.require(dict(cm[0]['kwargs']).get('deep') == ('const', True),
                  'R4-reader-deep', 'Model.from_yaml',
                  'nested objects (the scatterer template, theory, priors) are built '
                  'before the mapping is used: construct_mapping(..., deep=True)', loc,
                  fail_detail='construct_mapping is called without deep=True: nested '
                  'nodes are still empty placeholders when from_yaml reads them')
    allterms = [o.value for o in res.outcomes if o.value is not None] + \
        [t for o in res.outcomes for t, p in o.cond] + \
        [a for c in it.calls for a in c['args']] + \
        [v for c in it.calls for k, v in c['kwargs']] + \
        [e['value'] for e in it.effects if e.get('value') is not None]
    for x in subterms(intern(('tuple', tuple(allterms)))):
        if x[0] == 'idx' and x[2][0] == 'const' and x[1][0] == 'call' and \
                isinstance(x[1][1], tuple) and x[1][1][0] == 'attr' and \
                x[1][1][2] == 'construct_mapping':
            fields_reads.add(x[2][1])
        # fields.get('key'[, default]) reads the key too
        if x[0] == 'call' and isinstance(x[1], tuple) and x[1][0] == 'attr' and \
                x[1][2] == 'get' and x[1][1][0] == 'call' and \
                isinstance(x[1][1][1], tuple) and x[1][1][1][0] == 'attr' and \
                x[1][1][1][2] == 'construct_mapping' and x[2] and \
                x[2][0][0] == 'const':
            fields_reads.add(x[2][0][1])
    # keys written by Model._iteritems
    wq = MODEL + '._iteritems'
    wit = Interp(prog, max_depth=1)
    wres = wit.analyze(wq)
    written = set()
    for e in wit.effects:
        if e['kind'] == 'yield' and e['value'][0] == 'tuple':
            k = e['value'][1][0]
            if k[0] == 'const':
                written.add(k[1])
    # a key that only some models have is written for exactly those whose
    # constructor takes it (and whose value a loader can find again)
    for e in wit.effects:
        if e['kind'] == 'yield' and e['value'][0] == 'tuple' and \
                e['value'][1][0][0] == 'const':
            k = e['value'][1][0][1]
            def about_key(t_):
                return (t_[0] == 'cmp' and t_[1] == 'in' and t_[2] == ('const', k)) or \
                    (t_[0] == 'call' and isinstance(t_[1], str) and
                     t_[1].endswith('found_by_name')) or \
                    (t_[0] == 'call' and t_[1] == 'hasattr' and len(t_[2]) == 2 and
                     t_[2][1] == ('const', k))
            # (a conjunction of such tests counts like each of them)
            wrong = [show(t_)[:80] for t_, pol in e['cond'] if not pol and (
                about_key(t_) or (t_[0] in ('and', 'bool') and any(
                    about_key(x) for x in subterms(t_))))]
            check.require(not wrong, 'R5-model-keys', 'Model._iteritems writes %s when'
                          % k, 'written for the models that have it', prog.loc(
                              wq, prog.func(wq)),
                          fail_detail='written only when not %s' % '; '.join(wrong))
    # each key is written from the attribute of the same name
    for e in wit.effects:
        if e['kind'] == 'yield' and e['value'][0] == 'tuple' and \
                e['value'][1][0][0] == 'const':
            k = e['value'][1][0][1]
            attr = intern(('attr', sym('self'), k))
            leaves = set()

            def walk(t):
                if t[0] == 'ite':
                    walk(t[2])
                    walk(t[3])
                else:
                    leaves.add(t)
            walk(e['value'][1][1])
            okv = attr in leaves and leaves <= {attr, intern(('call', 'list', (attr,), ()))}
            check.require(okv, 'R5-model-keys', 'Model._iteritems value of ' + k,
                          'the value written under %r is self.%s' % (k, k),
                          prog.loc(wq, prog.func(wq)),
                          fail_detail='writes %s' % show(e['value'][1][1])[:120])
    # how from_yaml uses what it reads
    fterm = None
    for x in subterms(intern(('tuple', tuple(allterms)))):
        if x[0] == 'call' and isinstance(x[1], tuple) and x[1][0] == 'attr' and \
                x[1][2] == 'construct_mapping':
            fterm = x

    def F(k):
        return intern(('idx', fterm, ('const', k)))
    okf = fterm is not None
    detail = ''
    if okf:
        rm = 'holopy.core.mapping.read_map'
        scat = intern(('call', ('attr', F('_dummy_scatterer'), 'from_parameters'), (
            ('call', rm, (('idx', F('_maps'), ('const', 'scatterer')), F('_parameters')),
             ()),), ()))
        ctor = [c for c in it.calls if dict(c['kwargs']).get('**') is not None and
                c['name'] in (MODEL, 'cls')]
        okf = len(ctor) == 1
        if okf:
            # the keyword mapping: a literal, extended by update(read_map(...))
            # calls and by stores of further saved fields under their own name
            # (possibly only when the file has them); every alternative must do
            want_upds = sorted(show(intern(
                ('call', rm, (('idx', F('_maps'), ('const', k)), F('_parameters')),
                 ()))) for k in ('optics', 'model'))
            def leaves_under(t, cond=()):
                if t[0] == 'ite':
                    return leaves_under(t[2], cond + ((t[1], True),)) + \
                        leaves_under(t[3], cond + ((t[1], False),))
                return [(t, cond)]
            for t, under in leaves_under(dict(ctor[0]['kwargs'])['**']):
                upds = []
                items = {}
                t0 = t
                while (t[0] == 'mut' and t[2] == 'update') or \
                        (t[0] == 'upd' and t[2] == 'item'):
                    if t[0] == 'mut':
                        upds.append(t[3][0])
                    elif t[3][0] == 'const':
                        items.setdefault(t[3][1], t[4])
                    else:
                        items[None] = t[4]
                    t = t[1]
                lit = dict((k[1], x) for k, x in t[1]) if t[0] == 'dict' else {}
                lit.update(items)
                # further saved fields may be handed over under their own name
                extra_ok = all(
                    k is not None and (
                        x == F(k) or (x[0] == 'call' and x[1] == ('attr', fterm, 'get')
                                      and x[2] and x[2][0] == ('const', k)))
                    for k, x in lit.items() if k not in ('scatterer', 'theory'))
                # a field read with a subscript on a branch of a test is read where
                # the file has it; where the file has it, it is handed over
                present = {c[2][1]: pol for c, pol in under
                           if c[0] == 'cmp' and c[1] == 'in' and c[3] == fterm
                           and c[2][0] == 'const'}
                for k, x in items.items():
                    if k in present and not present[k] and x == F(k):
                        extra_ok = False
                for k, pol in present.items():
                    if pol and k not in lit:
                        extra_ok = False
                good = t[0] == 'dict' and lit.get('scatterer') == scat and \
                    lit.get('theory') == F('theory') and extra_ok and \
                    sorted(show(u) for u in upds) == want_upds
                if not good:
                    okf = False
                    detail = 'constructor keywords %s updated with %s and %s' % (
                        show(t)[:160], [show(u)[:80] for u in upds],
                        {k: show(x)[:40] for k, x in items.items()})
    check.require(okf, 'R5-model-rebuild', 'Model.from_yaml constructor call',
                  'scatterer = saved dummy scatterer rebuilt from read_map(maps'
                  '[scatterer], parameters); theory = the saved theory; the optics and '
                  'model maps are read with the saved parameters and passed as keywords',
                  loc, fail_detail=detail)
    # R5-model-state-restored: the three pieces of state that carry names, ties
    # and the value-to-place mapping are, on every return path, the saved ones -
    # either stored from the file, or left as rebuilt only on a path where the
    # rebuilt parameter list was compared equal to the saved one
    def attr_leaves(t, a, cond=()):
        if t[0] == 'upd' and t[2] == 'attr':
            if t[3] == a:
                return [(cond, t[4])]
            return attr_leaves(t[1], a, cond)
        if t[0] == 'ite':
            return attr_leaves(t[2], a, cond + ((t[1], True),)) + \
                attr_leaves(t[3], a, cond + ((t[1], False),))
        return [(cond, None)]

    def compared_equal(cond):
        for c, pol in cond:
            if c[0] == 'cmp' and c[1] in ('==', '!=') and \
                    pol is (c[1] == '==') and fterm is not None and \
                    F('_parameters') in (c[2], c[3]):
                other = c[3] if c[2] == F('_parameters') else c[2]
                # the engine shows the rebuilt list as what the constructor
                # stored (Mapper().parameters); any non-constant partner counts
                if other[0] != 'const':
                    return True
        return False
    rets = [o for o in res.outcomes if o.kind == 'return' and o.value is not None]
    check.floor('Model.from_yaml return paths', len(rets), 1)
    for a in ('_parameters', '_parameter_names', '_maps'):
        bad = []
        for o in rets:
            for cond, v in attr_leaves(o.value, a):
                full = tuple(o.cond) + cond
                if fterm is not None and v == F(a):
                    continue
                if v is None and a != '_parameter_names' and compared_equal(full):
                    continue
                bad.append('%s is %s when %s' % (
                    a, 'whatever the constructor rebuilt' if v is None
                    else show(v)[:60],
                    ' and '.join(('' if pol else 'not ') + show(c)[:70]
                                 for c, pol in full) or 'always'))
        check.require(not bad, 'R5-model-state-restored',
                      'Model.from_yaml ' + a,
                      'the reloaded model carries the saved %s on every return '
                      'path (or the rebuilt one, compared equal to the saved '
                      'parameter list)' % a, loc, fail_detail='; '.join(bad)[:300])
    check.floor('keys written by Model._iteritems', len(written), 5)
    check.floor('keys read by Model.from_yaml', len(fields_reads), 4)
    for k in sorted(fields_reads):
        check.require(k in written, 'R5-model-keys', 'Model.from_yaml reads ' + k,
                      'key is written by Model._iteritems', loc,
                      fail_detail='from_yaml reads fields[%r] which _iteritems '
                      'never writes' % k)
    for k in sorted(written):
        check.require(k in fields_reads, 'R5-model-keys',
                      'Model._iteritems writes ' + k,
                      'key is consumed by Model.from_yaml', loc,
                      fail_detail='_iteritems writes %r but from_yaml never reads '
                      'it: that state is lost on load' % k)
    # which maps are splatted into the constructor
    splat_maps = []
    for c in it.calls:
        if c['name'] == '.update' and c['args'] and len(c['args']) == 2:
            arg = c['args'][1]
            for rc in calls_in(arg, 'holopy.core.mapping.read_map'):
                mk = rc[2][0]
                if mk[0] == 'idx' and mk[2][0] == 'const':
                    splat_maps.append(mk[2][1])
    # constructor call: cls(**kwargs); the literal part of kwargs
    kw_literal = None
    cond_keys = set()
    for c in it.calls:
        star = dict(c['kwargs']).get('**')
        if star is None or c['name'] not in (MODEL, 'cls'):
            continue
        # keys of the literal on every alternative; keys stored only when the
        # file has them (`if k in fields: kwargs[k] = fields[k]`) are supplied
        # to the classes that write them and to no other
        for t in ite_leaves(star):
            while t[0] in ('mut', 'upd', 'copy'):
                if t[0] == 'upd' and t[2] == 'item' and t[3][0] == 'const':
                    cond_keys.add(t[3][1])
                t = t[2] if t[0] == 'copy' else t[1]
            if t[0] == 'dict':
                ks = const_keys(t)
                if ks is not None:
                    kw_literal = list(ks) if kw_literal is None else \
                        [k for k in kw_literal if k in ks]
    if kw_literal is None:
        raise AnalysisError('Model.from_yaml: cannot find the kwargs literal')
    check.floor('maps splatted into the model constructor', len(splat_maps), 1)
    check.note('maps splatted into cls(**kwargs)', ', '.join(splat_maps))
    # keys each map can hold, from Model.__init__
    models = prog.subclasses(MODEL)
    theory_keys = set()
    for tq in prog.subclasses(THEORY):
        hit = prog.lookup(tq, 'parameter_names')
        if hit and hit[0] == 'classattr':
            tit = Interp(prog)
            v = tit.eval_classattr(hit[1], hit[2])
            for x in (const_list(v) or []):
                theory_keys.add(x)
    for mq in models:
        short = mq.rpartition('.')[2]
        owner, ifd = init_of(prog, mq)
        params = set(init_params(ifd))
        fs = final_self(prog, mq, max_depth=3, opaque=[
            'holopy.scattering.interface.interpret_theory',
            'holopy.core.mapping.Mapper.convert_to_map',
            MODEL + '._create_dummy_scatterer',
            'holopy.core.utils.ensure_listlike',
            'holopy.core.utils.ensure_array'])
        mit, fr, selft, mres = fs
        maps = mit.getattr_term(selft, '_maps', fr, ())
        if maps[0] == 'ite':
            raise AnalysisError('Model._maps differs between paths')
        mk = dict((k[1], v) for k, v in maps[1]) if maps[0] == 'dict' else None
        if mk is None:
            raise AnalysisError('cannot resolve %s._maps: %s' % (short, show(maps)[:200]))
        check.note('model classes (R5)', short)
        for key in kw_literal:
            check.require(key in params, 'R5-ctor-accepts', '%s(%s=)' % (short, key),
                          '', prog.loc(owner, ifd),
                          fail_detail='from_yaml passes %s= which %s.__init__ does '
                          'not accept' % (key, short))
        supplied = set(kw_literal) | cond_keys
        for mname in splat_maps:
            if mname not in mk:
                check.bad('R5-ctor-accepts', '%s maps[%s]' % (short, mname),
                          'from_yaml reads maps[%r] which __init__ never builds'
                          % mname, loc)
                continue
            src = mk[mname]
            arg = src[2][-1] if src[0] == 'call' and src[2] else src
            keys = const_keys(arg)
            if keys is None:
                if any(x[0] == 'attr' and x[2] == 'parameters' for x in subterms(arg)) \
                        and any(x[0] == 'attr' and x[2] == 'theory'
                                for x in subterms(arg)) or \
                        calls_in(arg, 'interpret_theory'):
                    keys = sorted(theory_keys)
                else:
                    raise AnalysisError('cannot resolve the keys of %s._maps[%r]: %s'
                                        % (short, mname, show(arg)[:160]))
            supplied |= set(keys)
            for key in keys:
                check.require(
                    key in params, 'R5-ctor-accepts',
                    '%s(**maps[%s]) key %s' % (short, mname, key),
                    'keyword accepted by the constructor', prog.loc(owner, ifd),
                    fail_detail='Model.from_yaml passes maps[%r] key %r to '
                    '%s(**kwargs), but %s.__init__ has no such parameter: '
                    'loading raises TypeError' % (mname, key, short, short))
        # the converse: every constructor argument comes back on load
        for p_ in sorted(params):
            check.require(p_ in supplied, 'R5-model-argument-restored',
                          '%s.__init__(%s)' % (short, p_),
                          'from_yaml hands the saved value back to the constructor',
                          prog.loc(owner, ifd),
                          fail_detail='%s(%s=...) is neither written by Model._iteritems '
                          'nor passed by Model.from_yaml: a reloaded model silently '
                          'uses the default' % (short, p_))
    check.floor('Model subclasses', len(models), 3)
