"""C03  Cross sections obey energy conservation and the optical theorem.

Decides from the source:
  E1  extinction = scattering + absorption: in Mie.raw_cross_sections and
      Multisphere.raw_cross_sections the element returned in the 'absorbtion'
      slot is, identically, (the 'extinction' element) - (the 'scattering'
      element); the four slots are labelled scattering, absorbtion, extinction,
      assymetry in that order;
  E2  the Mie sums are Bohren & Huffman's: C_sca = (2 pi/k^2) sum (2l+1)
      (|a_l|^2 + |b_l|^2)  [4.61], C_ext = (2 pi/k^2) sum (2l+1) Re(a_l + b_l)
      [4.62], <cos> = 4 pi/(k^2 C_sca) [ sum l(l+2)/(l+1) Re(a_l a*_{l+1} +
      b_l b*_{l+1}) + sum (2l+1)/(l(l+1)) Re(a_l b*_l) ]  [p. 120]; scattering is
      a sum of non-negative terms;
  E3  Multisphere: C_ext = (4 pi/k^2) Re(pol . forward amplitude) (optical
      theorem at theta = phi = 0); C_sca interpolates its three reference
      polarisations (shared with C09); asymmetry = quadrature / C_sca;
  E4  dimensions: three areas and a pure number (C04's L-typing, run here on
      the cross-section entries).
Not decided: absorption >= 0 and = 0 for a real index, optical theorem against
calc_scat_matrix, quadrature identities, Rayleigh limit, Multisphere = Mie for
one sphere (numerical / cross-language).
"""
from fractions import Fraction as F

from hpstatic.interp import Interp, expr_term
from hpstatic.poly import Canon
from hpstatic.terms import (sym, intern, show, subterms, calls_in, NONE, num, kw)
from hpstatic.weights import ZERO, ANY, UNK
from hpstatic.xrnorm import atom_rewrite
from . import c04, c09
from .theories import run_config, IFQ

MUTATION_TARGETS = {'holopy/scattering/theory/mie.py': ['raw_cross_sections'], 'holopy/scattering/theory/mie_f/miescatlib.py': ['cross_sections', 'asymmetry_parameter'], 'holopy/scattering/theory/multisphere.py': ['raw_cross_sections', '_calc_cext', '_calc_cscat', '_integrate4pi', '_calc_asym', '_calc_cscat_quad'], 'holopy/scattering/theory/mie_f/mie_specfuncs.py': ['Qratio']}

LEVEL = 'other'
META = dict(
    claimed=True,
    technique='canonical-form identity cabs == cext - cscat with slot/label '
              'tracking; formula conformance of the Mie sums with Bohren & Huffman; '
              'weight typing of the cross-section entries'
              '; domain / weight check of the solid-angle quadratures (dblquad limits'
              ' through inlined lambdas, integrand weights by polynomial division)',
    level_text='Static: E1 is a proof (to rounding) that extinction = scattering + '
               'absorption for every sphere / cluster, since absorption is computed '
               'as that difference; E2/E3 decide that the coded sums are the textbook '
               'ones; E4 their dimensions.  Sign of absorption, the optical theorem '
               'against the scattering matrix, the Rayleigh limit and '
               'Mie == Multisphere are numerical and not decided.',
    level_note='Trusted: transcribed B&H formulas; numpy elementwise semantics; the '
               'f2py routines named in the Multisphere formulas are pure.',
)

TH = 'holopy.scattering.theory.'
MSL = TH + 'mie_f.miescatlib.'


def run(check, prog):
    check.explanation = (
        'raw_cross_sections of Mie and Multisphere are evaluated into terms; slots of '
        'the returned array are compared with each other and with B&H formulas.')
    canon = Canon(atom_rewrite=atom_rewrite)
    energy(check, prog, canon)
    mie_sums(check, prog, canon)
    multisphere(check, prog, canon)
    solid_angle_quadrature(check, prog)
    dimensions(check, prog)
    # the four numbers are sums over a_n, b_n: the coefficient formulas themselves
    # (single- and multi-layer) are checked by the rules shared with C02
    from . import c02
    c02.bh488(check, prog, canon)
    c02.yang(check, prog, canon)
    c02.qratio(check, prog)
    c02.seam(check, prog, canon)
    # ... evaluated at the layers' outer radii (rule shared with C02)
    c02.layered_radii(check, prog, canon)
    # ... and solved afresh for every call: no coefficients kept on the theory
    # object from an earlier wavelength (rule shared with C01)
    from . import c01
    c01.f5_state(check, prog)
    # a one-sphere cluster equals the single-sphere series only while the compiled
    # expansion can hold it (rule shared with C02)
    from . import c02 as _c02
    _c02.cluster_order_cap(check, prog)
    # extinction from the forward amplitude agrees with the Python-side series to
    # double precision only if the compiled amplitude sums are formed in double
    # precision (rules shared with C02)
    _c02.fortran_double_precision(check, prog)
    _c02.fortran_single_precision_quotients(check, prog)
    # ... and reports the same four numbers as the single-sphere theory only if
    # its per-sphere series is not cut in front of a resonant order
    _c02.series_exit(check, prog)
    _c02.psi_product_start(check, prog)
    # ... and returns numbers at all, whatever ran before (no read of a never-written
    # stack word in the compiled routines)
    _c02.work_arrays_defined(check, prog)


def slots(v):
    if v[0] == 'call' and v[1] == 'numpy.array' and v[2] and v[2][0][0] == 'list' and \
            len(v[2][0][1]) == 4:
        return list(v[2][0][1])
    return None


def energy(check, prog, canon):
    # labels
    q = IFQ + '.calculate_cross_sections'
    fd = prog.func(q)
    it = Interp(prog, max_depth=1)
    res = it.analyze(q)
    v = res.ret
    coords = kw(v, 'coords') if v[0] == 'call' else None
    labels = None
    if coords is not None and coords[0] == 'dict':
        for k, val in coords[1]:
            if k == ('const', 'cross_section') and val[0] == 'list':
                labels = [x[1] for x in val[1]]
    check.require(labels == ['scattering', 'absorbtion', 'extinction', 'assymetry'],
                  'E1-slot-labels', 'calculate_cross_sections',
                  'slots are labelled scattering, absorbtion, extinction, assymetry',
                  prog.loc(q, fd), fail_detail='labels %s' % labels)
    for cls, opaque, decide in (
            ('mie.Mie', [TH + 'mie.Mie._scat_coeffs', MSL + 'cross_sections',
                         MSL + 'asymmetry_parameter'], None),
            ('multisphere.Multisphere', [
                TH + 'multisphere.Multisphere._scsmfo_setup',
                TH + 'multisphere.Multisphere._calc_cext',
                TH + 'multisphere.Multisphere._calc_cscat',
                TH + 'multisphere.Multisphere._calc_asym',
                TH + 'multisphere.normalize_polarization'], None)):
        q = TH + cls + '.raw_cross_sections'
        fd = prog.func(q)
        loc = prog.loc(q, fd)
        it = Interp(prog, max_depth=1, opaque=opaque)
        res = it.analyze(q)
        rets = [o.value for o in res.returns]
        short = cls.rpartition('.')[2]
        if len(rets) != 1 or slots(rets[0]) is None:
            check.bad('E1-energy-conservation', short + '.raw_cross_sections',
                      'does not return array([cscat, cabs, cext, asym]): %s' % [
                          show(r)[:100] for r in rets], loc)
            continue
        cscat, cabs, cext, asym = slots(rets[0])
        diff = intern(('bin', '-', cext, cscat))
        check.require(canon.equal(cabs, diff), 'E1-energy-conservation',
                      short + '.raw_cross_sections',
                      "the 'absorbtion' slot is identically extinction - scattering",
                      loc, fail_detail='absorption slot = %s, extinction - scattering = '
                      '%s: the reported numbers need not satisfy C_ext = C_sca + C_abs' % (
                          canon.show(cabs)[:200], canon.show(diff)[:200]))
        check.require(not canon.equal(cscat, cext), 'E1-energy-conservation',
                      short + ' distinct slots', 'scattering and extinction are distinct '
                      'quantities', loc)


def mie_sums(check, prog, canon):
    q = MSL + 'cross_sections'
    fd = prog.func(q)
    loc = prog.loc(q, fd)
    it = Interp(prog, max_depth=1)
    res = it.analyze(q)
    v = res.ret
    ok = v[0] == 'call' and v[1] == 'numpy.array' and v[2][0][0] == 'list' and \
        len(v[2][0][1]) == 3
    if not ok:
        check.bad('E2-mie-sums', 'cross_sections', 'does not return array of 3', loc)
        return
    cs, ce, cb = v[2][0][1]
    env = {'al': sym('al'), 'bl': sym('bl')}
    L = '(np.arange(al.shape[0]) + 1)'
    w_cs = expr_term(prog, '((2.*%s + 1.) * (np.abs(al)**2 + np.abs(bl)**2)).sum()' % L, env)
    w_ce = expr_term(prog, '((2.*%s + 1.) * np.real(al + bl)).sum()' % L, env)
    check.require(canon.equal(cs, w_cs), 'E2-mie-sums', 'C_sca series',
                  'B&H 4.61: sum (2l+1)(|a_l|^2 + |b_l|^2), l = 1..lmax', loc,
                  fail_detail='scattering sum = %s' % canon.show(cs)[:240])
    check.require(canon.equal(ce, w_ce), 'E2-mie-sums', 'C_ext series',
                  'B&H 4.62: sum (2l+1) Re(a_l + b_l)', loc,
                  fail_detail='extinction sum = %s' % canon.show(ce)[:240])
    # non-negativity: every factor of the scattering summand is >= 0
    r = canon.rat(cs)
    okpos = False
    if len(r.num) == 1 and r.den == {(): 1}:
        (m, c), = r.num.items()
        okpos = c > 0 and len(m) == 1 and m[0][0][0] == 'SUM'
        if okpos:
            inner = canon.rat(m[0][0][2])
            okpos = all(cc > 0 for cc in inner.num.values()) and all(
                all((a[0] == 'call' and a[1] == 'abs' and e == 2) or
                    (a[0] == 'call' and a[1] == 'numpy.arange') for a, e in mm)
                for mm in inner.num)
    check.require(okpos, 'E2-scattering-non-negative', 'C_sca series',
                  'a sum of products of non-negative factors (|.|^2, l >= 1, positive '
                  'coefficients)', loc,
                  fail_detail='scattering summand = %s' % canon.show(cs)[:200])
    q = MSL + 'asymmetry_parameter'
    fd = prog.func(q)
    loc = prog.loc(q, fd)
    it = Interp(prog, max_depth=1)
    res = it.analyze(q)
    l = L
    w = expr_term(prog, '(%s[:-1] * (%s[:-1] + 2.) / (%s[:-1] + 1.) * np.real(al[:-1] * '
                  'np.conj(al[1:]) + bl[:-1] * np.conj(bl[1:]))).sum() + '
                  '((2. * %s + 1.)/(%s * (%s + 1)) * np.real(al * np.conj(bl))).sum()' % (
                      l, l, l, l, l, l), env)
    check.require(canon.equal(res.ret, w), 'E2-mie-sums', '<cos theta> series',
                  'B&H p. 120: sum l(l+2)/(l+1) Re(a_l a*_{l+1} + b_l b*_{l+1}) + '
                  'sum (2l+1)/(l(l+1)) Re(a_l b*_l)', loc,
                  fail_detail='asymmetry sum = %s' % canon.show(res.ret)[:300])
    # prefactors in Mie.raw_cross_sections
    q = TH + 'mie.Mie.raw_cross_sections'
    fd = prog.func(q)
    loc = prog.loc(q, fd)
    it = Interp(prog, max_depth=1, opaque=[TH + 'mie.Mie._scat_coeffs',
                                           MSL + 'cross_sections',
                                           MSL + 'asymmetry_parameter'])
    res = it.analyze(q)
    rets = [o.value for o in res.returns]
    sl = slots(rets[0]) if len(rets) == 1 else None
    if sl is None:
        return
    cscat, cabs, cext, asym = sl
    k = sym('medium_wavevec')
    albl = intern(('call', ('attr', sym('self'), '_scat_coeffs'),
                   (sym('scatterer'), k, sym('medium_index')), ()))
    X = intern(('call', MSL + 'cross_sections',
                (('idx', albl, num(0)), ('idx', albl, num(1))), ()))
    A = intern(('call', MSL + 'asymmetry_parameter',
                (('idx', albl, num(0)), ('idx', albl, num(1))), ()))
    env = {'X': X, 'A': A, 'k': k}
    c0 = Canon()
    w_cs = expr_term(prog, '(X * (2. * np.pi / k**2))[0]', env)
    w_ce = expr_term(prog, '(X * (2. * np.pi / k**2))[1]', env)
    w_as = expr_term(prog, '4. * np.pi / (k**2 * CS) * A', dict(env, CS=cscat))
    check.require(c0.equal(cscat, w_cs) and c0.equal(cext, w_ce), 'E2-prefactors',
                  'Mie C_sca, C_ext', '(2 pi / k^2) times elements 0 and 1 of the '
                  'dimensionless sums', loc,
                  fail_detail='C_sca = %s; C_ext = %s' % (c0.show(cscat)[:120],
                                                         c0.show(cext)[:120]))
    check.require(c0.equal(asym, w_as), 'E2-prefactors', 'Mie <cos theta>',
                  '4 pi / (k^2 C_sca) times the asymmetry sum', loc,
                  fail_detail='asymmetry = %s' % c0.show(asym)[:200])
    raise_ok = any('InvalidScatterer' in show(o.value) for o in res.raises)
    check.require(raise_ok, 'E2-prefactors', 'Mie rejects clusters',
                  'a Spheres argument is rejected (use Multisphere)', loc)


def multisphere(check, prog, canon):
    MS = TH + 'multisphere.Multisphere'
    q = MS + '._calc_cext'
    fd = prog.func(q)
    loc = prog.loc(q, fd)

    def decide(t):
        if t == ('cmp', 'is', sym('amn'), NONE):
            return False
        return None
    it = Interp(prog, max_depth=1, decide=decide, opaque=[
        TH + 'multisphere.normalize_polarization', TH + 'multisphere._asm_far'])
    res = it.analyze(q)
    v = res.ret
    pol = intern(('call', TH + 'multisphere.normalize_polarization',
                  (sym('illum_polarization'),), ()))
    fwd = intern(('call', TH + 'multisphere._asm_far',
                  (num(0), num(0), sym('amn'), sym('lmax')), ()))
    env = {'pol': pol, 'fwd': fwd, 'k': sym('medium_wavevec')}
    w = expr_term(prog, '4. * np.pi / k**2 * np.dot(pol, np.dot(fwd, pol * '
                  'np.array([1., -1.])) * np.array([1., -1.])).real', env)
    c0 = Canon()
    check.require(c0.equal(v, w), 'E3-optical-theorem', 'Multisphere._calc_cext',
                  'C_ext = (4 pi / k^2) Re(pol . A(theta=0, phi=0) pol)', loc,
                  fail_detail='C_ext = %s' % c0.show(v)[:300])
    c09.cscat_interpolation(check, prog)
    # a lossless cluster absorbs nothing only if the interaction equations are
    # solved with the translation matrices of the pair at hand (rule shared with C09)
    c09.work_array_regions(check, prog)
    q = MS + '.raw_cross_sections'
    fd = prog.func(q)
    loc = prog.loc(q, fd)
    it = Interp(prog, max_depth=1, opaque=[
        MS + '._scsmfo_setup', MS + '._calc_cext', MS + '._calc_cscat',
        MS + '._calc_asym', TH + 'multisphere.normalize_polarization'])
    res = it.analyze(q)
    sl = slots(res.ret)
    if sl is None:
        return
    cscat, cabs, cext, asym = sl
    ok = asym[0] == 'bin' and asym[1] == '/' and asym[3] == cscat and \
        bool(calls_in(asym[2], '_calc_asym'))
    check.require(ok, 'E3-asymmetry', 'Multisphere asymmetry',
                  '<cos theta> = quadrature / C_sca', loc,
                  fail_detail='asymmetry = %s' % show(asym)[:160])
    # the same expansion coefficients feed all three
    setups = [c for c in it.calls if c['name'].endswith('_scsmfo_setup')]
    users = [c for c in it.calls if any(c['name'].endswith(n) for n in (
        '_calc_cext', '_calc_cscat', '_calc_asym'))]
    def bound(u, pname):
        # the value a helper receives for its parameter, by keyword or position
        v = dict(u['kwargs']).get(pname)
        if v is not None:
            return v
        hit = prog.lookup(MS, u['name'].split('.')[-1])
        if hit and hit[0] == 'method':
            names = [a.arg for a in hit[2].args.args]
            args = list(u['args'])
            # method call records carry the receiver first
            if len(args) == len(names) or (args and args[0] == sym('self')):
                pass
            if pname in names:
                i = names.index(pname)
                if i < len(args):
                    return args[i]
        return None
    ok = len(setups) == 1 and len(users) == 3 and all(
        bound(u, 'amn') is not None and
        calls_in(bound(u, 'amn'), '_scsmfo_setup') for u in users)
    check.require(ok, 'E3-one-solution', 'Multisphere.raw_cross_sections',
                  'extinction, scattering and asymmetry are computed from one and the '
                  'same set of expansion coefficients', loc)


def dimensions(check, prog):
    for theory, scat in (('Mie', 'Sphere'), ('Multisphere', 'Spheres')):
        it, res = run_config(prog, theory, None, scat, 'calculate_cross_sections', 'none')
        w = c04.make_weigher('L', it, {'medium_wavevec': F(-1), 'medium_index': ZERO,
                                       'illum_polarization': ZERO})
        rw = w.w(res.ret)
        conflicts = [m for k, m, t in w.problems if k == 'conflict']
        want = ('seq', (F(2), F(2), F(2), ZERO))
        fd = prog.func(IFQ + '.calculate_cross_sections')
        check.require(rw == want and not conflicts, 'E4-dimensions',
                      '%s cross sections' % theory,
                      'three areas (length^2) and a pure number', prog.loc(IFQ, fd),
                      fail_detail='L-weights %s; %s' % (c04.fmt(rw), '; '.join(
                          conflicts)[:200]))


def solid_angle_quadrature(check, prog):
    """E3-solid-angle: the quadratures behind C_sca (by quadrature) and <cos theta>
    cover the whole sphere with weight 1 -- phi over [0, 2 pi], theta over [0, pi],
    the integrand carrying sin(theta) (times cos(theta) for the asymmetry).  A
    symmetry reduction of the phi range is valid for x / y polarisation only."""
    from hpstatic.interp import Frame
    T = TH + 'multisphere.'
    q = T + '_integrate4pi'
    fd = prog.func(q)
    loc = prog.loc(q, fd)
    it = Interp(prog, max_depth=1)
    v = it.analyze(q).ret
    f = sym(fd.args.args[0].arg)
    c0 = Canon()
    ok = v[0] == 'idx' and v[2] == num(0) and v[1][0] == 'call' and \
        v[1][1] == 'scipy.integrate.dblquad' and len(v[1][2]) == 5 and v[1][2][0] == f
    detail = 'returns %s' % show(v)[:160]
    if ok:
        a, b, lo, hi = v[1][2][1:]
        lims = []
        for cl in (lo, hi):
            if cl[0] == 'closure':
                node_c, cenv, cframe = it.closures[cl[1]]
                fr = Frame(cframe.module, cframe.owner, cframe.selfcls, cframe.selfname, 0, q)
                lims.append(it.inline_closure(node_c, cenv, cframe, [sym('x_')], {}, fr, ()))
            else:
                lims.append(cl)
        two_pi = expr_term(prog, '2 * np.pi', {})
        pi = expr_term(prog, 'np.pi', {})
        ok = c0.equal(a, num(0)) and c0.equal(b, two_pi) and \
            c0.equal(lims[0], num(0)) and c0.equal(lims[1], pi)
        detail = 'outer variable over [%s, %s], inner over [%s, %s]' % (
            c0.show(a), c0.show(b), c0.show(lims[0]), c0.show(lims[1]))
    check.require(ok, 'E3-solid-angle', '_integrate4pi',
                  'integral over phi in [0, 2 pi] and theta in [0, pi], returned unscaled',
                  loc, fail_detail=detail)
    # the integrands: (theta, phi) order as dblquad calls func(inner, outer), and
    # the sin(theta) [cos(theta)] weights
    MS = T + 'Multisphere'
    for meth, weight in (('_calc_cscat_quad', 'np.sin(theta)'),
                         ('_calc_asym', 'np.sin(theta) * np.cos(theta)')):
        qm = MS + '.' + meth
        fdm = prog.func(qm)
        itm = Interp(prog, max_depth=3, opaque=[T + '_integrate4pi', T + '_asm_far',
                                                T + 'normalize_polarization',
                                                MS + '._scsmfo_setup'])
        itm.analyze(qm)
        calls = [c for c in itm.calls if c['name'] == T + '_integrate4pi']
        ok = len(calls) == 1 and calls[0]['args'] and calls[0]['args'][0][0] == 'closure'
        detail = 'no single _integrate4pi(<integrand>) call'
        if ok:
            node_c, cenv, cframe = itm.closures[calls[0]['args'][0][1]]
            fr = Frame(cframe.module, cframe.owner, cframe.selfcls, cframe.selfname, 0, qm)
            th, ph = sym('theta'), sym('phi')
            val = itm.inline_closure(node_c, cenv, cframe, [th, ph], {}, fr, ())
            asm = [c for c in calls_in(val, T + '_asm_far')]
            inc = [x for x in subterms(val) if x[0] == 'call' and isinstance(x[1], str)
                   and x[1].endswith('incfield')]
            ok = bool(asm) and all(c[2][0] == th and c[2][1] == ph for c in asm) and \
                bool(inc) and all(dict(c[3]).get('phi') == ph for c in inc)
            detail = 'the amplitude is evaluated at %s' % [show(c)[:60] for c in asm + inc]
            if ok:
                w = expr_term(prog, weight, {'theta': th})
                # integrand = |A|^2 * weight: dividing by the weight leaves no theta
                # outside the amplitude
                rest = intern(('bin', '/', val, w))
                r = c0.rat(rest)
                atoms = set()
                for mono in list(r.num) + list(r.den):
                    for a_, e_ in mono:
                        atoms.add(a_)
                free = [a_ for a_ in atoms if any(
                    x == th for x in subterms(a_)) and not calls_in(a_, T + '_asm_far')]
                ok = not free
                detail = 'integrand / (%s) still depends on theta through %s' % (
                    weight, [show(a_)[:60] for a_ in free])
        check.require(ok, 'E3-solid-angle', 'Multisphere.%s integrand' % meth,
                      '|A(theta, phi)|^2 * %s with the first argument the polar angle'
                      % weight, prog.loc(qm, fdm), fail_detail=detail)
