"""C11  Model parameters map to exactly the places their priors were used.

Decides from the source:
  G1  map grammar: writer (Mapper), reader (read_map) and editor
      (edit_map_indices) agree on the placeholder: one prefix literal, the
      prefix test slices exactly len(prefix) characters, the index is the
      *whole* remainder of the string; every node kind the writer produces has
      a reader and an editor branch;
  G2  the parallel lists stay in lock-step: every block that mutates the
      parameter list mutates the name list with the same operation and index;
      every name stored is guarded by a uniqueness test; ties are found by
      identity (`is`), not equality;
  G3  name-keyed == list-ordered: ensure_parameters_are_listlike orders by
      _parameter_names; parameters / initial_guess zip names with priors /
      guesses; validate_scatterer feeds each prior's guess in mapper order;
  G4  rebuilding: Scatterer.parameters is a deep copy; every from_parameters
      passes the supplied values through unchanged (by identity -- ties are
      found by identity after a reload) and mutates neither self nor its
      argument; Scatterers distributes 'i:key' entries to member i;
      RigidCluster.from_parameters and .scatterers apply rotated then translated;
  G5  the editor's renumbering of an untied index depends on how many tied
      indices precede it (necessary condition of "removes exactly the
      duplicates").
  G6  the reader's decision table, read off as a truth table over its guard
      atoms, is the grammar's semantics: placeholder -> the indexed value;
      [callable, args] -> callable(*read args); other list -> element-wise;
      anything else -> itself;
  G7  the editor's table likewise: list -> element-wise; placeholder ->
      placeholder renumbered by  tied -> first tied index;  below the first
      tied index -> unchanged;  otherwise  old - (#{tied < old} - 1)  (the
      number of removed duplicates that precede it); anything else -> itself;
  G8  Model.add_tie: the tied indices are sorted before they are used, the
      duplicates are deleted from the highest index down and never the first,
      the new name goes to the first tied index, and every map is rewritten by
      the editor with the same sorted indices.
  G9  the writer's decision table (Mapper.convert_to_map), as a truth table
      over its isinstance atoms restricted to assignments the class hierarchy
      allows (TransformedPrior is a Prior): sequences, dictionaries, labelled
      arrays, derived priors, priors and fixed values each go to their own
      mapper with (value, name) in that order; iterate_mapping maps every
      element in order; map_dictionary pairs each key with its own mapped
      value and drops only None; get_parameter_index returns the position the
      prior has (tie) or will have (len before the append) and appends only
      when there is no tie.
Not decided: name de-duplication suffixes; equality test of the tied priors.
"""
import ast

from hpstatic.effects import writes, roots
from hpstatic.interp import Interp
from hpstatic.loader import AnalysisError
from hpstatic.terms import (sym, intern, show, subterms, calls_in, NONE, num, kw,
                            atoms_of, is_num)
from .common import SCATTERER, lt_form
from hpstatic.logic import select, guard_atoms
from hpstatic.poly import Canon
import itertools

MUTATION_TARGETS = {'holopy/core/mapping.py': ['read_map', 'edit_map_indices', 'convert_to_map', 'get_parameter_index', 'check_for_ties', 'add_parameter', 'map_dictionary', 'map_transformed_prior', 'map_xarray', 'make_xarray'], 'holopy/inference/model.py': ['add_tie', 'ensure_parameters_are_listlike', 'parameters', 'initial_guess', '_scatterer_from_parameters', 'theory_from_parameters'], 'holopy/scattering/scatterer/scatterer.py': ['from_parameters', 'parameters'], 'holopy/scattering/scatterer/composite.py': ['from_parameters', '_parameters'], 'holopy/scattering/scatterer/spherecluster.py': ['from_parameters', 'scatterers']}

LEVEL = 'other'
META = dict(
    claimed=True,
    technique='truth-table extraction of the map writer / reader / editor (nested '
              'conditionals evaluated under every class-hierarchy-consistent '
              'assignment of their guard atoms) compared with the grammar\'s '
              'semantics; formula conformance of the tie renumbering; effect '
              'analysis of the parallel parameter lists; def-use (dependence) '
              'checks of name-keyed vs list-ordered access; identity-preserving '
              'flow of parameter values through every from_parameters'
              '; unknown guards enumerated as free atoms; value/label pairing of labe'
              'lled-array parameters'
              '; class-level mutable state scan of the model classes; copy-free hand-off of the four sections to the Mapper (ties are by identity); constructor-only attribute stores in the scatterer package',
    level_text='Static: decides the structural clauses G1-G9 for every map the '
               'writer can produce (the grammar is finite) and every from_parameters '
               'implementation in the package.  These are the conditions under '
               'which "each value lands at every place its prior was used" can '
               'hold.  The renumbering formula is compared with the one derived '
               'from "remove the duplicates indices[1:]"; name de-duplication '
               'suffixes and the run-time equality test of tied priors are not '
               'decided.',
    level_note='Trusted: my term extraction for the mapping functions; '
               'copy/deepcopy create new objects; list.append / del semantics.',
)

MAP = 'holopy.core.mapping.'
MODEL = 'holopy.inference.model.Model'


def sections_share_identity(check, prog):
    """G13: one parameter per distinct prior, across the sections of a model.
    The Mapper recognises a prior it has seen by identity (`existing is
    parameter`), so the values of the four sections -- scatterer, theory, optics,
    model -- must reach it as the objects the user wrote: a section read through
    an accessor that hands out copies can tie priors only within itself."""
    MQ = 'holopy.inference.model.Model'
    q = MQ + '.__init__'
    fd = prog.func(q)
    loc = prog.loc(q, fd)
    it = Interp(prog, max_depth=1, inline_new=False,
                opaque=['holopy.scattering.interface.interpret_theory',
                        MQ + '._create_dummy_scatterer'])
    it.analyze(q)
    cm = [c for c in it.calls if c['name'].endswith('Mapper.convert_to_map')]
    check.need('sections mapped in Model.__init__', len(cm), 4,
               'G13-sections-share-identity', 'Model.__init__ sections',
               'scatterer, theory, optics and model values go through one Mapper', loc)
    hints = {'scatterer': 'holopy.scattering.scatterer.scatterer.Scatterer',
             'theory': 'holopy.scattering.theory.scatteringtheory.ScatteringTheory'}
    for c in cm:
        arg = c['args'][1] if len(c['args']) > 1 else None
        if arg is None or arg[0] != 'attr':
            continue
        owner_t, name = arg[1], arg[2]
        hint = None
        if owner_t == sym('scatterer'):
            hint = hints['scatterer']
        elif owner_t == ('attr', sym('self'), 'theory'):
            hint = hints['theory']
        if hint is None:
            continue
        copies = []
        for cq in sorted(set(prog.subclasses(hint)) | {hint}):
            hit = prog.lookup(cq, name)
            if not hit or hit[0] != 'property' or not hit[2].get('getter'):
                continue
            gq = hit[1] + '.' + name
            g = hit[2]['getter']
            import ast as _ast
            for n in _ast.walk(g):
                if isinstance(n, _ast.Return) and n.value is not None:
                    for m in _ast.walk(n.value):
                        if isinstance(m, _ast.Call) and _ast.unparse(m.func) in (
                                'deepcopy', 'copy.deepcopy', 'copy', 'copy.copy'):
                            copies.append(gq)
        copies = sorted(set(copies))
        check.require(not copies, 'G13-sections-share-identity',
                      'Model.__init__ maps %s.%s' % (show(owner_t), name),
                      'the section reaches the Mapper as the objects the user wrote',
                      loc, fail_detail='%s hands out copies (%s): a prior used in the '
                      'scatterer *and* in another section (medium = Uniform(1.30, 1.36); '
                      'Sphere(n=medium * 1.2), medium_index=medium) becomes two '
                      'independent parameters, medium and medium_0 -- the sphere\'s '
                      'index no longer follows the medium index and the prior is '
                      'counted twice in lnprior' % (
                          '%s.%s' % (show(owner_t), name), ', '.join(
                              x.replace('holopy.', '') for x in copies)))


def no_class_level_state(check, prog):
    """G12: what a model knows about its parameters lives on the instance.  A
    mutable class attribute (`Model._model_parameters = {}`) that a method
    updates in place -- instead of rebinding it on the instance -- is one object
    shared by every model of every subclass: the scaling prior of one AlphaModel
    would show up as a parameter of every model built afterwards."""
    import ast
    from .c01 import instance_assigned
    roots = ['holopy.inference.model.Model', 'holopy.core.mapping.Mapper']
    classes = sorted({c for r in roots for c in prog.subclasses(r)} | set(roots))
    MUT = ('append', 'extend', 'update', 'pop', 'setdefault', 'insert', 'clear',
           'add', 'remove', 'popitem')
    n_attrs, bad = 0, []
    for cq in classes:
        if cq not in prog.classes:
            continue
        c = prog.classes[cq]
        inst = instance_assigned(prog, cq)
        for name, fd in c.methods.items():
            if not fd.args.args:
                continue
            me = fd.args.args[0].arg
            for n in ast.walk(fd):
                tgt = None
                if isinstance(n, ast.Subscript) and isinstance(n.ctx, (ast.Store, ast.Del)):
                    tgt = n.value
                elif isinstance(n, ast.Call) and isinstance(n.func, ast.Attribute) and \
                        n.func.attr in MUT:
                    tgt = n.func.value
                while isinstance(tgt, ast.Subscript):
                    tgt = tgt.value
                if not (isinstance(tgt, ast.Attribute) and isinstance(tgt.value, ast.Name)
                        and tgt.value.id == me):
                    continue
                hit = prog.lookup(cq, tgt.attr)
                if not (hit and hit[0] == 'classattr' and isinstance(
                        hit[2], (ast.Dict, ast.List, ast.Set, ast.Call))):
                    continue
                n_attrs += 1
                if tgt.attr in inst:
                    continue       # rebound on the instance somewhere in the MRO
                bad.append((cq, name, tgt.attr, hit[1],
                            '%s:%d' % (c.module.relpath, n.lineno)))
    mutable = sorted({(q.rpartition('.')[2], a) for q in classes if q in prog.classes
                      for a, v in prog.classes[q].class_attrs.items()
                      if isinstance(v, (ast.Dict, ast.List, ast.Set))})
    check.note('mutable class attributes of the model classes', str(mutable))
    check.floor('mutable class attributes of the model classes', len(mutable), 1)
    for cq, name, attr, owner, where in bad:
        check.bad('G12-no-class-level-state', '%s.%s updates %s.%s' % (
            cq.rpartition('.')[2], name, owner.rpartition('.')[2], attr),
            '%s.%s updates the class attribute %s.%s in place and no constructor '
            'rebinds it on the instance: it is one dictionary for every model -- an '
            'AlphaModel with a prior on alpha leaves that prior in it, and every '
            'ExactModel built afterwards has a fourth parameter for three priors '
            '(scatterer_from_parameters by name raises KeyError)' % (
                cq.rpartition('.')[2], name, owner.rpartition('.')[2], attr), where)
    if not bad:
        check.ok('G12-no-class-level-state', 'model classes',
                 'no method updates a mutable class attribute that is not rebound on '
                 'the instance (%d classes)' % len(classes))


def run(check, prog):
    check.explanation = (
        'read_map / edit_map_indices / Mapper are evaluated into terms; their '
        'branch conditions and slices are compared as tables; list mutations are '
        'collected by the effect analysis; from_parameters implementations are '
        'checked for identity-preserving flow.')
    check.trusted += ['copy/deepcopy/list semantics']
    grammar(check, prog)
    lockstep(check, prog)
    ordering(check, prog)
    rebuilding(check, prog)
    renumbering(check, prog)
    reader_table(check, prog)
    editor_table(check, prog)
    tie(check, prog)
    writer_table(check, prog)
    xarray_map(check, prog)
    template_class(check, prog)
    # a scatterer rebuilt from its parameters shares no remembered state with the
    # template it was built from (shared with C19)
    from . import c19
    c19.scatterer_no_memo(check, prog)
    no_class_level_state(check, prog)
    sections_share_identity(check, prog)
    # "applies the transformations": a derived prior must denote the arithmetic
    # that was written (shared rule with C14)
    from . import c14
    from hpstatic.poly import Canon
    c14.r6_arithmetic(check, prog, Canon())


# ----------------------------------------------------------------------
def prefix_tests(res):
    """[(K, literal)] for every `entry[:K] == literal` test on the paths"""
    out = []
    seen = set()
    for o in res.outcomes:
        for t, pol in o.cond:
            for x in subterms(t):
                if x[0] == 'cmp' and x[1] == '==' and x[2][0] == 'idx' and \
                        x[2][2][0] == 'slice' and x[3][0] == 'const' and \
                        isinstance(x[3][1], str) and id(x) not in seen:
                    seen.add(id(x))
                    sl = x[2][2]
                    out.append((sl, x[3][1]))
    return out


def grammar(check, prog):
    q = MAP + 'read_map'
    fd = prog.func(q)
    loc = prog.loc(q, fd)
    it = Interp(prog, max_depth=1)
    res = it.analyze(q)
    tests = prefix_tests(res)
    prefixes = set()
    for sl, lit in tests:
        prefixes.add(lit)
        ok = sl[1] == NONE and sl[3] == NONE and is_num(sl[2]) and \
            int(sl[2][1]) == len(lit)
        check.require(ok, 'G1-prefix-test', 'read_map',
                      'placeholder test slices exactly len(%r) = %d characters' % (
                          lit, len(lit)), loc,
                      fail_detail='tests entry[%s] == %r' % (show(sl), lit))
    check.floor('placeholder tests in read_map', len(tests), 1)
    # the index is the whole remainder
    ph = [o for o in res.returns if o.value[0] == 'idx' and
          o.value[1] == sym('parameter_values')]
    check.floor('placeholder-returning paths in read_map', len(ph), 1)
    for o in ph:
        key = o.value[2]
        ok = key[0] == 'call' and key[1] == 'int' and key[2] and \
            key[2][0][0] == 'idx' and key[2][0][1] == sym('map_entry') and \
            key[2][0][2][0] == 'slice'
        if ok:
            sl = key[2][0][2]
            lit = tests[0][1] if tests else ''
            ok = is_num(sl[1]) and int(sl[1][1]) == len(lit) and sl[2] == NONE \
                and sl[3] == NONE
        check.require(ok, 'G1-index-is-remainder', 'read_map',
                      'parameter index = int(entry[len(prefix):]) -- every digit', loc,
                      fail_detail='index is %s: placeholders with more than one digit '
                      '(models with more than 10 parameters) resolve to the wrong '
                      'parameter' % show(key))
    # reader branches: callable-list, list, passthrough
    kinds = set()
    for o in res.returns:
        v = o.value
        if v == sym('map_entry'):
            kinds.add('leaf')
        elif v[0] == 'call' and v[1] == ('idx', sym('map_entry'), num(0)):
            kinds.add('call')
            rec = calls_in(v, MAP + 'read_map')
            okr = bool(rec) and v[2] and v[2][0][0] == 'star'
            check.require(okr, 'G1-reader-branches', 'read_map [func, args]',
                          'func(*[read_map(arg) for arg in args])', loc)
        elif calls_in(v, MAP + 'read_map'):
            kinds.add('list')
    check.require({'leaf', 'call', 'list'} <= kinds and ph, 'G1-reader-branches',
                  'read_map',
                  'branches for placeholder, [callable, args], list, and leaf', loc,
                  fail_detail='reader handles only %s' % sorted(kinds))
    # editor
    q2 = MAP + 'edit_map_indices'
    fd2 = prog.func(q2)
    loc2 = prog.loc(q2, fd2)
    it2 = Interp(prog, max_depth=1)
    res2 = it2.analyze(q2)
    tests2 = prefix_tests(res2)
    for sl, lit in tests2:
        prefixes.add(lit)
        ok = sl[1] == NONE and sl[3] == NONE and is_num(sl[2]) and \
            int(sl[2][1]) == len(lit)
        check.require(ok, 'G1-prefix-test', 'edit_map_indices',
                      'placeholder test slices exactly len(prefix) characters', loc2,
                      fail_detail='tests entry[%s] == %r' % (show(sl), lit))
    check.floor('placeholder tests in edit_map_indices', len(tests2), 1)
    fmts = set()
    for o in res2.returns:
        for c in subterms(o.value):
            if c[0] == 'call' and isinstance(c[1], tuple) and c[1][0] == 'attr' and \
                    c[1][2] == 'format' and c[1][1][0] == 'const':
                fmts.add(c[1][1][1])
    ekinds = set()
    for o in res2.returns:
        v = o.value
        if v == sym('map_entry'):
            ekinds.add('leaf')
        elif calls_in(v, MAP + 'edit_map_indices'):
            ekinds.add('list')
        elif fmts and any(c[0] == 'call' for c in subterms(v)):
            ekinds.add('placeholder')
    check.require({'leaf', 'list', 'placeholder'} <= ekinds, 'G1-editor-branches',
                  'edit_map_indices', 'branches for list, placeholder and leaf', loc2,
                  fail_detail='editor handles only %s' % sorted(ekinds))
    # writer
    q3 = MAP + 'Mapper.convert_to_map'
    fd3 = prog.func(q3)
    loc3 = prog.loc(q3, fd3)
    it3 = Interp(prog, max_depth=1, opaque=[
        MAP + 'Mapper.iterate_mapping', MAP + 'Mapper.map_dictionary',
        MAP + 'Mapper.map_xarray', MAP + 'Mapper.map_transformed_prior',
        MAP + 'Mapper.get_parameter_index'])
    res3 = it3.analyze(q3)
    for o in res3.returns:
        for c in subterms(o.value):
            if c[0] == 'call' and isinstance(c[1], tuple) and c[1][0] == 'attr' and \
                    c[1][2] == 'format' and c[1][1][0] == 'const':
                fmts.add(c[1][1][1])
                idx = c[2][0] if c[2] else None
                okw = idx is not None and bool(calls_in(idx, 'get_parameter_index'))
                check.require(okw, 'G1-writer-index', 'Mapper.convert_to_map',
                              'placeholder carries the index returned by '
                              'get_parameter_index', loc3)
    stems = {f.replace('{}', '').replace('{0}', '') for f in fmts}
    allp = prefixes | stems
    check.require(len(allp) == 1 and len(fmts) >= 1, 'G1-one-prefix',
                  'placeholder prefix',
                  'writer, reader and editor use the single prefix %r' % (
                      sorted(allp)[0] if allp else None), loc,
                  fail_detail='prefixes in use: reader/editor tests %s, writer/editor '
                  'formats %s' % (sorted(prefixes), sorted(fmts)))
    # writer node kinds: [callable, [args]] with module-level callables
    for mname, want in (('map_dictionary', 'dict'), ('map_xarray', MAP + 'make_xarray'),
                        ('map_transformed_prior', MAP + 'transformed_prior')):
        qm = MAP + 'Mapper.' + mname
        itm = Interp(prog, max_depth=1, opaque=[MAP + 'Mapper.iterate_mapping'])
        rm = itm.analyze(qm)
        v = rm.ret
        ok = v[0] == 'list' and len(v[1]) == 2 and v[1][1][0] == 'list' and (
            v[1][0] == ('extref', want) or v[1][0] == ('funcref', want))
        check.require(ok, 'G1-writer-kinds', 'Mapper.' + mname,
                      'emits [callable, [args]] with callable %s' % want.rpartition('.')[2],
                      prog.loc(qm, prog.func(qm)),
                      fail_detail='emits %s' % show(v)[:160])


# ----------------------------------------------------------------------
def lockstep(check, prog):
    pairs = [(MAP + 'Mapper.add_parameter', 'parameters', 'parameter_names'),
             (MODEL + '.add_tie', '_parameters', '_parameter_names')]
    for q, pa, na in pairs:
        fd = prog.func(q)
        loc = prog.loc(q, fd)
        it = Interp(prog, max_depth=1)
        res = it.analyze(q)
        ops = {pa: [], na: []}
        for e in it.effects:
            tgt = None
            if e['kind'] == 'mutcall':
                tgt, op, arg = e['base'], e['method'], None
            elif e['kind'] == 'delete':
                t = e['target']
                if t[0] == 'idx':
                    tgt, op, arg = t[1], 'del', t[2]
            elif e['kind'] == 'setitem':
                tgt, op, arg = e['base'], 'setitem', e['key']
            if tgt is None or tgt[0] != 'attr' or tgt[2] not in ops:
                continue
            ops[tgt[2]].append((op, arg, tuple(e['cond'])))
        short = q.rpartition('.')[2]
        structural = [(o, a) for o, a, c in ops[pa] if o in ('append', 'del', 'pop',
                                                              'insert', 'remove')]
        structural_n = [(o, a) for o, a, c in ops[na] if o in ('append', 'del', 'pop',
                                                                'insert', 'remove')]
        check.floor('list mutations in %s' % short, len(structural), 1)
        same = [o for o, a in structural] == [o for o, a in structural_n] and all(
            (a1 is None) == (a2 is None) and (a1 is None or a1 == a2)
            for (o1, a1), (o2, a2) in zip(structural, structural_n))
        check.require(same, 'G2-lockstep', short,
                      '%s and %s are changed by the same operations at the same '
                      'positions: %s' % (pa, na, [o for o, a in structural]), loc,
                      fail_detail='%s: %s but %s: %s' % (
                          pa, [(o, show(a) if a else None) for o, a in structural],
                          na, [(o, show(a) if a else None) for o, a in structural_n]))
        conds_p = [c for o, a, c in ops[pa] if o in ('append', 'del')]
        conds_n = [c for o, a, c in ops[na] if o in ('append', 'del')]
        check.require(conds_p == conds_n, 'G2-lockstep', short + ' conditions',
                      'both lists are changed under the same conditions', loc)
    # every name written is unique
    q = MAP + 'Mapper.get_parameter_index'
    fd = prog.func(q)
    loc = prog.loc(q, fd)
    it = Interp(prog, max_depth=2, opaque=[MAP + 'Mapper.check_for_ties'])
    res = it.analyze(q)
    names = intern(('attr', sym('self'), 'parameter_names'))
    nstores = 0
    for e in it.effects:
        val = None
        if e['kind'] == 'mutcall' and e['base'] == names and e['method'] == 'append':
            val = e['args'][0]
        elif e['kind'] == 'setitem' and e['base'] == names:
            val = e['value']
        if val is None:
            continue
        nstores += 1
        guarded = False
        for t, pol in e['cond']:
            for x in subterms(t):
                if x[0] == 'cmp' and x[1] in ('not in', 'in') and x[2] == val and \
                        x[3] == names:
                    # polarity: need "val not in names" to hold
                    holds = (x[1] == 'not in') == pol if x is t else None
                    if holds is None:
                        # inside a conjunction that is required True
                        holds = pol and x[1] == 'not in' and t[0] == 'bool' and \
                            t[1] == 'and' and x in t[2]
                    guarded = guarded or bool(holds)
        if not guarded and val[0] == 'loop':
            # while name in names: name = ...   exits only when name not in names
            lp = it.loops.get(val[2])
            c = lp['cond'] if lp else None
            guarded = c is not None and c[0] == 'cmp' and c[1] == 'in' and \
                c[3] == names and c[2][0] == 'phi' and c[2][1] == val[1]
        check.require(guarded, 'G2-unique-names',
                      'name stored at %s:%d' % (e['module'], e['lineno']),
                      'the name written is known not to be in parameter_names', loc,
                      fail_detail='stores %s into parameter_names without a '
                      '"not in parameter_names" guard: two parameters can get the '
                      'same name' % show(val)[:100])
    check.floor('name stores in Mapper', nstores, 2)
    # ties by identity
    q = MAP + 'Mapper.check_for_ties'
    fd = prog.func(q)
    itc = Interp(prog, max_depth=1)
    rc = itc.analyze(q)
    me = sym(fd.args.args[0].arg)
    p = sym(fd.args.args[1].arg)
    plist = intern(('attr', me, 'parameters'))
    hits = [o for o in rc.returns if o.value != NONE]
    ok = len(hits) == 1
    detail = '%d returning paths' % len(hits)
    if ok:
        o = hits[0]
        conds = [(t, pl) for t, pl in o.cond if t[0] != 'loop-iter']
        ex = [x for x in subterms(o.value) if x[0] == 'elem']
        # returns the position of the element that *is* the prior
        ok = len(conds) == 1 and conds[0][1] and conds[0][0][0] == 'cmp' and \
            conds[0][0][1] == 'is' and p in (conds[0][0][2], conds[0][0][3]) and \
            any(x == ('elem', plist, x[2]) for x in (conds[0][0][2], conds[0][0][3])
                if x[0] == 'elem') and \
            o.value[0] == 'idx' and o.value[2] == num(0) and \
            o.value[1][0] == 'elem' and o.value[1][1] == ('call', 'enumerate', (plist,), ())
        detail = 'returns %s when %s' % (show(o.value)[:80],
                                         [(show(t)[:80], pl) for t, pl in conds])
    check.require(ok, 'G2-ties-by-identity', 'Mapper.check_for_ties',
                  'returns the position of the existing parameter that *is* the same '
                  'object (None otherwise)',
                  prog.loc(q, fd), fail_detail=detail)


# ----------------------------------------------------------------------
def ordering(check, prog):
    selfs = sym('self')
    names = intern(('attr', selfs, '_parameter_names'))
    params = intern(('attr', selfs, '_parameters'))
    q = MODEL + '.ensure_parameters_are_listlike'
    fd = prog.func(q)
    it = Interp(prog, max_depth=1)
    res = it.analyze(q)
    ok = False
    pars_ = sym(fd.args.args[1].arg)
    isd = intern(('call', 'isinstance', (pars_, ('extref', 'dict')), ()))
    from hpstatic.logic import select
    as_dict = select(res.ret, lambda t: True if t == isd else None)
    as_list = select(res.ret, lambda t: False if t == isd else None)
    if as_dict is not None:
        v = as_dict
        if v[0] == 'call' and v[1] == 'list' and len(v[2]) == 1:
            v = v[2][0]
        if v[0] == 'comp' and v[3] and v[3][0][1] == names:
            e = v[3][0][0]
            ok = v[2] == ('idx', pars_, e)
    ok = ok and as_list == pars_
    check.require(ok, 'G3-name-keyed-order', 'Model.ensure_parameters_are_listlike',
                  'a dict is turned into the list of its values ordered by '
                  '_parameter_names; anything else is returned as is',
                  prog.loc(q, fd),
                  fail_detail='dict -> %s; other -> %s' % (
                      show(as_dict)[:120] if as_dict else None,
                      show(as_list)[:60] if as_list else None))
    for prop, attr in (('parameters', None), ('initial_guess', 'guess')):
        q = MODEL + '.' + prop
        fd = prog.func(q)
        it = Interp(prog, max_depth=1)
        res = it.analyze(q)
        v = res.ret
        ok = False
        if v[0] == 'comp' and v[1] == 'dict' and v[3]:
            itr = v[3][0][1]
            e = v[3][0][0]
            if itr == ('call', 'zip', (names, params), ()):
                key, val = v[2][1]
                lid = e[2]
                en, ep = intern(('elem', names, lid)), intern(('elem', params, lid))
                want = ep if attr is None else intern(('attr', ep, attr))
                ok = key == en and val == want
        check.require(ok, 'G3-name-keyed-order', 'Model.' + prop,
                      'name i is paired with prior i%s' % (
                          "'s guess" if attr else ''), prog.loc(q, fd),
                      fail_detail='%s = %s' % (prop, show(v)[:200]))
    q = 'holopy.scattering.interface.validate_scatterer'
    fd = prog.func(q)
    it = Interp(prog, max_depth=1, inline_new=False,
                opaque=[MAP + 'read_map', MAP + 'Mapper.convert_to_map'])
    res = it.analyze(q)
    v = res.ret
    rm = calls_in(v, MAP + 'read_map')
    ok = bool(rm)
    if ok:
        g = rm[0][2][1]
        ok = g[0] == 'comp' and g[2][0] == 'attr' and g[2][2] == 'guess' and \
            g[3][0][1][0] == 'attr' and g[3][0][1][2] == 'parameters'
        ok = ok and bool(calls_in(rm[0][2][0], 'convert_to_map'))
        # ... on every path: the result is always the scatterer rebuilt from the
        # read map (derived priors made of constants only have no free parameter
        # but must still be collapsed to their value)
        sc_ = sym(fd.args.args[0].arg)
        ok = ok and len(res.returns) == 1 and v[0] == 'call' and \
            v[1] == ('attr', sc_, 'from_parameters') and tuple(v[2]) == (rm[0],) and \
            rm[0][2][0][0] == 'call' and len(rm[0][2][0][2]) >= 1 and \
            rm[0][2][0][2][-1] == ('attr', sc_, 'parameters') if rm[0][2][0][0] == 'call' \
            else False
    check.require(ok, 'G3-guesses-in-mapper-order', 'validate_scatterer',
                  "priors are replaced by their guess, in the mapper's parameter "
                  'order', prog.loc(q, fd), fail_detail='returns %s' % show(v)[:200])
    # scatterer/theory_from_parameters read the right map with listlike pars
    for m, key in (('_scatterer_from_parameters', 'scatterer'),
                   ('theory_from_parameters', 'theory')):
        q = MODEL + '.' + m
        fd = prog.func(q)
        it = Interp(prog, max_depth=1, opaque=[
            MAP + 'read_map', MODEL + '.ensure_parameters_are_listlike'])
        res = it.analyze(q)
        rm = calls_in(res.ret, MAP + 'read_map')
        ok = bool(rm) and rm[0][2][0] == ('idx', ('attr', selfs, '_maps'),
                                          ('const', key))
        check.require(ok, 'G3-right-map', 'Model.' + m,
                      "values are placed through self._maps['%s']" % key,
                      prog.loc(q, fd), fail_detail='returns %s' % show(res.ret)[:200])


# ----------------------------------------------------------------------
def has_copy(t, src):
    """a copy / deepcopy node on a path from `src` up to the root of t"""
    def contains(x, s):
        return any(y == s for y in subterms(x))
    for x in subterms(t):
        if x[0] == 'copy' and contains(x[2], src) and x[2] != src:
            return x
        if x[0] == 'copy' and x[2] == src:
            return x
        if x[0] == 'call' and isinstance(x[1], str) and x[1].endswith(
                ('copy', 'deepcopy')) and any(contains(a, src) for a in x[2]):
            return x
    return None


def rebuilding(check, prog):
    SC = SCATTERER
    q = SC + '.parameters'
    fd = prog.func(q)
    it = Interp(prog, max_depth=1, opaque=[SC + '._parameters'])
    res = it.analyze(q)
    v = res.ret
    check.require(v[0] == 'copy' and v[1] == 'deep', 'G4-parameters-deepcopy',
                  'Scatterer.parameters', 'returns a deep copy of the parameter dict',
                  prog.loc(q, fd), fail_detail='returns %s' % show(v)[:120])
    impls = []
    for cq in prog.subclasses(SC):
        c = prog.classes[cq]
        if 'from_parameters' in c.methods:
            impls.append(cq)
    check.floor('from_parameters implementations', len(impls), 3)
    for cq in impls:
        q = cq + '.from_parameters'
        fd = prog.func(q)
        loc = prog.loc(q, fd)
        short = cq.rpartition('.')[2]
        pname = fd.args.args[1].arg
        it = Interp(prog, max_depth=1, opaque=[SC + '._parameters', SC + '.parameters'])
        res = it.analyze(q)
        # purity: neither self nor the argument is mutated
        for e, st, rs in writes(it):
            r = {x for x in rs}
            if ('param', 'self') in r or ('param', pname) in r:
                check.bad('G4-from-parameters-pure', '%s.from_parameters' % short,
                          'mutates %s: %s at line %d' % (
                              'self' if ('param', 'self') in r else 'its argument',
                              e.get('target_src') or e.get('method'), e['lineno']), loc)
        # identity: values from the argument are not copied on the way
        v = res.ret
        src = sym(pname)
        cp = has_copy(v, src)
        if short == 'RigidCluster':
            # copy(parameters) copies the *dict* (shallow): values keep identity
            cp = cp if (cp is not None and cp[0] == 'copy' and cp[1] == 'deep') else None
        check.require(cp is None, 'G4-values-by-identity', '%s.from_parameters' % short,
                      'supplied values reach the constructor unchanged (same objects)',
                      loc, fail_detail='the supplied parameters pass through %s: every '
                      'rebuilt component gets its own copy of a shared prior, and ties '
                      '(found by identity) are lost, e.g. after Model reload' % (
                          show(cp)[:80] if cp else ''))
        check.ok('G4-from-parameters-pure', '%s.from_parameters' % short,
                 'no store through self or the argument', loc)
    # Scatterer.from_parameters: constructor of the same class, key by key
    q = SC + '.from_parameters'
    it = Interp(prog, max_depth=1, opaque=[SC + '._parameters', SC + '.parameters'])
    res = it.analyze(q)
    v = res.ret
    ok = v[0] == 'call' and v[1] == ('call', 'type', (sym('self'),), ()) and \
        any(k == '**' for k, _ in v[3])
    if ok:
        d = dict(v[3])['**']
        ok = d[0] == 'comp' and d[1] == 'dict'
        if ok:
            key, val = d[2][1]
            e = d[3][0][0]
            ok = key == e and val[0] == 'ite' and \
                val[2] == ('idx', sym('parameters'), e)
    check.require(ok, 'G4-scatterer-from-parameters', 'Scatterer.from_parameters',
                  'type(self)(**{key: parameters[key] if supplied else own value})',
                  prog.loc(q, prog.func(q)), fail_detail='returns %s' % show(v)[:200])
    # Scatterers.from_parameters: 'i:key' goes to member int(i) under key
    import string
    q = 'holopy.scattering.scatterer.composite.Scatterers.from_parameters'
    fd = prog.func(q)
    me = sym(fd.args.args[0].arg)
    newp = sym(fd.args.args[1].arg)
    members = intern(('attr', me, 'scatterers'))
    it = Interp(prog, max_depth=1,
                opaque=['holopy.core.holopy_object.HoloPyObject._iteritems'])
    res = it.analyze(q)
    st = [e for e in it.effects if e['kind'] == 'setitem' and e['base'][0] == 'idx' and
          e['base'][2][0] == 'call' and e['base'][2][1] == 'int']
    ok = len(st) == 1
    detail = '%d stores into a member\'s dictionary' % len(st)
    if ok:
        e = st[0]
        key, val, base = e['key'], e['value'], e['base']
        itm = [x for x in subterms(key) if x[0] == 'elem' and
               x[1] == ('call', ('attr', newp, 'items'), (), ())]
        ok = bool(itm)
        if ok:
            full = intern(('idx', itm[0], num(0)))
            parts = intern(('call', ('attr', full, 'split'), (('const', ':'), num(1)), ()))
            from .common import canon_cond
            conds = [(t, p) for t, p in canon_cond(e['cond']) if t[0] != 'loop-iter']
            ok = base[2][2] == (('idx', parts, num(0)),) and \
                key == ('idx', parts, num(1)) and val == ('idx', itm[0], num(1)) and \
                conds == [(('cmp', '==', ('call', 'len', (parts,), ()), num(2)), True)]
            detail = 'stores %s[%s] = %s under %s' % (
                show(base)[:80], show(key)[:60], show(val)[:40],
                [(show(t)[:60], p) for t, p in conds])
    check.require(ok, 'G4-composite-distribution', 'Scatterers.from_parameters',
                  "entry 'i:key' is handed to member int(i) under 'key' (split at the "
                  'first colon; entries without a colon are ignored)', prog.loc(q, fd),
                  fail_detail=detail)
    # ... every member is rebuilt from its own dictionary and the rebuilt list
    # replaces .scatterers in the constructor arguments
    v = res.ret
    ok = v[0] == 'call' and v[1] == ('call', 'type', (me,), ()) and \
        dict(v[3]).get('**') is not None
    detail = 'returns %s' % show(v)[:160]
    if ok:
        d = dict(v[3])['**']
        ok = d[0] == 'upd' and d[3] == ('const', 'scatterers') and \
            d[1] == ('call', 'dict', (('call', ('attr', me, '_iteritems'), (), ()),), ())
        if ok:
            lst = d[4]
            if lst[0] == 'call' and lst[1] == 'list' and len(lst[2]) == 1:
                lst = lst[2][0]
            ok = lst[0] == 'comp' and lst[2][0] == 'call' and len(lst[2][2]) == 1 and \
                lst[2][1][0] == 'attr' and lst[2][1][2] == 'from_parameters' and \
                lst[2][1][1][0] == 'elem' and lst[2][1][1][1] == members
            if ok:
                arg = lst[2][2][0]
                ok = arg[0] == 'elem' and arg[1][0] == 'loop' and \
                    arg[2] == lst[2][1][1][2]
                if ok:
                    init = arg[1][3]
                    if init[0] == 'call' and init[1] == 'list' and len(init[2]) == 1:
                        init = init[2][0]
                    ok = init[0] == 'comp' and init[2] == ('dict', ()) and \
                        init[3][0][1] == ('call', 'range', (
                            ('call', 'len', (members,), ()),), ())
            detail = 'rebuilt members are %s' % show(d[4])[:200]
    check.require(ok, 'G4-composite-rebuild', 'Scatterers.from_parameters',
                  'member i is rebuilt by its own from_parameters from dictionary i '
                  '(one per member) and the rebuilt list replaces .scatterers',
                  prog.loc(q, fd), fail_detail=detail)
    q2 = 'holopy.scattering.scatterer.composite.Scatterers._parameters'
    fd2 = prog.func(q2)
    it = Interp(prog, max_depth=1)
    res = it.analyze(q2)
    v = res.ret
    me2 = sym(fd2.args.args[0].arg)
    ok = v[0] == 'loop' and v[3] == ('dict', ()) and \
        v[5] == ('call', 'enumerate', (('attr', me2, 'scatterers'),), ())
    detail = 'returns %s' % show(v)[:200]
    if ok:
        step = v[4]
        ok = step[0] == 'mut' and step[2] == 'update' and step[1][0] == 'phi' and \
            len(step[3]) == 1
        if ok:
            cp = step[3][0]
            if cp[0] == 'call' and cp[1] == 'dict' and len(cp[2]) == 1:
                cp = cp[2][0]
            ok = cp[0] == 'comp' and len(cp[3]) == 1 and cp[2][0] == 'tuple'
            if ok:
                k, val = cp[2][1]
                e = cp[3][0][0]
                src = cp[3][0][1]
                member = [x for x in subterms(src) if x[0] == 'elem' and
                          x[1] == ('attr', me2, 'scatterers')]
                ok = bool(member) and src == (
                    'call', ('attr', ('attr', member[0], '_parameters'), 'items'), (), ())
                ok = ok and val == ('idx', e, num(1)) and k[0] == 'call' and \
                    isinstance(k[1], tuple) and k[1][2] == 'format' and \
                    k[1][1][0] == 'const'
                if ok:
                    # reconstruct the text the format call produces
                    outp = []
                    auto = 0
                    for lit, field, spec, conv in string.Formatter().parse(k[1][1][1]):
                        if lit:
                            outp.append(lit)
                        if field is not None:
                            if field == '':
                                field = str(auto)
                                auto += 1
                            outp.append(k[2][int(field)] if field.isdigit() and
                                        int(field) < len(k[2]) else None)
                    i_t = [x for x in subterms(k) if x[0] == 'idx' and x[2] == num(0)
                           and x[1][0] == 'elem' and x[1][1][0] == 'call' and
                           x[1][1][1] == 'enumerate']
                    ok = bool(i_t) and outp == [i_t[0], ':', intern(('idx', e, num(0)))]
                    detail = 'key is %s' % show(k)[:120]
    check.require(ok, 'G4-composite-distribution', 'Scatterers._parameters',
                  "every member i contributes all its parameters, key flattened to "
                  "'i:key', value unchanged", prog.loc(q2, fd2), fail_detail=detail)
    # RigidCluster: rotated then translated in both places
    RC = 'holopy.scattering.scatterer.spherecluster.RigidCluster'
    orders = {}
    for m in ('from_parameters', 'scatterers'):
        q = RC + '.' + m
        it = Interp(prog, max_depth=1)
        res = it.analyze(q)
        v = res.ret
        chain = []
        t = v
        while t[0] in ('call', 'attr'):
            if t[0] == 'attr':
                t = t[1]
                continue
            if isinstance(t[1], tuple) and t[1][0] == 'attr':
                chain.append(t[1][2])
                t = t[1][1]
            else:
                break
        orders[m] = [c for c in reversed(chain) if c in ('rotated', 'translated')]
    ok = orders['from_parameters'] == orders['scatterers'] == ['rotated', 'translated']
    check.require(ok, 'G4-rigid-cluster-order', 'RigidCluster',
                  'from_parameters and .scatterers both rotate, then translate',
                  prog.loc(RC, prog.classes[RC].node),
                  fail_detail='orders: %s' % orders)


# ----------------------------------------------------------------------
def renumbering(check, prog):
    q = MAP + 'edit_map_indices'
    fd = prog.func(q)
    loc = prog.loc(q, fd)
    it = Interp(prog, max_depth=1)
    res = it.analyze(q)
    ph = [o for o in res.returns if any(
        c[0] == 'call' and isinstance(c[1], tuple) and c[1][0] == 'attr' and
        c[1][2] == 'format' for c in subterms(o.value))]
    check.floor('placeholder path in edit_map_indices', len(ph), 1)
    for o in ph:
        fm = [c for c in subterms(o.value) if c[0] == 'call' and
              isinstance(c[1], tuple) and c[1][2] == 'format'][0]
        new = fm[2][0]
        # leaves of the index expression
        leaves = []

        def collect(t, conds):
            if t[0] == 'ite':
                collect(t[2], conds + [(t[1], True)])
                collect(t[3], conds + [(t[1], False)])
            else:
                leaves.append((t, conds))
        collect(new, [])
        ind = sym('indices')
        tied = [l for l, c in leaves if l == ('idx', ind, num(0))]
        check.require(bool(tied), 'G5-tied-to-first', 'edit_map_indices',
                      'a tied index is renumbered to the first tied index', loc)
        # the general leaf: must depend on an element-wise comparison of the
        # tied indices with the old index
        dep = False
        for l, c in leaves:
            for x in subterms(l):
                if x[0] == 'cmp' and x[1] in ('<', '<=', '>', '>=') and \
                        any(y == ind for y in subterms(x)):
                    dep = True
        check.require(dep, 'G5-shift-counts-preceding-ties', 'edit_map_indices',
                      'the new number of an untied index depends on how many tied '
                      'indices precede it', loc,
                      fail_detail='no branch of the renumbering %s compares the tied '
                      'indices with the old index element-wise: an index lying '
                      'between tied ones is shifted by a wrong amount' %
                      show(new)[:200])


# ----------------------------------------------------------------------
def _truth_table(value, classify):
    """Enumerate all assignments of the guard atoms of a nested conditional;
    yields (assignment dict, leaf).  `classify(atom)` names the atom or returns
    None for an atom the rule does not know (a free atom '?k': both of its values
    are enumerated and the oracle, which ignores it, must hold for both)."""
    atoms = guard_atoms(value)
    names = []
    for a in atoms:
        n = classify(a)
        if n is None and a[0] == 'cmp' and a[1] == '!=':
            n = classify(intern(('cmp', '==', a[2], a[3])))
            n = None if n is None else '!' + n
        if n is None:
            # a guard the documented behaviour does not mention: the row must come
            # out right whichever way it goes
            n = '?%d' % len(names)
        names.append(n)
    for vals in itertools.product((True, False), repeat=len(atoms)):
        asg = dict(zip(atoms, vals))
        named = {}
        consistent = True
        for a, n, v in zip(atoms, names, vals):
            if n.startswith('!'):
                n, v = n[1:], not v
            if n in named and named[n] != v:
                consistent = False
            named[n] = v
        if not consistent:
            continue
        leaf = select(value, lambda t: asg.get(t))
        yield named, leaf


def _is_prefix_test(a, entry):
    return a[0] == 'cmp' and a[1] == '==' and any(
        x[0] == 'idx' and x[1] == entry and x[2][0] == 'slice' for x in (a[2], a[3])) \
        and any(x[0] == 'const' and isinstance(x[1], str) for x in (a[2], a[3]))


def _isinstance_of(a, entry, tname):
    return a[0] == 'call' and a[1] == 'isinstance' and len(a[2]) == 2 and \
        a[2][0] == entry and a[2][1] in (('extref', 'builtins.' + tname),
                                          ('extref', tname), ('global', tname),
                                          ('classref', tname), ('builtin', tname)) or \
        (a[0] == 'call' and a[1] == 'isinstance' and len(a[2]) == 2 and
         a[2][0] == entry and show(a[2][1]) == tname)


def _recursion(leaf, fname, entry_seq, second):
    """leaf is [f(elem, second) for elem in entry_seq] (list / list-comp)"""
    t = leaf
    if t[0] == 'call' and t[1] == 'list' and len(t[2]) == 1:
        t = t[2][0]
    if t[0] != 'comp' or len(t[3]) != 1:
        return False
    target, itr = t[3][0][0], t[3][0][1]
    if itr != entry_seq or (len(t[3][0]) > 2 and t[3][0][2]):
        return False
    e = t[2]
    return e[0] == 'call' and e[1] == fname and len(e[2]) == 2 and \
        e[2][0] == target and e[2][1] == second and not e[3]


def reader_table(check, prog):
    q = MAP + 'read_map'
    fd = prog.func(q)
    loc = prog.loc(q, fd)
    it = Interp(prog, max_depth=0)
    res = it.analyze(q)
    entry, pv = [sym(a.arg) for a in fd.args.args[:2]]

    def classify(a):
        if _isinstance_of(a, entry, 'str'):
            return 'S'
        if _isinstance_of(a, entry, 'list'):
            return 'L'
        if _is_prefix_test(a, entry):
            return 'P'
        if a[0] == 'cmp' and a[1] == '==' and a[2] == ('call', 'len', (entry,), ()) and \
                is_num(a[3]):
            return 'N%d' % a[3][1]
        if a[0] == 'call' and a[1] == 'callable' and len(a[2]) == 1 and \
                a[2][0][0] == 'idx' and a[2][0][1] == entry and is_num(a[2][0][2]):
            return 'C' if a[2][0][2] == num(0) else 'C%d' % a[2][0][2][1]
        return None
    n = 0
    bad = []
    for named, leaf in _truth_table(res.ret, classify):
        S, L, P = named.get('S'), named.get('L'), named.get('P')
        if S and L:
            continue       # a value is not both a string and a list
        if P and not S:
            continue       # the prefix test is only evaluated on strings
        n += 1
        N2, C = named.get('N2'), named.get('C')
        if N2 is None or C is None or leaf is None:
            bad.append((named, 'guards %s do not decide the row' % sorted(named)))
            continue
        if S and P:
            want = 'value'
            ok = leaf[0] == 'idx' and leaf[1] == pv and leaf[2][0] == 'call' and \
                leaf[2][1] == 'int' and leaf[2][2][0][0] == 'idx' and \
                leaf[2][2][0][1] == entry and leaf[2][2][0][2][0] == 'slice'
        elif L and N2 and C:
            want = 'application'
            ok = leaf[0] == 'call' and leaf[1] == ('idx', entry, num(0)) and \
                len(leaf[2]) == 1 and leaf[2][0][0] == 'star' and not leaf[3] and \
                _recursion(leaf[2][0][1], q, intern(('idx', entry, num(1))), pv)
        elif L:
            want = 'element-wise'
            ok = _recursion(leaf, q, entry, pv)
        else:
            want = 'unchanged'
            ok = leaf == entry
        if not ok:
            bad.append((named, 'expected %s, found %s' % (want, show(leaf)[:120])))
    check.floor('rows of the read_map truth table', n, 12)
    check.require(not bad, 'G6-reader-table', 'read_map',
                  'placeholder -> indexed value; [callable, args] -> callable(*read '
                  'args); list -> element-wise; else unchanged (%d rows)' % n, loc,
                  fail_detail='; '.join('%s: %s' % (
                      ','.join('%s=%s' % (k, 'T' if v else 'F')
                               for k, v in sorted(nm.items())), w)
                      for nm, w in bad[:3]))


def editor_table(check, prog):
    q = MAP + 'edit_map_indices'
    fd = prog.func(q)
    loc = prog.loc(q, fd)
    it = Interp(prog, max_depth=0)
    res = it.analyze(q)
    entry, ind = [sym(a.arg) for a in fd.args.args[:2]]
    first = intern(('idx', ind, num(0)))
    olds = []

    def old_index(t):
        """int(<the whole remainder of the placeholder>)"""
        if t[0] == 'call' and t[1] == 'int' and len(t[2]) == 1:
            a = t[2][0]
            if a[0] == 'idx' and a[1] == entry and a[2][0] == 'slice':
                return True
            if a[0] == 'idx' and a[2] == num(-1) and a[1][0] == 'call' and \
                    a[1][1] == ('attr', entry, 'split'):
                return True
        return False

    def classify(a):
        if _isinstance_of(a, entry, 'str'):
            return 'S'
        if _isinstance_of(a, entry, 'list'):
            return 'L'
        if _is_prefix_test(a, entry):
            return 'P'
        if a[0] == 'cmp' and a[1] == 'in' and a[3] == ind and old_index(a[2]):
            olds.append(a[2])
            return 'IN'
        f = lt_form(a)
        # `<=` is the same test here: equality with the first tied index is the
        # tied case, which the IN rows cover
        if f and f[0] in ('<', '<=') and f[2] == first and old_index(f[1]):
            olds.append(f[1])
            return 'LT'
        return None
    n = 0
    bad = []
    c0 = Canon()
    for named, leaf in _truth_table(res.ret, classify):
        S, L, P = named.get('S'), named.get('L'), named.get('P')
        if (S and L) or (P and not S):
            continue
        if leaf is None:
            n += 1
            bad.append((named, 'guards %s do not decide the row' % sorted(named)))
            continue
        if L:
            n += 1
            if not _recursion(leaf, q, entry, ind):
                bad.append((named, 'expected element-wise, found %s' % show(leaf)[:160]))
            continue
        if not (S and P):
            n += 1
            if leaf != entry:
                bad.append((named, 'expected unchanged, found %s' % show(leaf)[:160]))
            continue
        # placeholder: '<prefix>{}'.format(new index); the new index is itself a
        # conditional over (old in tied) and (old < first tied)
        if not (leaf[0] == 'call' and isinstance(leaf[1], tuple) and
                leaf[1][0] == 'attr' and leaf[1][2] == 'format' and
                leaf[1][1][0] == 'const' and len(leaf[2]) == 1):
            n += 1
            bad.append((named, 'expected a renumbered placeholder, found %s'
                        % show(leaf)[:160]))
            continue
        for sub, new in _truth_table(leaf[2][0], classify):
            IN, LT = sub.get('IN'), sub.get('LT')
            if IN and LT:
                continue   # indices are sorted: a tied index is not below the first
            n += 1
            row = dict(named)
            row.update(sub)
            old = olds[0] if olds else None
            if new is None or old is None or IN is None or LT is None or \
                    any(o != old for o in olds):
                bad.append((row, 'the renumbering is not decided by (old in tied, '
                            'old < first tied)'))
                continue
            if IN:
                want, ok = 'first tied index', new == first
            elif LT:
                want, ok = 'unchanged index', new == old
            else:
                want = 'old - (#{tied < old} - 1)'
                cnt = [x for x in subterms(new) if x[0] == 'call' and (
                    (isinstance(x[1], tuple) and x[1][0] == 'attr' and
                     x[1][2] == 'sum' and not x[2]) or x[1] in ('numpy.sum', 'sum'))]
                ok = False
                for c in cnt:
                    arg = c[1][1] if isinstance(c[1], tuple) else c[2][0]
                    f = lt_form(arg)
                    if not (f and f[0] == '<' and f[2] == old and f[1] in (
                            ind, intern(('call', 'numpy.array', (ind,), ())),
                            intern(('call', 'numpy.asarray', (ind,), ())))):
                        continue
                    wantt = intern(('bin', '-', old, ('bin', '-', c, num(1))))
                    if c0.equal(new, wantt):
                        ok = True
            if not ok:
                bad.append((row, 'expected %s, found %s' % (want, show(new)[:160])))
    check.floor('rows of the edit_map_indices truth table', n, 6)
    check.require(not bad, 'G7-editor-table', 'edit_map_indices',
                  'list -> element-wise; placeholder -> tied: first tied index / below '
                  'the first: unchanged / else old - (#{tied < old} - 1); other -> '
                  'unchanged (%d rows)' % n, loc,
                  fail_detail='; '.join('%s: %s' % (
                      ','.join('%s=%s' % (k, 'T' if v else 'F')
                               for k, v in sorted(nm.items())), w)
                      for nm, w in bad[:3]))


def tie(check, prog):
    q = MODEL + '.add_tie'
    fd = prog.func(q)
    loc = prog.loc(q, fd)
    it = Interp(prog, max_depth=1, opaque=[MAP + 'edit_map_indices'])
    res = it.analyze(q)
    s = sym(fd.args.args[0].arg)
    names = intern(('attr', s, '_parameter_names'))
    pars = intern(('attr', s, '_parameters'))
    # "uniquely named parameters": a user-chosen name for the tied parameter is
    # compared with the names in use before anything is changed (the Mapper
    # de-duplicates at construction; add_tie has to refuse, or do the same)
    nn = [a.arg for a in fd.args.args if a.arg == 'new_name']
    if nn:
        NN = sym('new_name')
        guarded = any(
            any(x[0] == 'cmp' and x[1] in ('in', 'not in') and x[2] == NN
                for ct, pol in o.cond for x in subterms(ct))
            for o in res.raises) or any(
            c['name'].endswith('add_parameter') for c in it.calls)
        check.require(guarded, 'G8-tie-names-unique', 'Model.add_tie(new_name)',
                      'a new name that another parameter already carries is refused (or '
                      'de-duplicated)', loc,
                      fail_detail='new_name is stored without looking at the names in '
                      "use: add_tie(['0:n', '1:n'], new_name='0:r') leaves two parameters "
                      "called '0:r'; model.parameters then has one entry less than "
                      '_parameters, and values given by name and by position build '
                      'different scatterers')

    def is_sorted(t):
        return t[0] == 'mut' and t[2] == 'sort' and not t[3]
    # every use of the tied indices after collection is of the sorted list
    dels = [e for e in it.effects if e['kind'] == 'delete']
    ed = [c for c in it.calls if c['name'] == MAP + 'edit_map_indices']
    okd = len(dels) == 2 and {e['base'] for e in dels} == {names, pars}
    detail = 'deletes: %s' % [e.get('target_src') for e in dels]
    if okd:
        okd = all(e['target'][0] == 'idx' for e in dels)
        k0, k1 = (dels[0]['target'][2], dels[1]['target'][2]) if okd else (None, None)
        okd = okd and k0 == k1 and k0[0] == 'elem'
        if okd:
            itr = k0[1]
            base = itr
            desc = False
            if itr[0] == 'idx' and itr[2] == ('slice', NONE, num(0), num(-1)):
                base, desc = itr[1], True        # indices[:0:-1]
            elif itr[0] == 'call' and itr[1] == 'reversed' and itr[2][0][0] == 'idx' and \
                    itr[2][0][2] == ('slice', num(1), NONE, NONE):
                base, desc = itr[2][0][1], True  # reversed(indices[1:])
            okd = desc and is_sorted(base)
            detail = 'the deletion loop runs over %s' % show(itr)[:160]
    check.require(okd, 'G8-tie-removes-duplicates', 'Model.add_tie deletions',
                  'parameters and names at the tied indices except the first are '
                  'deleted, highest index first, from the sorted index list', loc,
                  fail_detail=detail + ': deleting in another order (or from an '
                  'unsorted list) removes the wrong parameters')
    oke = len(ed) == 1 and len(ed[0]['args']) == 2 and is_sorted(ed[0]['args'][1])
    st = [e for e in it.effects if e['kind'] == 'setattr' and e['attr'] == '_maps']
    if oke:
        oke = len(st) == 1 and any(x[0] == 'comp' for x in subterms(st[0]['value']))
        if oke:
            cp = [x for x in subterms(st[0]['value']) if x[0] == 'comp'][0]
            itm = cp[3][0][1]
            oke = itm == ('call', ('attr', ('attr', s, '_maps'), 'items'), (), ()) and \
                ed[0]['args'][0][0] in ('idx', 'elem')
    check.require(oke, 'G8-tie-rewrites-maps', 'Model.add_tie maps',
                  'every entry of _maps is rewritten by edit_map_indices with the '
                  'sorted tied indices', loc)
    nm = [e for e in it.effects if e['kind'] == 'setitem' and e['base'] == names or
          (e['kind'] == 'setitem' and e['base'][0] in ('mut', 'phi', 'loop', 'upd')
           and any(x == names for x in subterms(e['base'])))]
    okn = len(nm) == 1 and nm[0]['key'][0] == 'idx' and nm[0]['key'][2] == num(0) and \
        is_sorted(nm[0]['key'][1]) and nm[0]['value'] == sym('new_name')
    if okn:
        conds = [(t, pl) for t, pl in nm[0]['cond'] if t[0] != 'loop-iter' and not any(
            x[0] == 'cmp' and x[1] in ('in', 'not in') and x[2] == sym('new_name')
            for x in subterms(t))]
        okn = conds == [(('cmp', 'is not', sym('new_name'), NONE), True)] or \
            conds == [(('cmp', 'is', sym('new_name'), NONE), False)]
    # the sorted list is the list of positions of the named parameters
    srt = nm[0]['key'][1] if nm and nm[0]['key'][0] == 'idx' else None
    okc = False
    tied = sym(fd.args.args[1].arg)
    if srt is not None and is_sorted(srt) and srt[1][0] == 'loop':
        lp_ = srt[1]
        step = lp_[4]
        okc = lp_[3] == ('list', ()) and lp_[5] == tied and step[0] == 'mut' and \
            step[2] == 'append' and step[1][0] == 'phi' and len(step[3]) == 1 and \
            step[3][0] == ('call', ('attr', names, 'index'),
                           (('elem', tied, lp_[2]),), ())
    check.require(okc, 'G8-tie-collects-positions', 'Model.add_tie indices',
                  'the tied indices are the positions of the given names in '
                  '_parameter_names, one per name', loc,
                  fail_detail='indices are %s' % (show(srt)[:200] if srt else None))
    # the refusal of a new name that is already in use (checked above) is a third,
    # separate reason to raise; its negation then sits on every later path
    def about_new_name(t):
        return any(x[0] == 'cmp' and x[1] in ('in', 'not in') and x[2] == sym('new_name')
                   for x in subterms(t))
    collision = [o for o in res.raises if o.cond and about_new_name(o.cond[-1][0])
                 and o.cond[-1][1]]
    unknown = [o for o in res.raises if o not in collision and any(
        lt == ('cmp', 'not in', ('elem', tied, lt[2][2] if lt[2][0] == 'elem' else None),
               names) and pl
        for lt, pl in o.cond if lt[0] == 'cmp')]
    uneq = [o for o in res.raises if o not in unknown and o not in collision]
    oku = len(uneq) == 1
    if oku:
        cs = [(t, pl) for t, pl in uneq[0].cond if t[0] != 'loop-iter' and
              not (t[0] == 'cmp' and t[1] == 'not in') and not about_new_name(t)]
        oku = len(cs) == 1 and cs[0][0][0] == 'cmp' and (
            (cs[0][0][1] == '==' and cs[0][1] is False) or
            (cs[0][0][1] == '!=' and cs[0][1] is True)) and \
            all(any(x[0] == 'attr' and x[2] == 'renamed' for x in subterms(side))
                for side in (cs[0][0][2], cs[0][0][3]))
    check.require(oku, 'G8-tie-rejects-unequal', 'Model.add_tie',
                  'parameters are rejected iff their priors (names removed) differ '
                  'from the first one', loc,
                  fail_detail='raising paths: %s' % [
                      [(show(t)[:80], pl) for t, pl in o.cond if t[0] != 'loop-iter']
                      for o in uneq])
    check.require(len(unknown) == 1, 'G8-tie-rejects-unknown', 'Model.add_tie',
                  'a name that is not a parameter is rejected (and only then)', loc,
                  fail_detail='raising paths: %s' % [
                      [(show(t)[:60], pl) for t, pl in o.cond if t[0] != 'loop-iter']
                      for o in res.raises])
    check.require(okn, 'G8-tie-names-first', 'Model.add_tie new name',
                  'the new name is stored at the first tied index', loc,
                  fail_detail='stores: %s' % [(show(e['key'])[:80], show(e['value'])[:40])
                                              for e in nm])


# ----------------------------------------------------------------------
def writer_table(check, prog):
    M = MAP + 'Mapper.'
    helpers = ['iterate_mapping', 'map_dictionary', 'map_xarray',
               'map_transformed_prior', 'get_parameter_index']
    q = M + 'convert_to_map'
    fd = prog.func(q)
    loc = prog.loc(q, fd)
    it = Interp(prog, max_depth=1, opaque=[M + h for h in helpers])
    res = it.analyze(q)
    s_, par, name = [sym(a.arg) for a in fd.args.args[:3]]
    PRIOR = 'holopy.core.prior.Prior'
    TPRIOR = 'holopy.core.prior.TransformedPrior'

    def classify(a):
        if not (a[0] == 'call' and a[1] == 'isinstance' and len(a[2]) == 2 and
                a[2][0] == par):
            return None
        c = a[2][1]
        if c[0] == 'tuple':
            names = {show(x) for x in c[1]}
            if names == {'list', 'tuple', 'numpy.ndarray'}:
                return 'SEQ'
            return None
        if c == ('extref', 'dict'):
            return 'DICT'
        if c == ('extref', 'xarray.DataArray'):
            return 'XR'
        if c == ('classref', TPRIOR):
            return 'TP'
        if c == ('classref', PRIOR):
            return 'PR'
        return None

    def mcall(leaf, m, args):
        return leaf[0] == 'call' and leaf[1] == ('attr', s_, m) and \
            tuple(leaf[2]) == tuple(args) and not leaf[3]
    n = 0
    bad = []
    for named, leaf in _truth_table(res.ret, classify):
        if any(k not in named for k in ('SEQ', 'DICT', 'XR', 'TP', 'PR')):
            raise AnalysisError('convert_to_map does not test %s' % sorted(
                set(('SEQ', 'DICT', 'XR', 'TP', 'PR')) - set(named)))
        if named['TP'] and not named['PR']:
            continue           # a TransformedPrior is a Prior
        fam = [named['SEQ'], named['DICT'], named['XR'], named['PR']]
        if sum(1 for x in fam if x) > 1:
            continue           # unrelated classes
        n += 1
        if leaf is None:
            bad.append((named, 'row not decided'))
            continue
        if named['SEQ']:
            want = 'iterate_mapping(<name>, enumerate(value))'
            ok = leaf[0] == 'call' and leaf[1] == ('attr', s_, 'iterate_mapping') and \
                len(leaf[2]) == 2 and leaf[2][1] == ('call', 'enumerate', (par,), ()) \
                and any(x == name for x in subterms(leaf[2][0]))
        elif named['DICT']:
            want = 'map_dictionary(value, name)'
            ok = mcall(leaf, 'map_dictionary', (par, name))
        elif named['XR']:
            want = 'map_xarray(value, name)'
            ok = mcall(leaf, 'map_xarray', (par, name))
        elif named['TP']:
            want = 'map_transformed_prior(value, name)'
            ok = mcall(leaf, 'map_transformed_prior', (par, name))
        elif named['PR']:
            want = 'placeholder of get_parameter_index(value, name)'
            ok = leaf[0] == 'call' and isinstance(leaf[1], tuple) and \
                leaf[1][0] == 'attr' and leaf[1][2] == 'format' and len(leaf[2]) == 1 \
                and mcall(leaf[2][0], 'get_parameter_index', (par, name))
        else:
            want = 'the fixed value itself'
            ok = leaf == par
        if not ok:
            bad.append((named, 'expected %s, found %s' % (want, show(leaf)[:120])))
    check.floor('rows of the convert_to_map truth table', n, 6)
    check.require(not bad, 'G9-writer-table', 'Mapper.convert_to_map',
                  'sequence / dict / labelled array / derived prior / prior / fixed '
                  'value each go to their own mapper (%d rows)' % n, loc,
                  fail_detail='; '.join('%s: %s' % (
                      ','.join(k for k, v in sorted(nm.items()) if v) or 'none', w)
                      for nm, w in bad[:3]))
    # iterate_mapping: every pair, in order, value = second element
    q = M + 'iterate_mapping'
    fd = prog.func(q)
    it = Interp(prog, max_depth=1, opaque=[M + 'convert_to_map'])
    res = it.analyze(q)
    v = res.ret
    if v[0] == 'call' and v[1] == 'list' and len(v[2]) == 1:
        v = v[2][0]
    pairs = sym(fd.args.args[2].arg)
    prefix = sym(fd.args.args[1].arg)
    ok = v[0] == 'comp' and len(v[3]) == 1 and v[3][0][1] == pairs
    if ok:
        e = v[3][0][0]
        c = v[2]
        ok = c[0] == 'call' and c[1] == ('attr', sym(fd.args.args[0].arg),
                                         'convert_to_map') and len(c[2]) == 2 and \
            c[2][0] == ('idx', e, num(1)) and \
            any(x == prefix for x in subterms(c[2][1])) and \
            any(x == ('idx', e, num(0)) for x in subterms(c[2][1]))
    check.require(ok, 'G9-writer-iterates', 'Mapper.iterate_mapping',
                  'every (suffix, value) pair is mapped, in order, under the name '
                  'prefix + suffix', prog.loc(q, fd),
                  fail_detail='builds %s' % show(res.ret)[:200])
    # map_dictionary: keys paired with their own mapped values; only None dropped
    q = M + 'map_dictionary'
    fd = prog.func(q)
    it = Interp(prog, max_depth=1, opaque=[M + 'iterate_mapping'])
    res = it.analyze(q)
    v = res.ret
    p = sym(fd.args.args[1].arg)
    ok = v[0] == 'list' and len(v[1]) == 2 and v[1][1][0] == 'list' and \
        len(v[1][1][1]) == 1
    detail = 'emits %s' % show(v)[:200]
    if ok:
        body = v[1][1][1][0]
        if body[0] == 'call' and body[1] == 'list' and len(body[2]) == 1:
            body = body[2][0]
        ok = body[0] == 'comp' and len(body[3]) == 1
        if ok:
            gen = body[3][0]
            itr = gen[1]
            keys = intern(('call', ('attr', p, 'keys'), (), ()))
            items = intern(('call', ('attr', p, 'items'), (), ()))
            okz = itr[0] == 'call' and itr[1] == 'zip' and len(itr[2]) == 2 and \
                itr[2][0] in (keys, p) and itr[2][1][0] == 'call' and \
                itr[2][1][1] == ('attr', sym(fd.args.args[0].arg), 'iterate_mapping') \
                and itr[2][1][2][1] == items
            elt = body[2]
            oke = elt[0] == 'list' and len(elt[1]) == 2 and \
                elt[1][0] == ('elem', itr[2][0], gen[0][2]) if okz and gen[0][0] == 'elem' \
                else False
            conds = gen[2] if len(gen) > 2 else ()
            okf = len(conds) == 1 and conds[0][0] == 'cmp' and conds[0][1] == 'is not' \
                and conds[0][3] == NONE and oke and conds[0][2] == elt[1][1]
            ok = okz and oke and okf
            detail = 'pairs %s filtered by %s' % (show(itr)[:120],
                                                  [show(c)[:60] for c in conds])
    check.require(ok, 'G9-writer-dictionary', 'Mapper.map_dictionary',
                  '[dict, [[key, mapped value] ...]] with keys and values from the same '
                  'dictionary order; only None values are dropped', prog.loc(q, fd),
                  fail_detail=detail + ': a fixed value such as 0 or False would be '
                  'dropped or paired with the wrong key')
    # get_parameter_index
    q = M + 'get_parameter_index'
    fd = prog.func(q)
    it = Interp(prog, max_depth=1, opaque=[M + 'check_for_ties', M + 'add_parameter'])
    res = it.analyze(q)
    me = sym(fd.args.args[0].arg)
    p, nm = sym(fd.args.args[1].arg), sym(fd.args.args[2].arg)
    tie_ = intern(('call', ('attr', me, 'check_for_ties'), (p,), ()))
    fresh = intern(('call', 'len', (('attr', me, 'parameters'),), ()))
    notie = intern(('cmp', 'is', tie_, NONE))
    v = res.ret
    okv = v == ('ite', notie, fresh, tie_)
    adds = [c for c in it.calls if c['name'] == M + 'add_parameter']
    oka = len(adds) == 1 and tuple(adds[0]['args'][-2:]) == (p, nm) and \
        [(t, pl) for t, pl in adds[0]['cond'] if t[0] != 'loop-iter'] == [(notie, True)]
    check.require(okv and oka, 'G9-writer-index', 'Mapper.get_parameter_index',
                  'a tied prior gets the index it already has; a new prior gets '
                  'len(parameters) and is appended (only then)', prog.loc(q, fd),
                  fail_detail='returns %s; add_parameter calls under %s' % (
                      show(v)[:160], [[(show(t)[:60], pl) for t, pl in c['cond']]
                                      for c in adds]))


def xarray_map(check, prog):
    """G10: a labelled-array parameter keeps each value with its own label.

    map_xarray writes [make_xarray, [dim, keys, values_map]]; the reader rebuilds
    DataArray(values, coords=[keys]).  The i-th mapped value must therefore belong
    to the i-th key: either the values are selected *by key* (any key order), or
    they are taken in the array's storage order and the keys are the array's own
    coordinate labels in that same order."""
    from hpstatic.logic import resolve
    q = MAP + 'Mapper.map_xarray'
    fd = prog.func(q)
    loc = prog.loc(q, fd)
    it = Interp(prog, max_depth=1, opaque=[MAP + 'Mapper.iterate_mapping'])
    v = it.analyze(q).ret
    me, par, name = [sym(a.arg) for a in fd.args.args[:3]]
    dim = intern(('idx', ('attr', par, 'dims'), num(0)))
    ok = v[0] == 'list' and len(v[1]) == 2 and \
        v[1][0] == ('funcref', MAP + 'make_xarray') and v[1][1][0] == 'list' and \
        len(v[1][1][1]) == 3 and v[1][1][1][0] == dim
    check.require(ok, 'G10-xarray-map-aligned', 'Mapper.map_xarray',
                  'writes [make_xarray, [first dimension, keys, mapped values]]', loc,
                  fail_detail='returns %s' % show(v)[:160])
    if not ok:
        return
    K, Mv = v[1][1][1][1], v[1][1][1][2]
    coordv = [intern(('attr', ('idx', ('attr', par, 'coords'), dim), 'values')),
              intern(('attr', ('idx', par, dim), 'values'))]
    own_order = [intern(('call', ('attr', c, 'tolist'), (), ())) for c in coordv] + \
        [intern(('call', 'list', (c,), ())) for c in coordv]
    ok = Mv[0] == 'call' and Mv[1] == ('attr', me, 'iterate_mapping') and \
        len(Mv[2]) == 2 and Mv[2][1][0] == 'call' and Mv[2][1][1] == 'zip' and \
        len(Mv[2][1][2]) == 2 and Mv[2][1][2][0] == K and \
        Mv[2][0] == ('bin', '+', name, ('const', '.'))
    check.require(ok, 'G10-xarray-map-aligned', 'Mapper.map_xarray mapped values',
                  'the values are mapped pairwise with the keys that are written, under '
                  'names "<name>.<key>"', loc, fail_detail='values map: %s' % show(Mv)[:200])
    if not ok:
        return
    V = Mv[2][1][2][1]
    one = intern(('cmp', '==', ('call', 'len', (('attr', par, 'dims'),), ()), num(1)))
    bad = []
    for flat in (True, False):
        val = resolve(V, lambda t: flat if t == one else None)
        if any(x[0] == 'ite' for x in subterms(val)):
            bad.append('undecided for %s' % ('1-d' if flat else 'n-d'))
            continue
        by_key = val[0] == 'comp' and val[1] == 'list' and len(val[3]) == 1 and \
            val[3][0][1] == K and not val[3][0][2]
        if by_key:
            e = val[3][0][0]
            sel = val[2]
            want = intern(('dict', ((dim, e),)))
            by_key = (sel[0] == 'idx' and sel[1] == ('attr', par, 'loc') and sel[2] == want) \
                or (sel[0] == 'call' and sel[1] == ('attr', par, 'sel') and
                    sel[2] == (want,) and not sel[3])
        storage = val in (intern(('attr', par, 'values')),
                          intern(('call', 'list', (('attr', par, 'values'),), ())),
                          intern(('call', 'list', (par,), ())))
        if not (by_key or (storage and flat and K in own_order)):
            bad.append('%s array: values %s with keys %s' % (
                '1-d' if flat else 'n-d', show(val)[:80], show(K)[:80]))
    check.require(not bad, 'G10-xarray-map-aligned', 'Mapper.map_xarray pairing',
                  'value i belongs to key i: selected by key, or storage order with the '
                  "array's own labels in storage order", loc, fail_detail='; '.join(bad))
    # the reader's constructor keeps the pairing
    q2 = MAP + 'make_xarray'
    fd2 = prog.func(q2)
    it2 = Interp(prog, max_depth=1)
    r = it2.analyze(q2).ret
    dn, ks, vs = [sym(a.arg) for a in fd2.args.args[:3]]
    good = True
    leaves = []

    def walk(t):
        if t[0] == 'ite':
            walk(t[2]); walk(t[3])
        else:
            leaves.append(t)
    walk(r)
    for leaf in leaves:
        if leaf[0] == 'call' and leaf[1] == 'xarray.concat':
            d = dict(leaf[3]).get('dim', leaf[2][1] if len(leaf[2]) > 1 else None)
            good &= leaf[2][0] == vs and d is not None and d[0] == 'call' and \
                d[1] == 'xarray.DataArray' and d[2] and d[2][0] == ks
        elif leaf[0] == 'call' and leaf[1] == 'xarray.DataArray':
            k = dict(leaf[3])
            co = k.get('coords', leaf[2][1] if len(leaf[2]) > 1 else None)
            data = leaf[2][0]
            while data[0] == 'call' and data[1] in ('numpy.array', 'numpy.asarray') and data[2]:
                data = data[2][0]
            good &= data == vs and co is not None and (
                co == ('list', (ks,)) or co == ('dict', ((dn, ks),)))
        else:
            good = False
    check.require(good and leaves, 'G10-xarray-map-aligned', 'make_xarray',
                  'rebuilds the array from the values with the keys as the labels of the '
                  'new dimension, in the same order', prog.loc(q2, fd2),
                  fail_detail='returns %s' % show(r)[:200])


def template_class(check, prog):
    """G11: from_parameters returns an object of the receiver's own class.

    A Model does not keep the user's scatterer but `scatterer.from_parameters(<zeros>)`
    as a template, and builds every later scatterer with
    `template.from_parameters(values)`.  If from_parameters of some class returns an
    object of *another* class, the template is of that other class and its
    from_parameters knows nothing of the first class's own parameters: their values
    are mapped, named, given priors -- and then ignored."""
    bad = []
    n = 0
    for C in sorted(prog.subclasses(SCATTERER)):
        hit = prog.lookup(C, 'from_parameters')
        if not hit or hit[0] != 'method':
            continue
        q = hit[1] + '.from_parameters'
        fd = prog.func(q)
        me = sym(fd.args.args[0].arg)
        it = Interp(prog, max_depth=0, inline_new=False)
        it.types[me] = C
        try:
            res = it.analyze(q)
        except AnalysisError:
            continue
        n += 1
        for o in res.returns:
            v = o.value
            own = False
            if v[0] == 'call' and v[1] in (('call', 'type', (me,), ()),
                                           ('attr', me, '__class__')):
                own = True
            if v[0] == 'new' and v[1] == C:
                own = True
            if not own:
                bad.append((C.rpartition('.')[2], prog.loc(q, fd), show(v)[:90]))
    check.floor('scatterer classes whose from_parameters was evaluated', n, 12)
    for cname, where, val in bad:
        check.bad('G11-template-keeps-class', '%s.from_parameters' % cname,
                  'returns %s -- not a %s: a Model built on a %s keeps that object as its '
                  'template, so the values of the %s\'s own parameters (which the model '
                  'lists, names and samples) never reach the scatterer' % (
                      val, cname, cname, cname),
                  where)
    if not bad:
        check.ok('G11-template-keeps-class', 'from_parameters of %d classes' % n,
                 'every from_parameters constructs type(self)', '')
