"""C11  Model parameters map to exactly the places their priors were used.

Decides from the source:
  G1  map grammar: writer (Mapper), reader (read_map) and editor
      (edit_map_indices) agree on the placeholder: one prefix literal, the
      prefix test slices exactly len(prefix) characters, the index is the
      *whole* remainder of the string; every node kind the writer produces has
      a reader and an editor branch;
  G2  the parallel lists stay in lock-step: every block that mutates the
      parameter list mutates the name list with the same operation and index;
      every name stored is guarded by a uniqueness test; ties are found by
      identity (`is`), not equality;
  G3  name-keyed == list-ordered: ensure_parameters_are_listlike orders by
      _parameter_names; parameters / initial_guess zip names with priors /
      guesses; validate_scatterer feeds each prior's guess in mapper order;
  G4  rebuilding: Scatterer.parameters is a deep copy; every from_parameters
      passes the supplied values through unchanged (by identity -- ties are
      found by identity after a reload) and mutates neither self nor its
      argument; Scatterers distributes 'i:key' entries to member i;
      RigidCluster.from_parameters and .scatterers apply rotated then translated;
  G5  the editor's renumbering of an untied index depends on how many tied
      indices precede it (necessary condition of "removes exactly the
      duplicates").
Not decided: the renumbering arithmetic itself, name de-duplication suffixes.
"""
import ast

from hpstatic.effects import writes, roots
from hpstatic.interp import Interp
from hpstatic.loader import AnalysisError
from hpstatic.terms import (sym, intern, show, subterms, calls_in, NONE, num, kw,
                            atoms_of, is_num)
from .common import SCATTERER

MUTATION_TARGETS = {'holopy/core/mapping.py': ['read_map', 'edit_map_indices', 'convert_to_map', 'get_parameter_index', 'check_for_ties', 'add_parameter', 'map_dictionary', 'map_transformed_prior'], 'holopy/inference/model.py': ['add_tie', 'ensure_parameters_are_listlike', 'parameters', 'initial_guess', '_scatterer_from_parameters', 'theory_from_parameters'], 'holopy/scattering/scatterer/scatterer.py': ['from_parameters', 'parameters'], 'holopy/scattering/scatterer/composite.py': ['from_parameters', '_parameters'], 'holopy/scattering/scatterer/spherecluster.py': ['from_parameters', 'scatterers']}

LEVEL = 'other'
META = dict(
    claimed=True,
    technique='writer/reader/editor table agreement on the map grammar; effect '
              'analysis of the parallel parameter lists; def-use (dependence) '
              'checks of name-keyed vs list-ordered access; identity-preserving '
              'flow of parameter values through every from_parameters',
    level_text='Static: decides the structural clauses G1-G5 for every map the '
               'writer can produce (the grammar is finite) and every from_parameters '
               'implementation in the package.  These are the conditions under '
               'which "each value lands at every place its prior was used" can '
               'hold; the combinatorics of tie renumbering beyond the dependence '
               'fact G5 is not decided.',
    level_note='Trusted: my term extraction for the mapping functions; '
               'copy/deepcopy create new objects; list.append / del semantics.',
)

MAP = 'holopy.core.mapping.'
MODEL = 'holopy.inference.model.Model'


def run(check, prog):
    check.explanation = (
        'read_map / edit_map_indices / Mapper are evaluated into terms; their '
        'branch conditions and slices are compared as tables; list mutations are '
        'collected by the effect analysis; from_parameters implementations are '
        'checked for identity-preserving flow.')
    check.trusted += ['copy/deepcopy/list semantics']
    grammar(check, prog)
    lockstep(check, prog)
    ordering(check, prog)
    rebuilding(check, prog)
    renumbering(check, prog)
    # "applies the transformations": a derived prior must denote the arithmetic
    # that was written (shared rule with C14)
    from . import c14
    from hpstatic.poly import Canon
    c14.r6_arithmetic(check, prog, Canon())


# ----------------------------------------------------------------------
def prefix_tests(res):
    """[(K, literal)] for every `entry[:K] == literal` test on the paths"""
    out = []
    seen = set()
    for o in res.outcomes:
        for t, pol in o.cond:
            for x in subterms(t):
                if x[0] == 'cmp' and x[1] == '==' and x[2][0] == 'idx' and \
                        x[2][2][0] == 'slice' and x[3][0] == 'const' and \
                        isinstance(x[3][1], str) and id(x) not in seen:
                    seen.add(id(x))
                    sl = x[2][2]
                    out.append((sl, x[3][1]))
    return out


def grammar(check, prog):
    q = MAP + 'read_map'
    fd = prog.func(q)
    loc = prog.loc(q, fd)
    it = Interp(prog, max_depth=1)
    res = it.analyze(q)
    tests = prefix_tests(res)
    prefixes = set()
    for sl, lit in tests:
        prefixes.add(lit)
        ok = sl[1] == NONE and sl[3] == NONE and is_num(sl[2]) and \
            int(sl[2][1]) == len(lit)
        check.require(ok, 'G1-prefix-test', 'read_map',
                      'placeholder test slices exactly len(%r) = %d characters' % (
                          lit, len(lit)), loc,
                      fail_detail='tests entry[%s] == %r' % (show(sl), lit))
    check.floor('placeholder tests in read_map', len(tests), 1)
    # the index is the whole remainder
    ph = [o for o in res.returns if o.value[0] == 'idx' and
          o.value[1] == sym('parameter_values')]
    check.floor('placeholder-returning paths in read_map', len(ph), 1)
    for o in ph:
        key = o.value[2]
        ok = key[0] == 'call' and key[1] == 'int' and key[2] and \
            key[2][0][0] == 'idx' and key[2][0][1] == sym('map_entry') and \
            key[2][0][2][0] == 'slice'
        if ok:
            sl = key[2][0][2]
            lit = tests[0][1] if tests else ''
            ok = is_num(sl[1]) and int(sl[1][1]) == len(lit) and sl[2] == NONE \
                and sl[3] == NONE
        check.require(ok, 'G1-index-is-remainder', 'read_map',
                      'parameter index = int(entry[len(prefix):]) -- every digit', loc,
                      fail_detail='index is %s: placeholders with more than one digit '
                      '(models with more than 10 parameters) resolve to the wrong '
                      'parameter' % show(key))
    # reader branches: callable-list, list, passthrough
    kinds = set()
    for o in res.returns:
        v = o.value
        if v == sym('map_entry'):
            kinds.add('leaf')
        elif v[0] == 'call' and v[1] == ('idx', sym('map_entry'), num(0)):
            kinds.add('call')
            rec = calls_in(v, MAP + 'read_map')
            okr = bool(rec) and v[2] and v[2][0][0] == 'star'
            check.require(okr, 'G1-reader-branches', 'read_map [func, args]',
                          'func(*[read_map(arg) for arg in args])', loc)
        elif calls_in(v, MAP + 'read_map'):
            kinds.add('list')
    check.require({'leaf', 'call', 'list'} <= kinds and ph, 'G1-reader-branches',
                  'read_map',
                  'branches for placeholder, [callable, args], list, and leaf', loc,
                  fail_detail='reader handles only %s' % sorted(kinds))
    # editor
    q2 = MAP + 'edit_map_indices'
    fd2 = prog.func(q2)
    loc2 = prog.loc(q2, fd2)
    it2 = Interp(prog, max_depth=1)
    res2 = it2.analyze(q2)
    tests2 = prefix_tests(res2)
    for sl, lit in tests2:
        prefixes.add(lit)
        ok = sl[1] == NONE and sl[3] == NONE and is_num(sl[2]) and \
            int(sl[2][1]) == len(lit)
        check.require(ok, 'G1-prefix-test', 'edit_map_indices',
                      'placeholder test slices exactly len(prefix) characters', loc2,
                      fail_detail='tests entry[%s] == %r' % (show(sl), lit))
    check.floor('placeholder tests in edit_map_indices', len(tests2), 1)
    fmts = set()
    for o in res2.returns:
        for c in subterms(o.value):
            if c[0] == 'call' and isinstance(c[1], tuple) and c[1][0] == 'attr' and \
                    c[1][2] == 'format' and c[1][1][0] == 'const':
                fmts.add(c[1][1][1])
    ekinds = set()
    for o in res2.returns:
        v = o.value
        if v == sym('map_entry'):
            ekinds.add('leaf')
        elif calls_in(v, MAP + 'edit_map_indices'):
            ekinds.add('list')
        elif fmts and any(c[0] == 'call' for c in subterms(v)):
            ekinds.add('placeholder')
    check.require({'leaf', 'list', 'placeholder'} <= ekinds, 'G1-editor-branches',
                  'edit_map_indices', 'branches for list, placeholder and leaf', loc2,
                  fail_detail='editor handles only %s' % sorted(ekinds))
    # writer
    q3 = MAP + 'Mapper.convert_to_map'
    fd3 = prog.func(q3)
    loc3 = prog.loc(q3, fd3)
    it3 = Interp(prog, max_depth=1, opaque=[
        MAP + 'Mapper.iterate_mapping', MAP + 'Mapper.map_dictionary',
        MAP + 'Mapper.map_xarray', MAP + 'Mapper.map_transformed_prior',
        MAP + 'Mapper.get_parameter_index'])
    res3 = it3.analyze(q3)
    for o in res3.returns:
        for c in subterms(o.value):
            if c[0] == 'call' and isinstance(c[1], tuple) and c[1][0] == 'attr' and \
                    c[1][2] == 'format' and c[1][1][0] == 'const':
                fmts.add(c[1][1][1])
                idx = c[2][0] if c[2] else None
                okw = idx is not None and bool(calls_in(idx, 'get_parameter_index'))
                check.require(okw, 'G1-writer-index', 'Mapper.convert_to_map',
                              'placeholder carries the index returned by '
                              'get_parameter_index', loc3)
    stems = {f.replace('{}', '').replace('{0}', '') for f in fmts}
    allp = prefixes | stems
    check.require(len(allp) == 1 and len(fmts) >= 1, 'G1-one-prefix',
                  'placeholder prefix',
                  'writer, reader and editor use the single prefix %r' % (
                      sorted(allp)[0] if allp else None), loc,
                  fail_detail='prefixes in use: reader/editor tests %s, writer/editor '
                  'formats %s' % (sorted(prefixes), sorted(fmts)))
    # writer node kinds: [callable, [args]] with module-level callables
    for mname, want in (('map_dictionary', 'dict'), ('map_xarray', MAP + 'make_xarray'),
                        ('map_transformed_prior', MAP + 'transformed_prior')):
        qm = MAP + 'Mapper.' + mname
        itm = Interp(prog, max_depth=1, opaque=[MAP + 'Mapper.iterate_mapping'])
        rm = itm.analyze(qm)
        v = rm.ret
        ok = v[0] == 'list' and len(v[1]) == 2 and v[1][1][0] == 'list' and (
            v[1][0] == ('extref', want) or v[1][0] == ('funcref', want))
        check.require(ok, 'G1-writer-kinds', 'Mapper.' + mname,
                      'emits [callable, [args]] with callable %s' % want.rpartition('.')[2],
                      prog.loc(qm, prog.func(qm)),
                      fail_detail='emits %s' % show(v)[:160])


# ----------------------------------------------------------------------
def lockstep(check, prog):
    pairs = [(MAP + 'Mapper.add_parameter', 'parameters', 'parameter_names'),
             (MODEL + '.add_tie', '_parameters', '_parameter_names')]
    for q, pa, na in pairs:
        fd = prog.func(q)
        loc = prog.loc(q, fd)
        it = Interp(prog, max_depth=1)
        res = it.analyze(q)
        ops = {pa: [], na: []}
        for e in it.effects:
            tgt = None
            if e['kind'] == 'mutcall':
                tgt, op, arg = e['base'], e['method'], None
            elif e['kind'] == 'delete':
                t = e['target']
                if t[0] == 'idx':
                    tgt, op, arg = t[1], 'del', t[2]
            elif e['kind'] == 'setitem':
                tgt, op, arg = e['base'], 'setitem', e['key']
            if tgt is None or tgt[0] != 'attr' or tgt[2] not in ops:
                continue
            ops[tgt[2]].append((op, arg, tuple(e['cond'])))
        short = q.rpartition('.')[2]
        structural = [(o, a) for o, a, c in ops[pa] if o in ('append', 'del', 'pop',
                                                              'insert', 'remove')]
        structural_n = [(o, a) for o, a, c in ops[na] if o in ('append', 'del', 'pop',
                                                                'insert', 'remove')]
        check.floor('list mutations in %s' % short, len(structural), 1)
        same = [o for o, a in structural] == [o for o, a in structural_n] and all(
            (a1 is None) == (a2 is None) and (a1 is None or a1 == a2)
            for (o1, a1), (o2, a2) in zip(structural, structural_n))
        check.require(same, 'G2-lockstep', short,
                      '%s and %s are changed by the same operations at the same '
                      'positions: %s' % (pa, na, [o for o, a in structural]), loc,
                      fail_detail='%s: %s but %s: %s' % (
                          pa, [(o, show(a) if a else None) for o, a in structural],
                          na, [(o, show(a) if a else None) for o, a in structural_n]))
        conds_p = [c for o, a, c in ops[pa] if o in ('append', 'del')]
        conds_n = [c for o, a, c in ops[na] if o in ('append', 'del')]
        check.require(conds_p == conds_n, 'G2-lockstep', short + ' conditions',
                      'both lists are changed under the same conditions', loc)
    # every name written is unique
    q = MAP + 'Mapper.get_parameter_index'
    fd = prog.func(q)
    loc = prog.loc(q, fd)
    it = Interp(prog, max_depth=2, opaque=[MAP + 'Mapper.check_for_ties'])
    res = it.analyze(q)
    names = intern(('attr', sym('self'), 'parameter_names'))
    nstores = 0
    for e in it.effects:
        val = None
        if e['kind'] == 'mutcall' and e['base'] == names and e['method'] == 'append':
            val = e['args'][0]
        elif e['kind'] == 'setitem' and e['base'] == names:
            val = e['value']
        if val is None:
            continue
        nstores += 1
        guarded = False
        for t, pol in e['cond']:
            for x in subterms(t):
                if x[0] == 'cmp' and x[1] in ('not in', 'in') and x[2] == val and \
                        x[3] == names:
                    # polarity: need "val not in names" to hold
                    holds = (x[1] == 'not in') == pol if x is t else None
                    if holds is None:
                        # inside a conjunction that is required True
                        holds = pol and x[1] == 'not in' and t[0] == 'bool' and \
                            t[1] == 'and' and x in t[2]
                    guarded = guarded or bool(holds)
        if not guarded and val[0] == 'loop':
            # while name in names: name = ...   exits only when name not in names
            lp = it.loops.get(val[2])
            c = lp['cond'] if lp else None
            guarded = c is not None and c[0] == 'cmp' and c[1] == 'in' and \
                c[3] == names and c[2][0] == 'phi' and c[2][1] == val[1]
        check.require(guarded, 'G2-unique-names',
                      'name stored at %s:%d' % (e['module'], e['lineno']),
                      'the name written is known not to be in parameter_names', loc,
                      fail_detail='stores %s into parameter_names without a '
                      '"not in parameter_names" guard: two parameters can get the '
                      'same name' % show(val)[:100])
    check.floor('name stores in Mapper', nstores, 2)
    # ties by identity
    q = MAP + 'Mapper.check_for_ties'
    fd = prog.func(q)
    cmps = [n for n in ast.walk(fd) if isinstance(n, ast.Compare)]
    ok = len(cmps) == 1 and isinstance(cmps[0].ops[0], ast.Is)
    check.require(ok, 'G2-ties-by-identity', 'Mapper.check_for_ties',
                  'an existing parameter is reused only if it *is* the same object',
                  prog.loc(q, fd), fail_detail='comparison is %s' % (
                      ast.unparse(cmps[0]) if cmps else None))


# ----------------------------------------------------------------------
def ordering(check, prog):
    selfs = sym('self')
    names = intern(('attr', selfs, '_parameter_names'))
    params = intern(('attr', selfs, '_parameters'))
    q = MODEL + '.ensure_parameters_are_listlike'
    fd = prog.func(q)
    it = Interp(prog, max_depth=1)
    res = it.analyze(q)
    ok = False
    for o in res.returns:
        for v in subterms(o.value):
            if v[0] == 'comp' and v[3] and v[3][0][1] == names:
                e = v[3][0][0]
                ok = ok or v[2] == ('idx', sym('pars'), e)
    check.require(ok, 'G3-name-keyed-order', 'Model.ensure_parameters_are_listlike',
                  'dict values are ordered by _parameter_names', prog.loc(q, fd))
    for prop, attr in (('parameters', None), ('initial_guess', 'guess')):
        q = MODEL + '.' + prop
        fd = prog.func(q)
        it = Interp(prog, max_depth=1)
        res = it.analyze(q)
        v = res.ret
        ok = False
        if v[0] == 'comp' and v[1] == 'dict' and v[3]:
            itr = v[3][0][1]
            e = v[3][0][0]
            if itr == ('call', 'zip', (names, params), ()):
                key, val = v[2][1]
                lid = e[2]
                en, ep = intern(('elem', names, lid)), intern(('elem', params, lid))
                want = ep if attr is None else intern(('attr', ep, attr))
                ok = key == en and val == want
        check.require(ok, 'G3-name-keyed-order', 'Model.' + prop,
                      'name i is paired with prior i%s' % (
                          "'s guess" if attr else ''), prog.loc(q, fd),
                      fail_detail='%s = %s' % (prop, show(v)[:200]))
    q = 'holopy.scattering.interface.validate_scatterer'
    fd = prog.func(q)
    it = Interp(prog, max_depth=1, inline_new=False,
                opaque=[MAP + 'read_map', MAP + 'Mapper.convert_to_map'])
    res = it.analyze(q)
    v = res.ret
    rm = calls_in(v, MAP + 'read_map')
    ok = bool(rm)
    if ok:
        g = rm[0][2][1]
        ok = g[0] == 'comp' and g[2][0] == 'attr' and g[2][2] == 'guess' and \
            g[3][0][1][0] == 'attr' and g[3][0][1][2] == 'parameters'
        ok = ok and bool(calls_in(rm[0][2][0], 'convert_to_map'))
    check.require(ok, 'G3-guesses-in-mapper-order', 'validate_scatterer',
                  "priors are replaced by their guess, in the mapper's parameter "
                  'order', prog.loc(q, fd), fail_detail='returns %s' % show(v)[:200])
    # scatterer/theory_from_parameters read the right map with listlike pars
    for m, key in (('_scatterer_from_parameters', 'scatterer'),
                   ('theory_from_parameters', 'theory')):
        q = MODEL + '.' + m
        fd = prog.func(q)
        it = Interp(prog, max_depth=1, opaque=[
            MAP + 'read_map', MODEL + '.ensure_parameters_are_listlike'])
        res = it.analyze(q)
        rm = calls_in(res.ret, MAP + 'read_map')
        ok = bool(rm) and rm[0][2][0] == ('idx', ('attr', selfs, '_maps'),
                                          ('const', key))
        check.require(ok, 'G3-right-map', 'Model.' + m,
                      "values are placed through self._maps['%s']" % key,
                      prog.loc(q, fd), fail_detail='returns %s' % show(res.ret)[:200])


# ----------------------------------------------------------------------
def has_copy(t, src):
    """a copy / deepcopy node on a path from `src` up to the root of t"""
    def contains(x, s):
        return any(y == s for y in subterms(x))
    for x in subterms(t):
        if x[0] == 'copy' and contains(x[2], src) and x[2] != src:
            return x
        if x[0] == 'copy' and x[2] == src:
            return x
        if x[0] == 'call' and isinstance(x[1], str) and x[1].endswith(
                ('copy', 'deepcopy')) and any(contains(a, src) for a in x[2]):
            return x
    return None


def rebuilding(check, prog):
    SC = SCATTERER
    q = SC + '.parameters'
    fd = prog.func(q)
    it = Interp(prog, max_depth=1, opaque=[SC + '._parameters'])
    res = it.analyze(q)
    v = res.ret
    check.require(v[0] == 'copy' and v[1] == 'deep', 'G4-parameters-deepcopy',
                  'Scatterer.parameters', 'returns a deep copy of the parameter dict',
                  prog.loc(q, fd), fail_detail='returns %s' % show(v)[:120])
    impls = []
    for cq in prog.subclasses(SC):
        c = prog.classes[cq]
        if 'from_parameters' in c.methods:
            impls.append(cq)
    check.floor('from_parameters implementations', len(impls), 3)
    for cq in impls:
        q = cq + '.from_parameters'
        fd = prog.func(q)
        loc = prog.loc(q, fd)
        short = cq.rpartition('.')[2]
        pname = fd.args.args[1].arg
        it = Interp(prog, max_depth=1, opaque=[SC + '._parameters', SC + '.parameters'])
        res = it.analyze(q)
        # purity: neither self nor the argument is mutated
        for e, st, rs in writes(it):
            r = {x for x in rs}
            if ('param', 'self') in r or ('param', pname) in r:
                check.bad('G4-from-parameters-pure', '%s.from_parameters' % short,
                          'mutates %s: %s at line %d' % (
                              'self' if ('param', 'self') in r else 'its argument',
                              e.get('target_src') or e.get('method'), e['lineno']), loc)
        # identity: values from the argument are not copied on the way
        v = res.ret
        src = sym(pname)
        cp = has_copy(v, src)
        if short == 'RigidCluster':
            # copy(parameters) copies the *dict* (shallow): values keep identity
            cp = cp if (cp is not None and cp[0] == 'copy' and cp[1] == 'deep') else None
        check.require(cp is None, 'G4-values-by-identity', '%s.from_parameters' % short,
                      'supplied values reach the constructor unchanged (same objects)',
                      loc, fail_detail='the supplied parameters pass through %s: every '
                      'rebuilt component gets its own copy of a shared prior, and ties '
                      '(found by identity) are lost, e.g. after Model reload' % (
                          show(cp)[:80] if cp else ''))
        check.ok('G4-from-parameters-pure', '%s.from_parameters' % short,
                 'no store through self or the argument', loc)
    # Scatterer.from_parameters: constructor of the same class, key by key
    q = SC + '.from_parameters'
    it = Interp(prog, max_depth=1, opaque=[SC + '._parameters', SC + '.parameters'])
    res = it.analyze(q)
    v = res.ret
    ok = v[0] == 'call' and v[1] == ('call', 'type', (sym('self'),), ()) and \
        any(k == '**' for k, _ in v[3])
    if ok:
        d = dict(v[3])['**']
        ok = d[0] == 'comp' and d[1] == 'dict'
        if ok:
            key, val = d[2][1]
            e = d[3][0][0]
            ok = key == e and val[0] == 'ite' and \
                val[2] == ('idx', sym('parameters'), e)
    check.require(ok, 'G4-scatterer-from-parameters', 'Scatterer.from_parameters',
                  'type(self)(**{key: parameters[key] if supplied else own value})',
                  prog.loc(q, prog.func(q)), fail_detail='returns %s' % show(v)[:200])
    # Scatterers.from_parameters: 'i:key' goes to member int(i) under key
    q = 'holopy.scattering.scatterer.composite.Scatterers.from_parameters'
    fd = prog.func(q)
    it = Interp(prog, max_depth=1)
    res = it.analyze(q)
    st = [e for e in it.effects if e['kind'] == 'setitem' and
          e['target_src'].startswith('collected')]
    ok = len(st) == 1
    if ok:
        e = st[0]
        key, val = e['key'], e['value']
        base = e['base']
        split = [c for c in calls_in(base, 'split')] + [c for c in calls_in(key, 'split')]
        ok = bool(split) and all(c[2] == (('const', ':'), num(1)) for c in split) and \
            base[0] == 'idx' and base[2][0] == 'call' and base[2][1] == 'int' and \
            val[0] == 'idx' and val[2] == num(1)
    check.require(ok, 'G4-composite-distribution', 'Scatterers.from_parameters',
                  "entry 'i:key' is handed to member int(i) under 'key' (split at the "
                  'first colon)', prog.loc(q, fd))
    q2 = 'holopy.scattering.scatterer.composite.Scatterers._parameters'
    it = Interp(prog, max_depth=1)
    res = it.analyze(q2)
    fm = [c for c in subterms(('tuple', tuple(
        lp['vars'][n][1] for lp in it.loops.values() for n in lp['vars']
        if lp['vars'][n][1] is not None))) if c[0] == 'call' and
        isinstance(c[1], tuple) and c[1][0] == 'attr' and c[1][2] == 'format']
    ok = bool(fm) and fm[0][1][1] == ('const', '{0}:{1}')
    check.require(ok, 'G4-composite-distribution', 'Scatterers._parameters',
                  "member i's parameter key is flattened to 'i:key'",
                  prog.loc(q2, prog.func(q2)))
    # RigidCluster: rotated then translated in both places
    RC = 'holopy.scattering.scatterer.spherecluster.RigidCluster'
    orders = {}
    for m in ('from_parameters', 'scatterers'):
        q = RC + '.' + m
        it = Interp(prog, max_depth=1)
        res = it.analyze(q)
        v = res.ret
        chain = []
        t = v
        while t[0] in ('call', 'attr'):
            if t[0] == 'attr':
                t = t[1]
                continue
            if isinstance(t[1], tuple) and t[1][0] == 'attr':
                chain.append(t[1][2])
                t = t[1][1]
            else:
                break
        orders[m] = [c for c in reversed(chain) if c in ('rotated', 'translated')]
    ok = orders['from_parameters'] == orders['scatterers'] == ['rotated', 'translated']
    check.require(ok, 'G4-rigid-cluster-order', 'RigidCluster',
                  'from_parameters and .scatterers both rotate, then translate',
                  prog.loc(RC, prog.classes[RC].node),
                  fail_detail='orders: %s' % orders)


# ----------------------------------------------------------------------
def renumbering(check, prog):
    q = MAP + 'edit_map_indices'
    fd = prog.func(q)
    loc = prog.loc(q, fd)
    it = Interp(prog, max_depth=1)
    res = it.analyze(q)
    ph = [o for o in res.returns if any(
        c[0] == 'call' and isinstance(c[1], tuple) and c[1][0] == 'attr' and
        c[1][2] == 'format' for c in subterms(o.value))]
    check.floor('placeholder path in edit_map_indices', len(ph), 1)
    for o in ph:
        fm = [c for c in subterms(o.value) if c[0] == 'call' and
              isinstance(c[1], tuple) and c[1][2] == 'format'][0]
        new = fm[2][0]
        # leaves of the index expression
        leaves = []

        def collect(t, conds):
            if t[0] == 'ite':
                collect(t[2], conds + [(t[1], True)])
                collect(t[3], conds + [(t[1], False)])
            else:
                leaves.append((t, conds))
        collect(new, [])
        ind = sym('indices')
        tied = [l for l, c in leaves if l == ('idx', ind, num(0))]
        check.require(bool(tied), 'G5-tied-to-first', 'edit_map_indices',
                      'a tied index is renumbered to the first tied index', loc)
        # the general leaf: must depend on an element-wise comparison of the
        # tied indices with the old index
        dep = False
        for l, c in leaves:
            for x in subterms(l):
                if x[0] == 'cmp' and x[1] in ('<', '<=', '>', '>=') and \
                        any(y == ind for y in subterms(x)):
                    dep = True
        check.require(dep, 'G5-shift-counts-preceding-ties', 'edit_map_indices',
                      'the new number of an untied index depends on how many tied '
                      'indices precede it', loc,
                      fail_detail='no branch of the renumbering %s compares the tied '
                      'indices with the old index element-wise: an index lying '
                      'between tied ones is shifted by a wrong amount' %
                      show(new)[:200])
