"""C19  Coordinate conversions and Euler rotations are mutually consistent.

Decides from the source (E5 canonical forms with trig / sqrt rules, E6, E2):
  M1  rotation_matrix(alpha, beta, gamma) == Rz(gamma) Ry(beta) Rz(alpha), entry
      by entry (row-major), in radians and -- angles * pi/180 first -- in
      degrees; R R^T == I (orthogonal; det +1 follows from M1);
  M2  rotate_points applies that matrix to every point;
  M3  the conversion table has all nine (from, to) pairs in the right slot;
  M4  compositions: sph->cyl->cart == sph->cart, cart->cyl->sph == cart->sph;
      x^2+y^2+z^2 == r^2 (sph->cart) and == rho^2+z^2 (cyl->cart);
      r == sqrt(x^2+y^2+z^2), rho == sqrt(x^2+y^2) in the inverse directions;
  M5  ranges: every azimuth produced from Cartesian input is
      arctan2(y, x) % (2 pi)  (in [0, 2 pi)), every polar angle is
      arctan2(<non-negative>, z)  (in [0, pi]);
  M6  composites move rigidly: Scatterers.rotated puts member i at
      com + R (c_i - com) with com the mean centre and rotates the member
      itself; translated adds one vector to every member; no method stores to
      a property that has no setter.
Not decided: inverse round trips through arctan2 (needs inverse-trig reasoning).
"""
import ast

from hpstatic.interp import Interp, expr_term
from hpstatic.logic import cmp_is
from hpstatic.loader import AnalysisError
from hpstatic.poly import Canon
from hpstatic.terms import (sym, intern, show, subterms, calls_in, NONE, num, kw)
from .common import SCATTERER, as_difference, is_sum

MUTATION_TARGETS = {'holopy/core/math.py': ['rotation_matrix', 'rotate_points', 'transform_cartesian_to_spherical', 'transform_spherical_to_cartesian', 'transform_cartesian_to_cylindrical', 'transform_cylindrical_to_cartesian', 'transform_cylindrical_to_spherical', 'transform_spherical_to_cylindrical', 'find_transformation_function'], 'holopy/scattering/scatterer/composite.py': ['rotated', 'translated'], 'holopy/scattering/scatterer/scatterer.py': ['translated'], 'holopy/scattering/scatterer/csg.py': ['rotated'], 'holopy/scattering/scatterer/spherecluster.py': ['scatterers']}

LEVEL = 'other'
META = dict(
    claimed=True,
    technique='canonical-form (polynomial + trigonometric normal form) equality '
              'with the documented z-y-z product and with composed conversions; '
              'table extraction; interval facts by pattern; setter-less property '
              'store rule through the MRO of every scatterer class'
              '; exact return-path form of RigidCluster.scatterers'
              '; constructor-only attribute stores in the scatterer package (no derived state survives copy(self)); truth table of the argument forms of translated / rotated; no root of a sum of squares of the inputs in the lengths; every returned azimuth reduced modulo 2 pi',
    level_text='Static: M1 and M4 are algebraic identities proved for all angles / '
               'points; M3, M5, M6 are exhaustive structural checks.  Orthogonality '
               'and det = +1 follow from M1 (product of three rotations) and are '
               'also checked directly as R R^T == I.  Inverse round trips through '
               'arctan2 are not decided.',
    level_note='Trusted: numpy elementwise semantics; a % (2 pi) lies in [0, 2 pi); '
               'arctan2(y >= 0, x) lies in [0, pi].',
)

MATH = 'holopy.core.math.'


def run(check, prog):
    check.explanation = (
        'rotation_matrix and the six coordinate conversions are evaluated into '
        'terms and compared, as canonical polynomial/trigonometric forms, with the '
        'documented matrices and with each other\'s compositions.')
    check.trusted += ['numpy elementwise semantics']
    canon = Canon(trig=True)
    rotation(check, prog, canon)
    table(check, prog)
    compositions(check, prog, canon)
    scalar_height(check, prog)
    ranges(check, prog)
    composites(check, prog, canon)
    setterless(check, prog)
    rigid_cluster_members(check, prog)
    scatterer_no_memo(check, prog)


def scatterer_no_memo(check, prog):
    """M9: a scatterer is a value -- what it reports (centre, centres, bounds,
    members) is computed from its present attributes, and nothing it computed
    earlier is kept on the object.  `translated` / `rotated` / `from_parameters`
    build their result from a *copy* of the object: a remembered centroid,
    bounding box or member list would travel with the copy and describe the old
    geometry.  Rule: in the scatterer package every store to an attribute of
    `self` sits in a constructor; property getters and query methods store
    nothing on `self` (directly, through setattr, or through __dict__)."""
    pkg = 'holopy.scattering.scatterer.'
    ctor_stores, bad, methods = 0, [], 0
    for cq, c in sorted(prog.classes.items()):
        if not cq.startswith(pkg):
            continue
        members = list(c.methods.items()) + [
            (n + ' (property)', p['getter']) for n, p in c.properties.items()
            if p.get('getter') is not None]
        for name, fd in members:
            if not fd.args.args:
                continue
            me = fd.args.args[0].arg
            methods += 1
            for n in ast.walk(fd):
                tgt = None
                if isinstance(n, ast.Attribute) and isinstance(n.ctx, (ast.Store, ast.Del)) \
                        and isinstance(n.value, ast.Name) and n.value.id == me:
                    tgt = 'self.' + n.attr
                elif isinstance(n, ast.Call) and isinstance(n.func, ast.Name) and \
                        n.func.id in ('setattr', 'delattr') and n.args and \
                        isinstance(n.args[0], ast.Name) and n.args[0].id == me:
                    tgt = '%s(self, %s)' % (n.func.id, ast.unparse(n.args[1])
                                            if len(n.args) > 1 else '')
                elif isinstance(n, ast.Subscript) and isinstance(n.ctx, ast.Store) and \
                        isinstance(n.value, ast.Attribute) and n.value.attr == '__dict__' \
                        and isinstance(n.value.value, ast.Name) and n.value.value.id == me:
                    tgt = 'self.__dict__[...]'
                if tgt is None:
                    continue
                if name == '__init__':
                    ctor_stores += 1
                else:
                    bad.append((cq, name, tgt, '%s:%d' % (c.module.relpath, n.lineno)))
    check.floor('attribute stores in scatterer constructors', ctor_stores, 40)
    check.note('scatterer methods and property getters scanned', '%d' % methods)
    for cq, name, tgt, where in bad:
        short = cq.rpartition('.')[2]
        check.bad('M9-scatterers-keep-no-derived-state', '%s.%s stores %s' % (
            short, name, tgt),
            '%s.%s keeps %s on the object: translated(), rotated() and '
            'from_parameters() start from copy(self), so the remembered value goes '
            'along and describes the geometry before the move (after reading '
            'cluster.center, cluster.translated(v).center is still the old '
            'centroid; a second rotation of a nested composite is no longer rigid)'
            % (short, name, tgt), where)
    if not bad:
        check.ok('M9-scatterers-keep-no-derived-state', 'scatterer package',
                 'no method or property getter outside the constructors stores an '
                 'attribute on self (%d scanned)' % methods)


def matmul(A, B):
    n = len(A)
    out = []
    for i in range(n):
        row = []
        for j in range(n):
            t = None
            for k in range(n):
                p = intern(('bin', '*', A[i][k], B[k][j]))
                t = p if t is None else intern(('bin', '+', t, p))
            row.append(t)
        out.append(row)
    return out


def rotation(check, prog, canon):
    q = MATH + 'rotation_matrix'
    fd = prog.func(q)
    loc = prog.loc(q, fd)
    for radians in (True, False):
        def decide(t, radians=radians):
            if t == sym('radians'):
                return radians
            return None
        it = Interp(prog, max_depth=1, decide=decide)
        res = it.analyze(q)
        v = res.ret
        # "in radians or degrees", for every call: converting the angles must not
        # write into the caller's objects (an in-place `angle *= pi/180` on an array
        # argument leaves it in radians, and the next call converts it again)
        inplace = [e for e in it.effects if e['kind'] == 'augassign' and
                   e['target'][0] == 'sym' and e['target'][1] in
                   [a.arg for a in fd.args.args]]
        check.require(not inplace, 'M1-arguments-untouched',
                      'rotation_matrix [%s]' % ('radians' if radians else 'degrees'),
                      'the angle arguments are not modified in place', loc,
                      fail_detail='%s: an array argument (np.array(30.), a slice of an '
                      'array of angles) is overwritten with its value in radians; the '
                      'second call with the same objects gives another matrix' % [
                          e['target_src'] + ' ' + e['op'] + '= ...' for e in inplace])
        items = None
        if v[0] == 'call' and isinstance(v[1], tuple) and v[1][0] == 'attr' and \
                v[1][2] == 'reshape':
            arr = v[1][1]
            shp = v[2][0] if v[2] else None
            if arr[0] == 'call' and arr[1] == 'numpy.array' and arr[2] and \
                    arr[2][0][0] == 'list' and len(arr[2][0][1]) == 9 and \
                    shp == ('tuple', (num(3), num(3))):
                items = arr[2][0][1]
        elif v[0] == 'call' and v[1] == 'numpy.array' and v[2] and v[2][0][0] == 'list' \
                and len(v[2][0][1]) == 3:
            rows = v[2][0][1]
            if all(r[0] == 'list' and len(r[1]) == 3 for r in rows):
                items = [x for r in rows for x in r[1]]
        mode = 'radians' if radians else 'degrees'
        if items is None:
            check.bad('M1-zyz-product', 'rotation_matrix [%s]' % mode,
                      'does not build a 3x3 array from nine entries: %s' % show(v)[:160],
                      loc)
            continue
        R = [list(items[0:3]), list(items[3:6]), list(items[6:9])]
        scale = '' if radians else ' * np.pi / 180.'
        env = {k: sym(k) for k in ('alpha', 'beta', 'gamma')}

        def E(s):
            return expr_term(prog, s, env)
        a, b, g = ('alpha' + scale, 'beta' + scale, 'gamma' + scale)

        def Rz(x):
            return [[E('np.cos(%s)' % x), E('-np.sin(%s)' % x), num(0)],
                    [E('np.sin(%s)' % x), E('np.cos(%s)' % x), num(0)],
                    [num(0), num(0), num(1)]]

        def Ry(x):
            return [[E('np.cos(%s)' % x), num(0), E('np.sin(%s)' % x)],
                    [num(0), num(1), num(0)],
                    [E('-np.sin(%s)' % x), num(0), E('np.cos(%s)' % x)]]
        want = matmul(matmul(Rz(g), Ry(b)), Rz(a))
        for i in range(3):
            for j in range(3):
                ok = canon.equal(R[i][j], want[i][j])
                check.require(ok, 'M1-zyz-product',
                              'rotation_matrix [%s] R[%d][%d]' % (mode, i, j),
                              'equals [Rz(gamma) Ry(beta) Rz(alpha)][%d][%d]' % (i, j),
                              loc, fail_detail='R[%d][%d] = %s, documented z-y-z '
                              'composition gives %s' % (i, j, canon.show(R[i][j])[:160],
                                                        canon.show(want[i][j])[:160]))
        if radians:
            RT = [[R[j][i] for j in range(3)] for i in range(3)]
            P = matmul(R, RT)
            for i in range(3):
                for j in range(3):
                    ok = canon.equal(P[i][j], num(1 if i == j else 0))
                    check.require(ok, 'M1-orthogonal', '(R R^T)[%d][%d]' % (i, j),
                                  'equals %d' % (1 if i == j else 0), loc,
                                  fail_detail='(R R^T)[%d][%d] = %s' % (
                                      i, j, canon.show(P[i][j])[:200]))
    # rotate_points
    q = MATH + 'rotate_points'
    fd = prog.func(q)
    it = Interp(prog, max_depth=1, opaque=[MATH + 'rotation_matrix'])
    res = it.analyze(q)
    rot = intern(('call', MATH + 'rotation_matrix',
                  (sym('theta'), sym('phi'), sym('psi')), ()))
    pts = intern(('call', 'numpy.array', (sym('points'),), ()))
    rets = res.returns
    ok = len(rets) == 2
    if ok:
        one = [o for o in rets if o.value == ('call', 'numpy.dot', (rot, pts), ())]
        many = [o for o in rets if o not in one]
        ok = len(one) == 1 and len(many) == 1
        if ok:
            v = many[0].value
            comps = [x for x in subterms(v) if x[0] == 'comp']
            ok = bool(comps) and comps[0][3][0][1] == pts and \
                comps[0][2] == ('call', 'numpy.dot', (rot, comps[0][3][0][0]), ())
        if ok:
            # the single matrix product is taken exactly for one point, i.e. a
            # one-dimensional input: a test on the shape (3 rows) would also catch
            # a list of exactly three points and rotate them as columns
            from .common import canon_cond
            c1 = canon_cond(one[0].cond)
            ok = c1 == [(intern(('cmp', '==', ('attr', pts, 'ndim'), num(1))), True)]
    check.require(ok, 'M2-rotate-points', 'rotate_points',
                  'rot . p for one (1-d) point, [rot . p for p in points] for many, with '
                  'rot = rotation_matrix(theta, phi, psi) in that argument order',
                  prog.loc(q, fd), fail_detail='returns %s' % [
                      show(o.value)[:120] for o in rets])


def table(check, prog):
    m = prog.module('holopy.core.math')
    node = m.assigns.get('_transformation_lut')
    loc = '%s:%d' % (m.relpath, getattr(node, 'lineno', 0))
    systems = ['cartesian', 'spherical', 'cylindrical']
    got = {}
    if isinstance(node, ast.Dict):
        for k, v in zip(node.keys, node.values):
            if isinstance(k, ast.Constant) and isinstance(v, ast.Dict):
                for k2, v2 in zip(v.keys, v.values):
                    if isinstance(k2, ast.Constant) and isinstance(v2, ast.Name):
                        got[(k.value, k2.value)] = v2.id
    check.floor('conversion table entries', len(got), 9)
    for a in systems:
        for b in systems:
            want = 'keep_in_same_coordinates' if a == b else \
                'transform_%s_to_%s' % (a, b)
            check.require(got.get((a, b)) == want, 'M3-conversion-table',
                          '%s -> %s' % (a, b), 'slot holds %s' % want, loc,
                          fail_detail='slot (%s, %s) holds %s' % (a, b, got.get((a, b))))
    q = MATH + 'find_transformation_function'
    it = Interp(prog, max_depth=1)
    res = it.analyze(q)
    ok = any(o.value == ('idx', ('idx', ('global', 'holopy.core.math._transformation_lut'),
                                 sym('initial_coordinates')), sym('desired_coordinates'))
             or (o.value[0] == 'idx' and o.value[2] == sym('desired_coordinates') and
                 o.value[1][0] == 'idx' and o.value[1][2] == sym('initial_coordinates'))
             for o in res.returns)
    check.require(ok, 'M3-conversion-table', 'find_transformation_function',
                  'looks up lut[initial][desired]', prog.loc(q, prog.func(q)))


def mod_form(t):
    """np.mod(a, b) / np.remainder(a, b) / np.asarray(a) % b  ->  a % b"""
    if not isinstance(t, tuple) or not t or not isinstance(t[0], str):
        return t
    t = tuple(mod_form(x) if isinstance(x, tuple) else x for x in t)
    if t[0] == 'call' and t[1] in ('numpy.mod', 'numpy.remainder', 'numpy.fmod') and \
            len(t[2]) == 2 and not t[3] and t[1] != 'numpy.fmod':
        return intern(('bin', '%', t[2][0], t[2][1]))
    if t[0] == 'bin' and t[1] == '%' and t[2][0] == 'call' and \
            t[2][1] in ('numpy.asarray', 'numpy.asanyarray') and len(t[2][2]) == 1:
        return intern(('bin', '%', t[2][2][0], t[3]))
    return intern(t)


def conv(prog, name, arg):
    q = MATH + name

    def decide(t):
        if t[0] == 'cmp' and t[1] == '==' and t[2][0] == 'call' and \
                t[2][1] == 'numpy.size':
            return False
        return None
    it = Interp(prog, max_depth=1, decide=decide)
    fd = prog.func(q)
    res = it.analyze(q, args={fd.args.args[0].arg: arg})
    v = res.ret
    if v[0] == 'call' and v[1] == 'numpy.array' and v[2] and v[2][0][0] == 'list' \
            and len(v[2][0][1]) == 3:
        return [mod_form(x) for x in v[2][0][1]]
    raise AnalysisError('%s does not return np.array([a, b, c]): %s' % (
        name, show(v)[:120]))


def scalar_height(check, prog):
    """M8: a scalar z given with arrays of the two other coordinates is repeated to
    their length *as it is*: the repeated array takes its element type from z (or
    from a floating-point prototype), not from a coordinate array that may hold
    integers (pixel indices) -- `np.full_like(x, z)` truncates z = 2.5 to 2."""
    FLOATY = ('numpy.sqrt', 'numpy.cos', 'numpy.sin', 'numpy.arctan2', 'numpy.hypot')
    for name in ('transform_cartesian_to_cylindrical',
                 'transform_cylindrical_to_cartesian'):
        q = MATH + name
        fd = prog.func(q)
        loc = prog.loc(q, fd)

        def decide(t):
            if t[0] == 'cmp' and t[1] == '==' and t[2][0] == 'call' and \
                    t[2][1] == 'numpy.size':
                return True
            return None
        it = Interp(prog, max_depth=1, decide=decide)
        a, b, zz = sym('c0'), sym('c1'), sym('z')
        res = it.analyze(q, args={fd.args.args[0].arg: intern(('list', (a, b, zz)))})
        v = res.ret
        ok = v[0] == 'call' and v[1] == 'numpy.array' and v[2] and \
            v[2][0][0] == 'list' and len(v[2][0][1]) == 3
        detail = 'returns %s' % show(v)[:120]
        if ok:
            zc = v[2][0][1][2]
            detail = 'the height component is %s' % show(zc)[:120]

            def floaty(t):
                return any(x[0] == 'call' and x[1] in FLOATY for x in subterms(t)) or \
                    any(x[0] == 'bin' and x[1] == '/' for x in subterms(t))
            if zc[0] == 'call' and zc[1] == 'numpy.full' and len(zc[2]) >= 2:
                ok = zc[2][1] == zz and kw(zc, 'dtype') is None or \
                    (zc[2][1] == zz and 'float' in show(kw(zc, 'dtype')))
            elif zc[0] == 'call' and zc[1] == 'numpy.full_like' and len(zc[2]) >= 2:
                dt = kw(zc, 'dtype')
                ok = zc[2][1] == zz and (
                    (dt is not None and 'float' in show(dt)) or
                    (dt is None and floaty(zc[2][0])))
                if not ok:
                    detail += ': full_like takes the element type of %s, an input ' \
                        'array that may hold integers' % show(zc[2][0])[:40]
            elif zc[0] == 'call' and zc[1] == 'numpy.broadcast_to' and zc[2]:
                ok = zc[2][0] == zz
            elif zc[0] == 'bin' and zc[1] == '*':
                ok = zz in (zc[2], zc[3]) and any(
                    x[0] == 'call' and x[1] in ('numpy.ones', 'numpy.ones_like')
                    for x in (zc[2], zc[3]))
            else:
                ok = False
        check.require(ok, 'M8-scalar-height', name,
                      'a scalar z is repeated unchanged to the length of the other two '
                      'coordinates', loc, fail_detail=detail)


def compositions(check, prog, canon):
    x, y, z = sym('x'), sym('y'), sym('z')
    r, th, ph = sym('r'), sym('theta'), sym('phi')
    rho = sym('rho')
    L = lambda *a: intern(('list', tuple(a)))
    loc = prog.loc(MATH + 'transform_cartesian_to_spherical',
                   prog.func(MATH + 'transform_cartesian_to_spherical'))
    c2s = conv(prog, 'transform_cartesian_to_spherical', L(x, y, z))
    c2c = conv(prog, 'transform_cartesian_to_cylindrical', L(x, y, z))
    s2c = conv(prog, 'transform_spherical_to_cartesian', L(r, th, ph))
    s2y = conv(prog, 'transform_spherical_to_cylindrical', L(r, th, ph))
    y2c = conv(prog, 'transform_cylindrical_to_cartesian', L(rho, ph, z))
    y2s = conv(prog, 'transform_cylindrical_to_spherical', L(rho, ph, z))

    twopi = expr_term(prog, '2*np.pi', {})

    def norm(t):
        # identities outside the polynomial algebra: hypot(a, b) = sqrt(a^2 + b^2);
        # sin / cos have period 2 pi; reducing modulo 2 pi twice is reducing once
        if not isinstance(t, tuple) or not t:
            return t
        t = tuple(norm(x) if isinstance(x, tuple) else x for x in t)
        if not isinstance(t[0], str):
            return t
        if t[0] == 'call' and t[1] == 'numpy.hypot' and len(t[2]) == 2:
            a_, b_ = t[2]
            return intern(('call', 'numpy.sqrt', (('bin', '+', ('bin', '**', a_, num(2)),
                                                    ('bin', '**', b_, num(2))),), ()))
        if t[0] == 'call' and t[1] in ('numpy.sin', 'numpy.cos') and len(t[2]) == 1:
            a_ = t[2][0]
            if a_[0] == 'bin' and a_[1] == '%' and canon.equal(a_[3], twopi):
                return intern(('call', t[1], (a_[2],), t[3]))
        if t[0] == 'bin' and t[1] == '%' and canon.equal(t[3], twopi) and \
                t[2][0] == 'bin' and t[2][1] == '%' and canon.equal(t[2][3], twopi):
            return t[2]
        return intern(t)

    def same(a, b, name, detail):
        a, b = norm(a), norm(b)
        try:
            ok = canon.equal(a, b)
        except Exception as e:
            check.error('%s: %s' % (name, e))
            return
        if not ok and inverse_trig_differs(canon, a, b):
            check.error('%s: cannot relate %s and %s (inverse trigonometric '
                        'functions are outside the algebra)' % (
                            name, canon.show(a)[:80], canon.show(b)[:80]))
            return
        check.require(ok, 'M4-compositions', name, detail, loc,
                      fail_detail='%s but %s' % (canon.show(a)[:200], canon.show(b)[:200]))
    # sph -> cyl -> cart == sph -> cart
    via = conv(prog, 'transform_cylindrical_to_cartesian', L(*s2y))
    for nm, a, b in zip('xyz', via, s2c):
        same(a, b, 'sph->cyl->cart == sph->cart [%s]' % nm, 'component %s agrees' % nm)
    # cart -> cyl -> sph == cart -> sph
    via = conv(prog, 'transform_cylindrical_to_spherical', L(*c2c))
    for nm, a, b in zip(('r', 'theta', 'phi'), via, c2s):
        same(a, b, 'cart->cyl->sph == cart->sph [%s]' % nm, 'component %s agrees' % nm)
    # cyl -> sph -> cart == cyl -> cart ; sph -> cart -> ... skipped (needs arctan2)
    via = conv(prog, 'transform_spherical_to_cartesian', L(*y2s))
    # x = r sin(arctan2(rho, z)) cos phi: inverse trig -> not decidable; skip
    # distance from the origin
    def sq(t):
        return intern(('bin', '**', t, num(2)))

    def add(*ts):
        out = ts[0]
        for t in ts[1:]:
            out = intern(('bin', '+', out, t))
        return out
    same(add(*[sq(t) for t in s2c]), sq(r), 'sph->cart preserves distance',
         'x^2 + y^2 + z^2 == r^2')
    same(add(*[sq(t) for t in y2c]), add(sq(rho), sq(z)), 'cyl->cart preserves distance',
         'x^2 + y^2 + z^2 == rho^2 + z^2')
    same(sq(c2s[0]), add(sq(x), sq(y), sq(z)), 'cart->sph preserves distance',
         'r^2 == x^2 + y^2 + z^2')
    same(add(sq(c2c[0]), sq(c2c[2])), add(sq(x), sq(y), sq(z)),
         'cart->cyl preserves distance', 'rho^2 + z^2 == x^2 + y^2 + z^2')
    same(sq(y2s[0]), add(sq(rho), sq(z)), 'cyl->sph preserves distance',
         'r^2 == rho^2 + z^2')
    same(add(sq(s2y[0]), sq(s2y[2])), sq(r), 'sph->cyl preserves distance',
         'rho^2 + z^2 == r^2')
    # the azimuth is the same direction in both systems, and like every azimuth
    # the conversions return it lies in [0, 2 pi): the incoming one reduced
    wrapped = intern(('bin', '%', ph, twopi))
    same(s2y[1], wrapped, 'sph->cyl azimuth', 'phi modulo 2 pi')
    same(y2s[2], wrapped, 'cyl->sph azimuth', 'phi modulo 2 pi')
    # distances are formed without squaring the coordinates first: x*x overflows at
    # |x| > 1.3e154 and underflows below 1.5e-154, where the distance itself is an
    # ordinary number ("preserve distance from the origin" for very large and
    # origin-adjacent magnitudes)
    inputs = {x, y, z, rho}
    for nm, t in (('cart->sph r', c2s[0]), ('cart->sph polar angle', c2s[1]),
                  ('cart->cyl rho', c2c[0]), ('cyl->sph r', y2s[0])):
        squares = [u for v in subterms(t) if v[0] == 'call' and v[1] == 'numpy.sqrt'
                   for u in subterms(v)
                   if (u[0] == 'bin' and u[1] == '**' and u[2] in inputs) or
                   (u[0] == 'bin' and u[1] == '*' and u[2] == u[3] and u[2] in inputs)]
        check.require(not squares, 'M4-distance-without-squares', nm,
                      'the length is taken with hypot, not as the root of a sum of '
                      'squares', loc,
                      fail_detail='%s is %s: (3, 4, 12) x 1e200 comes back with r = '
                      'inf and polar angle pi / 2, x 1e-200 with r = 0' % (
                          nm, show(t)[:80]))
    same(c2c[2], z, 'cart->cyl z', 'z unchanged')
    # azimuth definitions agree between the two Cartesian conversions
    same(c2s[2], c2c[1], 'cart->sph and cart->cyl azimuth', 'same azimuth definition')


def inverse_trig_differs(canon, a, b):
    names = ('arctan2', 'arccos', 'arcsin', 'arctan')

    def inv(t):
        return {x[1] for x in subterms(canon.canon_term(t))
                if x[0] == 'call' and x[1] in names}
    ia, ib = inv(a), inv(b)
    return bool(ia | ib) and ia != ib


def ranges(check, prog):
    x, y, z = sym('x'), sym('y'), sym('z')
    L = lambda *a: intern(('list', tuple(a)))
    canon = Canon()
    twopi = expr_term(prog, '2*np.pi', {})
    for name, idx in (('transform_cartesian_to_spherical', 2),
                      ('transform_cartesian_to_cylindrical', 1)):
        c = conv(prog, name, L(x, y, z))
        phi = c[idx]
        ok = phi[0] == 'bin' and phi[1] == '%' and canon.equal(phi[3], twopi) and \
            phi[2] == ('call', 'numpy.arctan2', (y, x), ())
        check.require(ok, 'M5-azimuth-range', name,
                      'azimuth = arctan2(y, x) % (2 pi), hence in [0, 2 pi)',
                      prog.loc(MATH + name, prog.func(MATH + name)),
                      fail_detail='azimuth is %s' % show(phi)[:120])
    for name, idx in (('transform_spherical_to_cylindrical', 1),
                      ('transform_cylindrical_to_spherical', 2)):
        args = L(sym('r'), sym('theta'), sym('phi')) if idx == 1 else \
            L(sym('rho'), sym('phi'), z)
        phi = conv(prog, name, args)[idx]
        ok = phi[0] == 'bin' and phi[1] == '%' and canon.equal(phi[3], twopi) and \
            phi[2] == sym('phi')
        check.require(ok, 'M5-azimuth-range', name,
                      'azimuth = phi % (2 pi), hence in [0, 2 pi)',
                      prog.loc(MATH + name, prog.func(MATH + name)),
                      fail_detail='azimuth is %s: handed on as it came, so -0.5 or 7.0 '
                      'come back outside [0, 2 pi) where the route through Cartesian '
                      'coordinates returns 5.783 and 0.717' % show(phi)[:80])
    c = conv(prog, 'transform_cartesian_to_spherical', L(x, y, z))
    th = c[1]
    ok = th[0] == 'call' and th[1] == 'numpy.arctan2' and th[2][1] == z and \
        th[2][0][0] == 'call' and th[2][0][1] in ('numpy.sqrt', 'numpy.hypot')
    check.require(ok, 'M5-polar-range', 'transform_cartesian_to_spherical',
                  'polar angle = arctan2(sqrt(.) >= 0, z), hence in [0, pi]',
                  prog.loc(MATH + 'transform_cartesian_to_spherical',
                           prog.func(MATH + 'transform_cartesian_to_spherical')),
                  fail_detail='polar angle is %s' % show(th)[:120])
    rho, ph = sym('rho'), sym('phi')
    c = conv(prog, 'transform_cylindrical_to_spherical', L(rho, ph, z))
    th = c[1]
    ok = th == ('call', 'numpy.arctan2', (rho, z), ())
    check.require(ok, 'M5-polar-range', 'transform_cylindrical_to_spherical',
                  'polar angle = arctan2(rho >= 0, z), hence in [0, pi] and defined on '
                  'the axis and at the origin',
                  prog.loc(MATH + 'transform_cylindrical_to_spherical',
                           prog.func(MATH + 'transform_cylindrical_to_spherical')),
                  fail_detail='polar angle is %s: not of the form arctan2(rho, z); e.g. '
                  'arccos(z / r) is undefined at the origin and loses precision near '
                  'the axis' % show(th)[:120])


def composites(check, prog, canon):
    q = 'holopy.scattering.scatterer.composite.Scatterers.rotated'
    fd = prog.func(q)
    loc = prog.loc(q, fd)
    it = Interp(prog, max_depth=1, opaque=[MATH + 'rotate_points',
                                           'holopy.core.utils.ensure_array'])
    res = it.analyze(q)
    loops = [l for l in it.loops.values() if l['func'] == q]
    v = res.ret
    # new_centers
    rp = calls_in(v, MATH + 'rotate_points')
    ok = bool(rp)
    if ok:
        c = rp[0]
        centers = [x for x in subterms(c[2][0]) if x[0] == 'call' and
                   x[1] == 'numpy.array' and x[2] and x[2][0][0] == 'comp']
        ok = bool(centers)
        if ok:
            cen = centers[0]
            comp = cen[2][0]
            okc = comp[3][0][1] == ('attr', sym('self'), 'scatterers') and \
                comp[2] == ('attr', comp[3][0][0], 'center')
            com = intern(('call', ('attr', cen, 'mean'), (num(0),), ()))
            okd = as_difference(c[2][0]) == (cen, com)
            # enclosing sum: com + rotate_points(...)
            enc = [x for x in subterms(v) if x[0] == 'bin' and x[1] == '+' and
                   (x[2] == com and x[3] == c or x[3] == com and x[2] == c)]
            ok = okc and okd and bool(enc)
    check.require(ok, 'M6-rigid-rotation', 'Scatterers.rotated centres',
                  'new centres = com + rotate_points(centres - com, angles) with com '
                  'the mean of the member centres (centroid fixed)', loc,
                  fail_detail='rotated builds %s' % show(v)[:240])
    # each member: translated by (new - old) and rotated itself
    step = None
    for l in loops:
        for n, (i0, st) in l['vars'].items():
            if st is not None and st[0] == 'mut' and st[2] == 'append':
                step = st[3][0]
    if step is None:
        comps = [x for x in subterms(v) if x[0] == 'comp' and
                 calls_in(x[2], 'translated')]
        step = comps[0][2] if comps else None
    ok = step is not None and step[0] == 'call' and isinstance(step[1], tuple) and \
        step[1][0] == 'attr' and step[1][2] == 'rotated' and \
        bool(calls_in(step[1][1], 'translated'))
    check.require(ok, 'M6-rigid-rotation', 'Scatterers.rotated members',
                  'every member is translated to its new centre and rotated by the '
                  'same angles (nested composites keep their orientation relative to '
                  'the whole)', loc,
                  fail_detail='member update is %s: members that are themselves '
                  'composites are moved but not rotated' % (
                      show(step)[:200] if step else None))
    # sibling implementations of `rotated` that place members at rotated centres
    # must translate each member by (new centre - old centre)
    impls = []
    for cq in prog.subclasses(SCATTERER):
        c = prog.classes[cq]
        fdm = c.methods.get('rotated')
        if fdm is not None and 'rotate_points' in ast.unparse(fdm):
            impls.append(cq)
    check.floor('rotated implementations built on rotate_points', len(impls), 2)
    for cq in impls:
        qm = cq + '.rotated'
        fdm = prog.func(qm)
        itm = Interp(prog, max_depth=1, opaque=[MATH + 'rotate_points',
                                                'holopy.core.utils.ensure_array'])
        rm = itm.analyze(qm)
        tcalls = [x for x in subterms(rm.ret) if x[0] == 'call' and
                  isinstance(x[1], tuple) and x[1][0] == 'attr' and x[1][2] == 'translated']
        for lp in itm.loops.values():
            for nme, (i0, stp) in lp['vars'].items():
                if stp is not None:
                    tcalls += [x for x in subterms(stp) if x[0] == 'call' and
                               isinstance(x[1], tuple) and x[1][0] == 'attr' and
                               x[1][2] == 'translated']
        okd = bool(tcalls)
        why = 'no member translation found'
        for tc in tcalls[:1]:
            arg = tc[2][0]
            arg = arg[1] if arg[0] == 'star' else arg
            # displacement must be (something containing rotate_points) - (old)
            df = as_difference(arg)
            okd = df is not None and \
                bool(calls_in(df[0], MATH + 'rotate_points')) and \
                not calls_in(df[1], MATH + 'rotate_points')
            why = 'displacement is %s' % show(arg)[:160]
        short = cq.rpartition('.')[2]
        check.require(okd, 'M6-rigid-rotation', '%s.rotated displacement' % short,
                      'each member is translated by (rotated centre - old centre)',
                      prog.loc(qm, fdm), fail_detail=why + ': members are moved away '
                      'from their rotated positions, so the shape is not rotated rigidly')
    q = 'holopy.scattering.scatterer.composite.Scatterers.translated'
    fd = prog.func(q)
    it = Interp(prog, max_depth=1, opaque=['holopy.core.utils.ensure_array'])
    res = it.analyze(q)
    v = res.ret
    comps = [x for x in subterms(v) if x[0] == 'comp']
    ok = bool(comps)
    if ok:
        c = comps[0]
        e = c[3][0][0]
        ok = c[3][0][1] == ('attr', sym('self'), 'scatterers') and \
            c[2][0] == 'call' and c[2][1] == ('attr', e, 'translated') and \
            not any(x == e for x in subterms(('tuple', c[2][2])))
    check.require(ok, 'M6-rigid-translation', 'Scatterers.translated',
                  'every member is translated by one and the same vector',
                  prog.loc(q, fd), fail_detail='translated builds %s' % show(v)[:200])
    scatterer_translated(check, prog)
    argument_forms(check, prog)
    # set-operation scatterers move rigidly too (rule shared with C20)
    from . import c20
    c20.csg_motion(check, prog)


def scatterer_translated(check, prog):
    q = 'holopy.scattering.scatterer.scatterer.Scatterer.translated'
    fd = prog.func(q)
    it = Interp(prog, max_depth=1, opaque=['holopy.core.utils.ensure_array'])
    res = it.analyze(q)
    st = [e for e in it.effects if e['kind'] == 'setattr' and e['attr'] == 'center']
    ok = len(st) == 1 and st[0]['value'][0] == 'bin' and st[0]['value'][1] == '+' and \
        intern(('attr', sym('self'), 'center')) in (st[0]['value'][2], st[0]['value'][3]) \
        and st[0]['base'] == ('copy', 'shallow', sym('self'))
    if ok:
        ctr = intern(('attr', sym('self'), 'center'))
        vec = st[0]['value'][3] if st[0]['value'][2] == ctr else st[0]['value'][2]
        names = [a.arg for a in fd.args.args[1:4]]
        v1 = intern(('call', 'holopy.core.utils.ensure_array', (sym(names[0]),), ()))
        v3 = intern(('call', 'numpy.array',
                     (('list', tuple(sym(n) for n in names)),), ()))
        branches = set()

        def leaves(t):
            if t[0] == 'ite':
                leaves(t[2])
                leaves(t[3])
            elif t[0] not in ('raise', 'unk') and not str(t[1]).startswith('unbound:'):
                branches.add(t)
        leaves(vec)
        ok = branches == {v1, v3}
    check.require(ok, 'M6-rigid-translation', 'Scatterer.translated',
                  'a copy whose centre is the old centre plus the vector',
                  prog.loc(q, fd))


def argument_forms(check, prog):
    """translated / rotated accept either one 3-vector or three numbers: the
    vector form is taken iff the 2nd argument is None, the three-number form iff
    the 2nd and 3rd are given, anything else is refused."""
    from .common import norm_cond
    SCQ = 'holopy.scattering.scatterer.'
    for q in (SCQ + 'scatterer.Scatterer.translated',
              SCQ + 'composite.Scatterers.translated',
              SCQ + 'composite.Scatterers.rotated'):
        fd = prog.func(q)
        loc = prog.loc(q, fd)
        a1, a2, a3 = [sym(a.arg) for a in fd.args.args[1:4]]
        it = Interp(prog, max_depth=1, opaque=['holopy.core.utils.ensure_array',
                                               MATH + 'rotate_points'])
        res = it.analyze(q)
        short = q.split('.')[-2] + '.' + q.split('.')[-1]
        A = intern(('cmp', 'is', a2, NONE))
        C = intern(('cmp', 'is not', a2, NONE))
        D = intern(('cmp', 'is not', a3, NONE))
        ok = len(res.raises) == 1 and 'InvalidScatterer' in show(res.raises[0].value)
        vecform = None
        why3 = ''
        if ok:
            cs = norm_cond(res.raises[0].cond)
            ok = len(cs) == 2 and cs[0][1] is False and \
                cs[0][0][0] == 'bool' and cs[0][0][1] == 'and' and \
                len(cs[0][0][2]) == 2 and A in cs[0][0][2]
            if ok:
                # refused <=> not the vector form and (2nd or 3rd argument missing),
                # as a truth table over the three tests (however it is spelled)
                import itertools
                from hpstatic.logic import eval3
                other_ = [x for x in cs[0][0][2] if x != A][0]
                for va, vb, vv in itertools.product((True, False), repeat=3):
                    def atom(t, va=va, vb=vb, vv=vv):
                        if t == other_:
                            return vv
                        if t[0] == 'cmp' and t[1] in ('is', 'is not') and t[3] == NONE \
                                and t[2] in (a2, a3):
                            v_ = va if t[2] == a2 else vb
                            return v_ if t[1] == 'is' else not v_
                        return None
                    got = all((eval3(t, atom) is True) == p for t, p in cs) and \
                        all(eval3(t, atom) is not None for t, p in cs)
                    want = (not (va and vv)) and (va or vb)
                    if got != want:
                        ok = False
            if ok:
                vecform = cs[0][0]
                other = [x for x in vecform[2] if x != A][0]
                # "a 3-vector": len(<the first argument as an array>) == 3 -- the
                # length of the argument, not the length of a comparison result
                ea = intern(('call', 'holopy.core.utils.ensure_array', (a1,), ()))
                ln = [intern(('call', 'len', (x,), ())) for x in (ea, a1)]
                ok = any(cmp_is(other, '==', l_, num(3)) for l_ in ln)
                if not ok:
                    why3 = 'the vector form is taken under %s' % show(other)[:80]
        # where the value is chosen, the vector form goes with the vector test
        if ok:
            sel = [x for x in subterms(res.ret) if x[0] == 'ite' and x[1] == vecform]
            ok = bool(sel)
            for x in sel:
                uses3 = any(y in (a2, a3) for y in subterms(x[2]))
                uses1 = any(y == a1 for y in subterms(x[2]))
                if uses3 or not uses1:
                    ok = False
        check.require(ok, 'M6-argument-forms', short,
                      'one 3-vector (2nd argument None) or three numbers (2nd and 3rd '
                      'given); anything else raises InvalidScatterer', loc,
                      fail_detail=(why3 + ' (true for any argument that has a length, '
                                   'and a scalar is then added to all three coordinates); '
                                   if why3 else '') + 'raises under %s' % [
                          [(show(t)[:80], p) for t, p in o.cond] for o in res.raises])


def setterless(check, prog):
    """For every scatterer class, every inherited method that assigns
    `obj.X = ...` on self or a copy of self where X resolves (in that class's
    MRO) to a property without setter raises AttributeError."""
    n = 0
    for cq in prog.subclasses(SCATTERER):
        short = cq.rpartition('.')[2]
        seen = set()
        for mq in prog.mro(cq):
            c = prog.classes[mq]
            for mname, fd in c.methods.items():
                hit = prog.lookup(cq, mname)
                if not hit or hit[1] != mq or not fd.args.args:
                    continue      # overridden further down the MRO
                sn = fd.args.args[0].arg
                copies = {sn}
                for node in ast.walk(fd):
                    if isinstance(node, ast.Assign) and isinstance(node.value, ast.Call) \
                            and ast.unparse(node.value.func) in ('copy', 'copy.copy',
                                                                 'deepcopy', 'copy.deepcopy') \
                            and node.value.args and isinstance(node.value.args[0], ast.Name) \
                            and node.value.args[0].id == sn:
                        for t in node.targets:
                            if isinstance(t, ast.Name):
                                copies.add(t.id)
                for node in ast.walk(fd):
                    if isinstance(node, ast.Attribute) and isinstance(node.ctx, ast.Store) \
                            and isinstance(node.value, ast.Name) and node.value.id in copies:
                        n += 1
                        ph = prog.lookup(cq, node.attr)
                        if ph and ph[0] == 'property' and ph[2]['setter'] is None:
                            key = (mname, node.attr)
                            if key in seen:
                                continue
                            seen.add(key)
                            check.bad('M6-setterless-property-store',
                                      '%s.%s assigns .%s' % (short, mname, node.attr),
                                      '%s inherits %s.%s, which assigns .%s; on %s that '
                                      'is a property without setter (defined in %s): the '
                                      'call raises AttributeError' % (
                                          short, mq.rpartition('.')[2], mname, node.attr,
                                          short, ph[1].rpartition('.')[2]),
                                      '%s:%d' % (c.module.relpath, node.lineno))
        if not seen:
            check.ok('M6-setterless-property-store', short,
                     'no inherited method stores to a setter-less property', '')
    check.floor('attribute stores on scatterer objects', n, 20)


def rigid_cluster_members(check, prog):
    """M7: the members of a RigidCluster are its spheres rotated by its rotation
    about their centroid, then translated by its translation -- for every rotation
    and translation (no angle triple is special-cased)."""
    RC = 'holopy.scattering.scatterer.spherecluster.RigidCluster'
    q = RC + '.scatterers'
    fd = prog.func(q)
    loc = prog.loc(q, fd)
    it = Interp(prog, max_depth=0)
    res = it.analyze(q)
    me = sym(fd.args.args[0].arg)
    want = intern(('attr', ('call', ('attr', ('call', ('attr', ('attr', me, 'spheres'),
                                                        'rotated'),
                                             (('attr', me, 'rotation'),), ()), 'translated'),
                            (('attr', me, 'translation'),), ()), 'scatterers'))
    star = intern(('attr', ('call', ('attr', ('call', ('attr', ('attr', me, 'spheres'),
                                                        'rotated'),
                                             (('star', ('attr', me, 'rotation')),), ()),
                                     'translated'),
                            (('star', ('attr', me, 'translation')),), ()), 'scatterers'))
    rets = [o.value for o in res.returns]
    ok = len(rets) >= 1 and all(v in (want, star) for v in rets) and not res.raises
    check.require(ok, 'M7-rigid-cluster-members', 'RigidCluster.scatterers',
                  'spheres.rotated(rotation).translated(translation).scatterers on '
                  'every path', loc,
                  fail_detail='returns %s' % [
                      ' and '.join(('' if p else 'not ') + show(t)[:50] for t, p in o.cond)
                      + ' -> ' + show(o.value)[:120] for o in res.returns][:3])
