"""C14  Priors are proper, match their samplers, closed under arithmetic.

Decides from the source (engines E5, E6, E8, E9):
  R1  one support predicate everywhere: the "outside" test of prob, lnprob,
      the sampler's rejection mask and the constructor's guess check are, per
      class, the predicate  x < lower_bound or x > upper_bound; the guarded
      returns are 0 and -inf;
  R2  log-density == log(density) inside the support (log rules; scipy's
      norm.pdf by its textbook formula);
  R3  Uniform density * interval == 1;
  R4  samplers: every draw handed back went through the support test -- the
      rejection loop tests a boolean mask (not an index tuple), recomputes the
      mask from the resampled values with the support predicate, replaces each
      rejected slot by its own fresh draw, and never index-stores into a
      possibly-scalar sample;
  R5  unscale(scale(x)) == x;
  R6  operator methods denote the arithmetic they overload (value - prior is
      value - prior), +0 and *1 return the prior itself, *0 and foreign types
      raise TypeError; TransformedPrior.guess / sample apply the
      transformation to the base priors' guesses / samples position-wise;
  R7  constructors reject lower >= upper, sd <= 0, mean outside the bounds.
Not decided: that numpy's samplers follow the declared densities, Gaussian
normalisation to one (library facts).
"""
import ast

from hpstatic.interp import Interp, expr_term, Frame, strip_raises, assume
from hpstatic.logic import disjunction_atoms, nnf
from hpstatic.loader import AnalysisError
from hpstatic.poly import Canon
from hpstatic.terms import (sym, intern, show, subterms, calls_in, TRUE, FALSE,
                            NONE, atoms_of, kw, num)
from .common import final_self, init_of, lt_form, path_has, norm_cond, beyond_guards
from hpstatic.logic import cmp_is

MUTATION_TARGETS = {'holopy/core/prior.py': ['__add__', '__mul__', '__radd__', '__sub__', '__rsub__', '__rmul__', '__truediv__', '__rtruediv__', '__neg__', '__pow__', '__rpow__', 'scale', 'unscale', 'lnprob', 'prob', 'sample', 'guess', 'interval', '__init__', 'variance', 'updated']}

LEVEL = 'other'
META = dict(
    claimed=True,
    technique='predicate agreement (NNF comparison sets) between sibling '
              'methods; canonical-form equality with log rules; value-kind '
              'typestate of the rejection sampler (mask vs index tuple, scalar '
              'vs array, draws per rejected slot); denotation of the operator '
              'overloads; CFG raising paths of the constructors'
              '; truth table of updated() over its guard atoms (declared bounds are k'
              'ept in every row); the value handed to a transformation per element is '
              'a draw of that element or the table entry keyed by its id; constants '
              'are repeated whole',
    level_text='Static, for every prior class and every parameter value at once: '
               'decides R1-R7.  R2/R3/R5 are proofs of the stated identities '
               '(as rational-function / log identities); R1/R4 decide that no '
               'sample leaves the declared support and that all methods use one '
               'support; R6 decides the arithmetic closure clauses.  Does not '
               'decide the statistical clause "samples follow the declared '
               'distribution" beyond independence of resampled slots.',
    level_note='Trusted: numpy.random.uniform/normal draw from the named '
               'distribution; scipy.stats.norm.pdf(x, mu, sd) = '
               'exp(-(x-mu)^2/(2 sd^2)) / (sd sqrt(2 pi)); log/exp identities '
               'for positive reals.',
)

P = 'holopy.core.prior.'
OUTSIDE = frozenset({('<', 'lower_bound'), ('>', 'upper_bound')})


def bound_name(t, selfsyms):
    """'lower_bound' for self.lower_bound / the constructor argument."""
    if t[0] == 'attr' and t[2] in ('lower_bound', 'upper_bound'):
        return t[2]
    if t[0] == 'sym' and t[1] in ('lower_bound', 'upper_bound'):
        return t[1]
    return show(t)


def outside_set(t, var):
    atoms = disjunction_atoms(t, var)
    if atoms is None:
        return None
    return frozenset((op, bound_name(b, None)) for op, b in atoms)


def method(prog, cq, name, selft=None, decide=None, args=None, depth=4, opaque=()):
    hit = prog.lookup(cq, name)
    if not hit:
        raise AnalysisError('%s.%s not found' % (cq, name))
    kind, owner, node = hit
    fd = node['getter'] if kind == 'property' else node
    it = Interp(prog, max_depth=depth, decide=decide, opaque=opaque)
    a = dict(args or {})
    if selft is not None:
        a[fd.args.args[0].arg] = selft
        it.types[selft] = cq
        it.types[sym(fd.args.args[0].arg)] = cq
    res = it.analyze(owner + '.' + fd.name, args=a, selfcls=cq)
    return it, res, owner, fd


def run(check, prog):
    check.explanation = (
        'Each prior class is evaluated symbolically: its constructor gives the '
        'object state, its methods give terms over that state; sibling methods '
        'are compared as predicates and as canonical rational / log forms.')
    check.trusted += ['numpy.random draws from the named distribution',
                      'scipy.stats.norm.pdf textbook formula', 'log/exp identities']
    canon = Canon(log_rules=True)
    r1_support(check, prog)
    r2_logdensity(check, prog, canon)
    r4_samplers(check, prog)
    r5_scale(check, prog, canon)
    r6_arithmetic(check, prog, canon)
    r7_constructors(check, prog, canon)
    r8_uniform_guess(check, prog, canon)
    r9_updated_support(check, prog)
    r10_ufunc_protocol(check, prog)
    r10b_operand_order(check, prog)
    r10c_zero_d_routing(check, prog)
    r11_shared_base_samples(check, prog)
    r12_complex_prior(check, prog)
    r13_unsupported_operands(check, prog)
    r14_refusal_propagates(check, prog)


def r14_refusal_propagates(check, prog):
    """R14: "a derived prior has no density of its own" is an error the library
    raises (NotImplementedError in Prior.lnprob / TransformedPrior.lnprob / prob);
    no density method of a prior class swallows it.  A handler in a density method
    names the one condition it is for -- a fixed number has no `lnprob` attribute:
    AttributeError -- and nothing that also covers the refusal (a bare `except`,
    Exception, NotImplementedError, RuntimeError): with the refusal swallowed, a
    complex prior with a derived part reports the density of a fixed number,
    non-zero outside its support."""
    m = prog.modules['holopy.core.prior']
    TOO_WIDE = {'NotImplementedError', 'RuntimeError', 'Exception', 'BaseException'}
    n = 0
    helpers = {x.name: x for x in m.tree.body if isinstance(x, ast.FunctionDef)}
    for cls in [x for x in m.tree.body if isinstance(x, ast.ClassDef)]:
        for fd0 in [x for x in cls.body if isinstance(x, ast.FunctionDef)
                    and x.name in ('lnprob', 'prob')]:
            # the method and the module-level helpers it calls by name
            called = {c.func.id for c in ast.walk(fd0) if isinstance(c, ast.Call)
                      and isinstance(c.func, ast.Name) and c.func.id in helpers}
            for fd, node in [(f, nd) for f in [fd0] + [helpers[h] for h in sorted(called)]
                             for nd in ast.walk(f)]:
                if not isinstance(node, ast.Try):
                    continue
                for h in node.handlers:
                    n += 1
                    types = []
                    if h.type is None:
                        types = ['<bare except>']
                    else:
                        for t in (h.type.elts if isinstance(h.type, ast.Tuple)
                                  else [h.type]):
                            types.append(ast.unparse(t).rpartition('.')[2])
                    wide = [t for t in types if t in TOO_WIDE or t == '<bare except>']
                    reraises = any(isinstance(x, ast.Raise) for x in ast.walk(h))
                    check.require(not wide or reraises, 'R14-refusal-propagates',
                                  '%s.%s handler at line %d' % (cls.name, fd.name,
                                                                h.lineno),
                                  'the handler is for a part without a density method '
                                  '(AttributeError), not for a refusal to give one',
                                  '%s:%d' % (m.relpath, h.lineno),
                                  fail_detail='catches %s: the NotImplementedError of a '
                                  'derived prior is swallowed and the part counted as a '
                                  'fixed number -- ComplexPrior(2 * Uniform(1, 2), '
                                  '0.5).prob(100 + 0.5j) is 1.0' % ', '.join(wide))
    check.note('R14 handlers in density methods of prior classes', str(n))


def r13_unsupported_operands(check, prog):
    """R13: "combining with unsupported types raises" -- at the operator, not later
    when the derived prior is first evaluated.  Every operator method of Prior
    that builds a derived prior itself is evaluated for an operand that is
    neither a number, a prior nor an array (every isinstance test on it fails):
    all paths must raise TypeError."""
    cq = P + 'Prior'
    c = prog.classes[cq]
    n = 0
    for mname, fd in sorted(c.methods.items()):
        if not (mname.startswith('__') and len(fd.args.args) == 2):
            continue
        builds = any(isinstance(x, ast.Call) and
                     ast.unparse(x.func).endswith('TransformedPrior') and x.args and
                     ast.unparse(x.args[0]).startswith('operator.')
                     for x in ast.walk(fd))
        if not builds:
            continue
        n += 1
        other = sym(fd.args.args[1].arg)

        def decide(t, other=other):
            if t[0] == 'call' and t[1] == 'isinstance' and len(t[2]) == 2 and \
                    t[2][0] == other:
                return False
            return None
        it = Interp(prog, max_depth=0, decide=decide)
        res = it.analyze(cq + '.' + mname)
        bad = [o for o in res.outcomes if o.kind != 'raise' or
               'TypeError' not in show(o.value)]
        check.require(not bad, 'R13-unsupported-operand', 'Prior.' + mname,
                      'an operand that is neither a number, a prior nor an array is '
                      'refused with TypeError by the operator itself',
                      prog.loc(cq, fd),
                      fail_detail='returns %s for such an operand: the error surfaces '
                      'only when the derived prior is evaluated (inside a model or a '
                      'fit)' % (show(bad[0].value)[:100] if bad and bad[0].value
                                is not None else None))
    check.floor('operator methods of Prior that build derived priors', n, 4)
    # the same operation spelled as a NumPy function arrives at __array_ufunc__:
    # every path that builds a derived prior from the operands as given holds a
    # test of the operands' types (isinstance over every operand)
    q = cq + '.__array_ufunc__'
    fdq = prog.func(q)
    it = Interp(prog, max_depth=0, inline_new=False)
    res = it.analyze(q)
    builds = [o for o in res.outcomes if o.kind == 'return' and o.value is not None
              and o.value[0] in ('new', 'call') and 'TransformedPrior' in show(o.value)]
    check.need('derived priors built in Prior.__array_ufunc__', len(builds), 1,
               'R13-unsupported-operand', 'Prior.__array_ufunc__ builds',
               'NumPy functions of a prior give derived priors', prog.loc(q, fdq))
    for o in builds:
        guarded = any(
            p is True and t[0] == 'call' and t[1] == 'all' and any(
                x[0] == 'call' and x[1] == 'isinstance' for x in subterms(t))
            or p is False and t[0] == 'call' and t[1] == 'any' and any(
                x[0] == 'un' and x[1] == 'not' and x[2][0] == 'call' and
                x[2][1] == 'isinstance' for x in subterms(t))
            for t, p in o.cond)
        check.require(guarded, 'R13-unsupported-operand', 'Prior.__array_ufunc__',
                      'a derived prior is built from the operands of a NumPy function '
                      'only after their types were tested', prog.loc(q, fdq),
                      fail_detail='__array_ufunc__ returns %s whatever the operands '
                      'are: np.power(prior, \'a\'), np.maximum(prior, None), '
                      'np.hypot(prior, None) are accepted and fail only when the '
                      'derived prior is evaluated, while prior ** \'a\' raises '
                      'TypeError at once' % show(o.value)[:70])


def r12_complex_prior(check, prog):
    """R12: a complex parameter with independent parts: ln p(z) = ln p_re(Re z) +
    ln p_im(Im z), a part that is a fixed number contributing 0 (its try/except
    falls back to 0); and prob = exp(lnprob)."""
    cq = P + 'ComplexPrior'
    it, res, owner, fd = method(prog, cq, 'lnprob', depth=1)
    loc = prog.loc(owner, fd)
    ret = res.ret
    me, p_ = sym('self'), sym(fd.args.args[1].arg)
    parts = {
        'real': ([intern(('idx', ('attr', me, 'base_prior'), num(0))),
                  intern(('attr', me, 'real'))],
                 [intern(('call', 'numpy.real', (p_,), ())), intern(('attr', p_, 'real'))]),
        'imag': ([intern(('idx', ('attr', me, 'base_prior'), num(1))),
                  intern(('attr', me, 'imag'))],
                 [intern(('call', 'numpy.imag', (p_,), ())), intern(('attr', p_, 'imag'))]),
    }
    ites = [x for x in subterms(ret) if x[0] == 'ite']
    found = {}
    for x in ites:
        for name, (objs, comps) in parts.items():
            if x[2][0] == 'call' and isinstance(x[2][1], tuple) and \
                    x[2][1][0] == 'attr' and x[2][1][2] == 'lnprob' and \
                    x[2][1][1] in objs and len(x[2][2]) == 1 and x[2][2][0] in comps \
                    and x[3] == num(0):
                found[name] = x
    ok = set(found) == {'real', 'imag'} and len(ites) == 2
    if ok:
        c0 = Canon()
        ok = c0.equal(ret, intern(('bin', '+', found['real'], found['imag'])))
    check.require(ok, 'R12-complex-prior', 'ComplexPrior.lnprob',
                  'ln p(z) = [ln p_re(Re z), or 0 for a fixed real part] + '
                  '[ln p_im(Im z), or 0 for a fixed imaginary part]', loc,
                  fail_detail='returns %s' % show(ret)[:200])
    it, res, owner, fd = method(prog, cq, 'prob', depth=0)
    p2 = sym(fd.args.args[1].arg)
    want = intern(('call', 'numpy.exp', (('call', ('attr', me, 'lnprob'), (p2,), ()),), ()))
    check.require(res.ret == want, 'R12-complex-prior', 'ComplexPrior.prob',
                  'prob = exp(lnprob)', prog.loc(owner, fd),
                  fail_detail='returns %s' % show(res.ret)[:120])


# ----------------------------------------------------------------------
def guarded(res, value_pred):
    """outcomes whose return value satisfies value_pred -> list of path conds"""
    return [o for o in res.outcomes if o.kind == 'return' and value_pred(o.value)]


def is_neg_inf(t):
    return t == ('un', '-', ('extref', 'numpy.inf')) or \
        (t[0] == 'un' and t[1] == '-' and t[2][0] == 'extref' and
         t[2][1].endswith('inf'))


def r1_support(check, prog):
    p = sym('p')
    for cname in ('Uniform', 'BoundedGaussian'):
        cq = P + cname
        for mname, isbad, what in (('prob', lambda v: v == num(0), '0'),
                                   ('lnprob', is_neg_inf, '-inf')):
            it, res, owner, fd = method(prog, cq, mname, depth=1)
            loc = prog.loc(owner, fd)
            construct = '%s.%s' % (cname, mname)
            outs = guarded(res, isbad)
            if len(outs) != 1 or len(outs[0].cond) != 1 or not outs[0].cond[0][1]:
                check.bad('R1-support-predicate', construct,
                          'expected exactly one guarded "return %s" path; found %d'
                          % (what, len(outs)), loc)
                continue
            s = outside_set(outs[0].cond[0][0], p)
            check.require(
                s == OUTSIDE, 'R1-support-predicate', construct,
                'returns %s exactly when p < lower_bound or p > upper_bound' % what,
                loc, fail_detail='%s returns %s when %s; the declared support is the '
                'closed interval [lower_bound, upper_bound] used by the sibling '
                'methods' % (construct, what, show(outs[0].cond[0][0])))
            # every other return is the in-support value
            rest = [o for o in res.outcomes if o.kind == 'return' and o is not outs[0]]
            check.require(len(rest) == 1, 'R1-single-inside-path', construct,
                          'one in-support return', loc)
    # constructor guess check of Uniform
    it = Interp(prog, max_depth=1)
    res = it.analyze(P + 'Uniform.__init__')
    fd = prog.func(P + 'Uniform.__init__')
    loc = prog.loc(P + 'Uniform', fd)
    g = sym('guess')
    found = False
    for o in res.raises:
        for t, pol in o.cond:
            s = outside_set(t, g) if pol else None
            if s is not None and s:
                found = True
                check.require(s == OUTSIDE, 'R1-support-predicate',
                              'Uniform.__init__ guess check',
                              'guess rejected exactly when outside [lower, upper]', loc,
                              fail_detail='guess rejected when %s' % show(t))
    check.require(found, 'R1-guess-checked', 'Uniform.__init__',
                  'an explicit guess outside the bounds is rejected', loc)
    # default guess lies in the support: midpoint when both bounds are finite
    fs = final_self(prog, P + 'Uniform', max_depth=2)
    it2, fr, selft, res2 = fs
    guess = it2.getattr_term(selft, 'guess', fr, ())
    canon = Canon()
    leaves = []

    def collect(t):
        if t[0] == 'ite':
            collect(t[2])
            collect(t[3])
        else:
            leaves.append(t)
    collect(guess)
    l, u = sym('lower_bound'), sym('upper_bound')
    allowed = [('midpoint', expr_term(prog, '(u + l) / 2', {'u': u, 'l': l})),
               ('lower', l), ('upper', u), ('zero', num(0)), ('given', sym('guess'))]
    for lf in leaves:
        nm = [n for n, t in allowed if canon.equal(lf, t)]
        check.require(bool(nm), 'R1-default-guess-in-support',
                      'Uniform default guess leaf %s' % (nm[0] if nm else show(lf)[:40]),
                      'default guess is the midpoint / a finite bound / 0', loc,
                      fail_detail='default guess %s is not one of midpoint, a bound, 0'
                      % canon.show(lf))
    check.require(any(canon.equal(lf, allowed[0][1]) for lf in leaves),
                  'R1-default-guess-in-support', 'Uniform midpoint',
                  'proper Uniform guesses its midpoint', loc)


# ----------------------------------------------------------------------
def r2_logdensity(check, prog, canon):
    p = sym('p')
    # ---- Uniform
    cq = P + 'Uniform'
    it, fr, selft, res = final_self(prog, cq, max_depth=3)
    owner, ifd = init_of(prog, cq)
    loc = prog.loc(cq, ifd)
    _, rl, _, _ = method(prog, cq, 'lnprob', selft=selft, depth=3)
    _, rp, _, _ = method(prog, cq, 'prob', selft=selft, depth=3)
    inside_ln = [o.value for o in rl.outcomes if o.kind == 'return' and not is_neg_inf(o.value)]
    inside_p = [o.value for o in rp.outcomes if o.kind == 'return' and o.value != num(0)]
    if len(inside_ln) != 1 or len(inside_p) != 1:
        raise AnalysisError('Uniform prob/lnprob: cannot isolate the in-support value')
    ln, pr = inside_ln[0], inside_p[0]
    # ln is ite(isfinite(interval), log(1/interval), improper constant)
    if ln[0] == 'ite':
        proper, improper = ln[2], ln[3]
        check.note('Uniform lnprob branches', show(ln[1]))
    else:
        proper, improper = ln, None
    logp = intern(('call', 'numpy.log', (pr,), ()))
    check.require(canon.equal(proper, logp), 'R2-log-density', 'Uniform (proper)',
                  'lnprob == log(prob) inside the support', loc,
                  fail_detail='lnprob = %s but log(prob) = %s' % (
                      canon.show(proper), canon.show(logp)))
    if improper is not None:
        # prob = 1/inf = 0 there; log 0 = -inf; a finite constant is a mismatch
        r = canon.rat(improper)
        finite_const = r.is_const()
        check.require(not finite_const, 'R2-log-density', 'Uniform (improper)',
                      'lnprob == log(prob) for an infinite interval', loc,
                      fail_detail='improper Uniform: lnprob is the finite constant %s '
                      'while prob = 1/interval = 0 (log 0 = -inf)' % canon.show(improper))
    # R3: integrates to one
    interval = it.getattr_term(selft, 'interval', fr, ())
    check.require(canon.equal(intern(('bin', '*', pr, interval)), num(1)),
                  'R3-uniform-normalised', 'Uniform.prob * interval',
                  'density times interval length is 1', loc,
                  fail_detail='prob*interval = %s' % canon.show(
                      intern(('bin', '*', pr, interval))))
    u, l = sym('upper_bound'), sym('lower_bound')
    check.require(canon.equal(interval, intern(('bin', '-', u, l))),
                  'R3-uniform-normalised', 'Uniform.interval',
                  'interval = upper_bound - lower_bound', loc)
    # ---- Gaussian
    cq = P + 'Gaussian'
    it, fr, selft, res = final_self(prog, cq, max_depth=3)
    owner, ifd = init_of(prog, cq)
    loc = prog.loc(cq, ifd)
    _, rl, _, _ = method(prog, cq, 'lnprob', selft=selft, depth=3)
    _, rp, _, _ = method(prog, cq, 'prob', selft=selft, depth=3)
    ln, pr = rl.ret, rp.ret
    mu, sd = sym('mu'), sym('sd')
    env = {'p': p, 'mu': mu, 'sd': sd}
    ok_pdf = pr[0] == 'call' and pr[1] == 'scipy.stats.norm.pdf' and \
        tuple(pr[2]) == (p, mu, sd) and not pr[3]
    check.require(ok_pdf, 'R2-log-density', 'Gaussian.prob',
                  'prob = scipy.stats.norm.pdf(p, mu, sd)', loc,
                  fail_detail='prob = %s' % show(pr)[:160])
    oracle = expr_term(prog, 'np.log(np.exp(-(p - mu)**2 / (2 * sd**2)) / '
                             '(sd * np.sqrt(2 * np.pi)))', env)
    check.require(canon.equal(ln, oracle), 'R2-log-density', 'Gaussian.lnprob',
                  'lnprob == log of the normal density with mean mu, sd sd', loc,
                  fail_detail='lnprob = %s, log N(p; mu, sd) = %s' % (
                      canon.show(ln), canon.show(oracle)))
    guess = it.getattr_term(selft, 'guess', fr, ())
    check.require(canon.equal(guess, mu), 'R1-default-guess-in-support',
                  'Gaussian.guess', 'guess is the mean', loc)
    # ---- BoundedGaussian: inside value is the parent's
    cq = P + 'BoundedGaussian'
    for mname in ('prob', 'lnprob'):
        itb, rb, owner, fd = method(prog, cq, mname, depth=1,
                                    opaque=[P + 'Gaussian.' + mname])
        inside = [o.value for o in rb.outcomes if o.kind == 'return'
                  and not is_neg_inf(o.value) and o.value != num(0)]
        ok = len(inside) == 1 and inside[0] == (
            'call', ('attr', sym('self'), mname), (p,), ())
        check.require(bool(ok), 'R2-log-density', 'BoundedGaussian.' + mname,
                      'inside the bounds the value is Gaussian.%s(p)' % mname,
                      prog.loc(owner, fd),
                      fail_detail='inside value is %s' % (
                          show(inside[0])[:120] if inside else None))
    # ---- ComplexPrior: prob = exp(lnprob); lnprob = real + imag parts
    cq = P + 'ComplexPrior'
    itc, rc, owner, fd = method(prog, cq, 'prob', depth=1,
                                opaque=[P + 'ComplexPrior.lnprob'])
    t = rc.ret
    ok = t[0] == 'call' and t[1] == 'numpy.exp' and t[2] and \
        t[2][0][0] == 'call' and t[2][0][1] == ('attr', sym('self'), 'lnprob')
    check.require(ok, 'R2-log-density', 'ComplexPrior.prob',
                  'prob = exp(lnprob)', prog.loc(owner, fd),
                  fail_detail='prob = %s' % show(t)[:120])


# ----------------------------------------------------------------------
MASK_OPS = ('numpy.logical_or', 'numpy.logical_and', 'numpy.logical_not')


def is_mask(t):
    if t[0] == 'cmp':
        return True
    if t[0] == 'call' and t[1] in MASK_OPS:
        return all(is_mask(x) for x in t[2])
    if t[0] == 'bin' and t[1] in ('|', '&'):
        return is_mask(t[2]) and is_mask(t[3])
    if t[0] == 'un' and t[1] == '~':
        return is_mask(t[2])
    return False


def r4_samplers(check, prog):
    # simple samplers: one numpy.random call with the declared parameters
    simple = {'Uniform': ('numpy.random.uniform', ['lower_bound', 'upper_bound']),
              'Gaussian': ('numpy.random.normal', ['mu', 'sd'])}
    for cname, (fn, pars) in simple.items():
        it, res, owner, fd = method(prog, P + cname, 'sample', depth=1)
        t = res.ret
        loc = prog.loc(owner, fd)
        ok = t[0] == 'call' and t[1] == fn
        if ok:
            args = list(t[2]) + [v for k, v in t[3] if k != 'size']
            want = [intern(('attr', sym('self'), a)) for a in pars]
            size = kw(t, 'size') or (t[2][2] if len(t[2]) > 2 else None)
            ok = args[:2] == want and size == sym('size')
        check.require(ok, 'R4-sampler-parameters', cname + '.sample',
                      '%s(%s, size)' % (fn, ', '.join(pars)), loc,
                      fail_detail='sample returns %s' % show(t)[:160])
    # BoundedGaussian: rejection loop
    cq = P + 'BoundedGaussian'
    it, res, owner, fd = method(prog, cq, 'sample', depth=1,
                                opaque=[P + 'Gaussian.sample'])
    loc = prog.loc(owner, fd)
    loops = [l for l in it.loops.values() if l['func'].endswith('BoundedGaussian.sample')]
    check.need('rejection loops in BoundedGaussian.sample', len(loops), 1,
               'R4-rejection-loop', 'BoundedGaussian.sample loop',
               'draws outside the bounds are redrawn in a loop', loc)
    if not loops:
        return
    lp = loops[0]
    construct = 'BoundedGaussian.sample'
    cond = lp['cond']
    # `while True: mask = ...; if not any(mask): break; resample` is the same loop
    # written with the test in the body: the array's step is then
    # (unchanged if not any(mask) else resampled); read the test off that
    dowhile = False
    if cond == TRUE:
        vars2 = dict(lp['vars'])
        for n_, (i0, st_) in lp['vars'].items():
            if st_ is None or st_[0] != 'ite':
                continue
            c_, a_, b_ = st_[1], st_[2], st_[3]
            neg = False
            while c_[0] == 'un' and c_[1] == 'not':
                c_, neg = c_[2], not neg
            stay, go = (a_, b_) if neg else (b_, a_)
            if stay[0] == 'phi' and stay[1] == n_ and go[0] == 'upd' and go[1] == stay \
                    and c_[0] == 'call' and c_[1] in ('numpy.any', 'any') and \
                    len(c_[2]) == 1:
                mvar = [m_ for m_, (mi, ms) in lp['vars'].items()
                        if ms is not None and ms == c_[2][0]]
                if len(mvar) == 1:
                    vars2[n_] = (i0, go)
                    cond = intern(('call', c_[1], (('phi', mvar[0], st_[1] and
                                                    stay[2]),), ()))
                    dowhile = True
        if dowhile:
            lp = dict(lp, vars=vars2, cond=cond)
    # (a) loop test: any(mask) on a boolean mask
    var = None
    ok = cond is not None and cond[0] == 'call' and cond[1] in ('numpy.any', 'any') \
        and len(cond[2]) == 1 and cond[2][0][0] == 'phi'
    if ok:
        var = cond[2][0][1]
    check.require(ok, 'R4-loop-tests-mask', construct,
                  'loop continues while any(mask)', loc,
                  fail_detail='loop condition is %s' % (show(cond) if cond else None))
    if var is None or var not in lp['vars']:
        return
    init, step = lp['vars'][var]
    lid = cond[2][0][2]
    phi_mask = intern(('phi', var, lid))
    check.require((init is not None and (is_mask(init) or init == TRUE)) or
                  (dowhile and init is None),
                  'R4-loop-tests-mask', construct + ' initial mask',
                  'the loop starts from a boolean mask (or True, do-while form)', loc,
                  fail_detail='initial value of %r is %s' % (
                      var, show(init)[:120] if init else None))
    check.require(step is not None and is_mask(step), 'R4-loop-tests-mask',
                  construct + ' recomputed mask',
                  'the value tested by the loop is a boolean mask (an index tuple '
                  'from np.where is truthy only if some index is non-zero)', loc,
                  fail_detail='the loop variable %r is recomputed as %s: not a boolean '
                  'mask, so the loop can stop while a rejected draw at index 0 has '
                  'just been replaced without being re-checked' % (
                      var, show(step)[:160] if step else None))
    # (b) the sample array
    arrs = [n for n, (i, s2) in lp['vars'].items()
            if s2 is not None and s2[0] == 'upd' and s2[2] == 'item']
    if len(arrs) != 1:
        check.bad('R4-resample-in-place', construct,
                  'expected one array updated in the loop, found %s' % arrs, loc)
        return
    vname = arrs[0]
    vinit, vstep = lp['vars'][vname]
    phi_val = vstep[1]
    # (c) scalar-safety
    wrapped = vinit[0] == 'call' and vinit[1] in ('numpy.atleast_1d', 'numpy.asarray',
                                                 'numpy.array')
    check.require(wrapped, 'R4-scalar-safe', construct,
                  'the first draw is made an array before it is mask-indexed '
                  '(size=None gives a scalar)', loc,
                  fail_detail='sample(size=None) is a scalar: %s is then '
                  'index-assigned' % show(vinit)[:120])
    # (d) which slots are replaced, and by how many fresh draws
    idx, val = vstep[3], vstep[4]

    def mask_of(ix):
        """the boolean mask selecting the slots `ix` addresses, or None"""
        if ix == phi_mask:
            return ix
        if is_mask(ix):
            return ix
        if ix[0] == 'call' and ix[1] in ('numpy.where', 'numpy.nonzero') and \
                len(ix[2]) == 1 and (is_mask(ix[2][0]) or ix[2][0] == phi_mask):
            return ix[2][0]
        return None
    M = mask_of(idx)
    okm = M is not None and (M == phi_mask or
                             outside_set(M, phi_val) == OUTSIDE)
    check.require(okm, 'R4-resample-in-place', construct + ' index',
                  'the slots replaced are exactly the rejected ones', loc,
                  fail_detail='slots replaced: %s' % show(idx)[:160])
    draws = [c for c in subterms(val) if c[0] == 'call' and (
        (isinstance(c[1], str) and c[1].endswith('.sample')) or
        (isinstance(c[1], tuple) and c[1][0] == 'attr' and c[1][2] == 'sample'))]
    okd = False
    detail = 'replacement value is %s' % show(val)[:160]
    if draws and M is not None:
        c = draws[0]
        cnt = [a for a in list(c[2]) + [v for k, v in c[3]] if a != sym('self')]
        if cnt:
            n = cnt[-1]
            wh = [intern(('call', f, (M,), ())) for f in ('numpy.where', 'numpy.nonzero')]
            forms = [('call', ('attr', M, 'sum'), (), ()),
                     ('call', 'numpy.sum', (M,), ()),
                     ('call', 'numpy.count_nonzero', (M,), ())]
            for w in wh:
                forms.append(('call', 'len', (('idx', w, num(0)),), ()))
            okd = any(n == intern(f) for f in forms)
            if not okd:
                detail = 'number of fresh draws is %s, not the number of rejected ' \
                         'slots' % show(n)[:120]
        else:
            detail = 'a single draw (%s) is broadcast into every rejected slot: the ' \
                     'resampled values are not independent draws' % show(c)[:120]
    check.require(okd, 'R4-one-draw-per-rejected-slot', construct,
                  'each rejected slot receives its own fresh draw', loc,
                  fail_detail=detail)
    # (e) the tested mask is the support predicate of the array at that point
    if step is not None and is_mask(step):
        s1 = outside_set(step, intern(vstep))
        s0 = outside_set(step, phi_val)
        check.require(OUTSIDE in (s0, s1), 'R1-support-predicate',
                      'BoundedGaussian.sample rejection mask',
                      'mask recomputed from the sampled values with '
                      'x < lower_bound or x > upper_bound', loc,
                      fail_detail='mask is %s' % show(step)[:200])
    if init is not None and is_mask(init):
        s0 = outside_set(init, vinit)
        check.require(s0 == OUTSIDE, 'R1-support-predicate',
                      'BoundedGaussian.sample initial mask',
                      'initial mask uses the support predicate', loc,
                      fail_detail='initial mask is %s' % show(init)[:200])
    # (f) the returned value is the loop's array (or its only element)
    ret = res.ret
    lt = [x for x in subterms(ret) if x[0] == 'loop' and x[1] == vname]
    # every returning path hands back that array (or its single element): a path
    # that returns draws which never went through the rejection leaves the
    # support
    leaves = []
    for o in res.returns:
        stack = [o.value]
        while stack:
            x = stack.pop()
            if x[0] == 'ite':
                stack += [x[2], x[3]]
            else:
                leaves.append(x)
    okr = bool(lt) and bool(leaves) and all(
        x == lt[0] or (x[0] == 'idx' and x[1] == lt[0] and x[2] == num(0))
        for x in leaves)
    check.require(okr, 'R4-returns-accepted-values', construct,
                  'every value returned is the array left by the rejection loop (or '
                  'its only element)', loc,
                  fail_detail='returns %s' % [show(x)[:80] for x in leaves][:4])


# ----------------------------------------------------------------------
def r5_scale(check, prog, canon):
    cq = P + 'Prior'
    _, rs, owner, fd = method(prog, cq, 'scale', depth=1)
    _, ru, _, _ = method(prog, cq, 'unscale', depth=1)
    sf = intern(('attr', sym('self'), 'scale_factor'))
    x = sym('x')

    def subst(t, name, val):
        if t == sym(name):
            return val
        if isinstance(t, tuple):
            return intern(tuple(subst(y, name, val) if isinstance(y, tuple) else y
                                for y in t))
        return t
    s = rs.ret
    u = subst(ru.ret, 'scaled', subst(s, 'physical', x))
    check.require(canon.equal(u, x), 'R5-scale-unscale-inverse', 'Prior.unscale(scale(x))',
                  'unscale(scale(x)) == x', prog.loc(owner, fd),
                  fail_detail='unscale(scale(x)) = %s' % canon.show(u))
    s2 = subst(rs.ret, 'physical', subst(ru.ret, 'scaled', x))
    check.require(canon.equal(s2, x), 'R5-scale-unscale-inverse', 'Prior.scale(unscale(x))',
                  'scale(unscale(x)) == x', prog.loc(owner, fd),
                  fail_detail='scale(unscale(x)) = %s' % canon.show(s2))
    # scale factors are positive by construction: abs(guess) or interval/10 or sd or 1
    for cname in ('Uniform', 'Gaussian'):
        it, fr, selft, res = final_self(prog, P + cname, max_depth=3)
        t = it.getattr_term(selft, 'scale_factor', fr, ())
        leaves = []
        lconds = {}

        def collect(t, cond=()):
            if t[0] == 'ite':
                collect(t[2], cond + ((t[1], True),))
                collect(t[3], cond + ((t[1], False),))
            else:
                leaves.append(t)
                lconds.setdefault(t, []).append(cond)
        collect(t)
        owner2, ifd = init_of(prog, P + cname)
        width = expr_term(prog, '(u - l)', {'u': sym('upper_bound'),
                                            'l': sym('lower_bound')})
        for lf in leaves:
            if canon.equal(lf, expr_term(prog, '(u - l)/10.', {
                    'u': sym('upper_bound'), 'l': sym('lower_bound')})):
                # a tenth of the interval is a usable scale only where the interval
                # is finite: every path to this leaf has tested exactly that
                def finite_width(cond):
                    for ct, pol in cond:
                        if pol and ct[0] == 'call' and ct[1] == 'numpy.isfinite' and \
                                len(ct[2]) == 1 and canon.equal(ct[2][0], width):
                            return True
                    fin = [ct[2][0] for ct, pol in cond if pol and ct[0] == 'call'
                           and ct[1] == 'numpy.isfinite' and len(ct[2]) == 1]
                    return sym('upper_bound') in fin and sym('lower_bound') in fin
                okf = all(finite_width(c_) for c_ in lconds[lf])
                check.require(okf, 'R5-scale-factor-nonzero',
                              '%s.scale_factor interval/10 guard' % cname,
                              'interval / 10 is used only where the interval is finite',
                              prog.loc(P + cname, ifd),
                              fail_detail='reached under %s: for a half-infinite prior '
                              'the scale factor is inf, scale(x) = 0 for every x and '
                              'unscale(scale(x)) is nan' % [
                                  [(show(ct)[:40], pol) for ct, pol in c_]
                                  for c_ in lconds[lf]][:1])
            good = (lf[0] == 'call' and lf[1] == 'numpy.abs') or lf == num(1) or \
                canon.equal(lf, sym('sd')) or any(
                    canon.equal(lf, expr_term(prog, '(u - l)/10.', {
                        'u': sym('upper_bound'), 'l': sym('lower_bound')})) for _ in [0])
            check.require(good, 'R5-scale-factor-nonzero',
                          '%s.scale_factor leaf %s' % (cname, canon.show(lf)[:50]),
                          '|guess| (when > 1e-12), interval/10, sd or 1', prog.loc(
                              P + cname, ifd),
                          fail_detail='scale factor %s may be zero or negative' %
                          canon.show(lf))


# ----------------------------------------------------------------------
OPS = {'operator.add': '+', 'operator.mul': '*', 'operator.sub': '-',
       'operator.truediv': '/', 'operator.pow': '**'}


def denote(prog, it, t):
    """Denotation of a prior-valued term as ordinary arithmetic."""
    if t[0] == 'new' and t[1] == P + 'TransformedPrior':
        kws = dict(t[3])
        tr, bp = kws.get('transformation'), kws.get('base_prior')
        items = bp[1] if bp is not None and bp[0] in ('list', 'tuple') else (bp,)
        args = [denote(prog, it, x) for x in items]
        if tr is not None and tr[0] == 'extref' and tr[1] in OPS and len(args) == 2:
            return intern(('bin', OPS[tr[1]], args[0], args[1]))
        if tr is not None and tr[0] == 'funcref':
            fd = prog.func(tr[1])
            fr = Frame(prog.module_of(tr[1]), None, None, None, 0, tr[1])
            return denote(prog, it, it.inline(tr[1], fd, None, None, args, {}, fr, ()))
        raise AnalysisError('unknown transformation %s' % show(tr))
    if t[0] == 'bin':
        return intern(('bin', t[1], denote(prog, it, t[2]), denote(prog, it, t[3])))
    if t[0] == 'un':
        return intern(('un', t[1], denote(prog, it, t[2])))
    if t[0] == 'ite':
        raise AnalysisError('undecided branch in operator method: %s' % show(t[1]))
    return t


def r6_arithmetic(check, prog, canon):
    cq = P + 'Prior'
    s, v = sym('self'), sym('value')

    def scenario(kind):
        def decide(t):
            # isinstance(value, (Number/Real, Prior))
            if t[0] == 'call' and t[1] == 'isinstance':
                tgt = show(t[2][1])
                if kind == 'array':
                    return 'ndarray' in tgt
                if kind == 'zero-d':
                    # a 0-d array; what its .item() is an instance of is a number
                    if t[2][0] == v:
                        return 'ndarray' in tgt
                    return any(k in tgt for k in ('Number', 'Real', 'float', 'int'))
                if kind in ('number', 'zero', 'one'):
                    return any(k in tgt for k in ('Number', 'Real', 'Prior', 'float',
                                                  'int', 'Complex'))
                return False
            if t[0] == 'cmp' and t[1] == '==' and t[2] == v:
                if t[3] == num(0):
                    return kind == 'zero'
                if t[3] == num(1):
                    return kind == 'one'
            if t[0] == 'cmp' and t[1] == '==' and t[2] == ('attr', v, 'ndim') and \
                    t[3] == num(0):
                return kind == 'zero-d'
            return None
        return decide
    # inline the primitive operators so that e.g. __sub__ = self + (-value)
    # is judged by what __add__ / __mul__ finally build
    spec = {'__add__': 's + v', '__radd__': 'v + s', '__sub__': 's - v',
            '__rsub__': 'v - s', '__mul__': 's * v', '__rmul__': 'v * s',
            '__truediv__': 's / v', '__rtruediv__': 'v / s', '__neg__': '-s',
            '__pow__': 's ** v', '__rpow__': 'v ** s'}
    for name, src in sorted(spec.items()):
        it, res, owner, fd = method(prog, cq, name, decide=scenario('number'), depth=2)
        loc = prog.loc(owner, fd)
        try:
            got = denote(prog, it, res.ret)
        except AnalysisError as e:
            check.error('Prior.%s: %s' % (name, e))
            continue
        want = expr_term(prog, src, {'s': s, 'v': v})
        check.require(canon.equal(got, want), 'R6-operator-denotation', 'Prior.' + name,
                      '%s denotes %s' % (name, src), loc,
                      fail_detail='Prior.%s builds %s, the overloaded operator means %s'
                      % (name, canon.show(got), src))
    # identities and rejections
    it, res, owner, fd = method(prog, cq, '__add__', decide=scenario('zero'), depth=1)
    check.require(res.ret == s, 'R6-identities', 'Prior.__add__(0)',
                  'prior + 0 is the prior itself', prog.loc(owner, fd),
                  fail_detail='returns %s' % show(res.ret)[:80])
    it, res, owner, fd = method(prog, cq, '__mul__', decide=scenario('one'), depth=1)
    check.require(res.ret == s, 'R6-identities', 'Prior.__mul__(1)',
                  'prior * 1 is the prior itself', prog.loc(owner, fd),
                  fail_detail='returns %s' % show(res.ret)[:80])
    it, res, owner, fd = method(prog, cq, '__mul__', decide=scenario('zero'), depth=1)
    outs = res.outcomes
    ok = len(outs) == 1 and outs[0].kind == 'raise' and 'TypeError' in show(outs[0].value)
    check.require(ok, 'R6-identities', 'Prior.__mul__(0)', 'prior * 0 raises TypeError',
                  prog.loc(owner, fd))
    for name in ('__add__', '__mul__'):
        it, res, owner, fd = method(prog, cq, name, decide=scenario('foreign'), depth=1)
        outs = res.outcomes
        ok = len(outs) == 1 and outs[0].kind == 'raise' and \
            'TypeError' in show(outs[0].value)
        check.require(ok, 'R6-identities', 'Prior.%s(foreign type)' % name,
                      'unsupported operand types raise TypeError', prog.loc(owner, fd))
    # arrays: the operator is applied element by element
    for name, op in (('__add__', '+'), ('__mul__', '*')):
        it, res, owner, fd = method(prog, cq, name, decide=scenario('array'), depth=0)
        r = res.ret
        ok = r[0] == 'call' and r[1] == 'numpy.array' and len(r[2]) == 1
        if ok:
            c = r[2][0]
            if c[0] == 'call' and c[1] == 'list' and len(c[2]) == 1:
                c = c[2][0]
            ok = c[0] == 'comp' and len(c[3]) == 1 and c[3][0][1] == v and \
                c[2] in (('bin', op, s, c[3][0][0]), ('bin', op, c[3][0][0], s))
        check.require(ok, 'R6-operator-denotation', 'Prior.%s(array)' % name,
                      'prior %s array = array of (prior %s element)' % (op, op),
                      prog.loc(owner, fd), fail_detail='returns %s' % show(r)[:120])
    # a 0-d array (the .values of a reduction) is one number: it takes the path of
    # numbers -- with its identities and refusals -- not the element-wise one
    item = intern(('call', ('attr', v, 'item'), (), ()))
    for name, op in (('__add__', '+'), ('__mul__', '*')):
        it, res, owner, fd = method(prog, cq, name, decide=scenario('zero-d'), depth=0)
        vals = [o.value for o in res.outcomes if o.value is not None]
        bare = False
        for t in vals + [c_ for o in res.outcomes for c_, _ in o.cond]:
            for x in subterms(t):
                if x[0] in ('comp', 'loop') and v in set(subterms(x)):
                    bare = True           # iterated over
                if x[0] == 'bin' and v in (x[2], x[3]):
                    bare = True           # combined as it is
                if x[0] == 'cmp' and x[2] == v and x[1] in ('==', '!='):
                    bare = True
        uses_item = any(item in set(subterms(t)) for t in vals +
                        [c_ for o in res.outcomes for c_, _ in o.cond])
        check.require(uses_item and not bare, 'R6-zero-d-operand',
                      'Prior.%s(0-d array)' % name,
                      'a 0-d array operand is unwrapped to the number it holds before '
                      'the type dispatch', prog.loc(owner, fd),
                      fail_detail='the 0-d array is %s: `prior %s np.array(0.)` fails '
                      'with "iteration over a 0-d array" and `np.array(0.) %s prior` '
                      'builds a derived prior where the number 0 %s' % (
                          'iterated / combined as it is' if bare else 'not unwrapped',
                          op, op, 'is refused' if op == '*' else 'gives the prior'))
    # __array_ufunc__
    it, res, owner, fd = method(prog, cq, '__array_ufunc__', depth=1)
    normal = res.returns
    PAIRS = {'numpy.add': 'operator.add', 'numpy.subtract': 'operator.sub',
             'numpy.multiply': 'operator.mul', 'numpy.true_divide': 'operator.truediv',
             'numpy.divide': 'operator.truediv', 'numpy.negative': 'operator.neg',
             'numpy.power': 'operator.pow'}

    def name_of(t):
        return t[1] if t[0] in ('extref', 'funcref', 'global') else None

    def leaf_ok(v):
        if v[0] == 'ite':
            return leaf_ok(v[2]) and leaf_ok(v[3])
        if v[0] == 'new' and v[1] == P + 'TransformedPrior' and \
                dict(v[3]).get('transformation') == sym('ufunc') and \
                dict(v[3]).get('base_prior') == sym('*args'):
            return True
        # routed to the Python operator of the same name (which has the zero and
        # identity rules): TABLE[ufunc](*args), TABLE pairing numpy.f with operator.f
        if v[0] == 'call' and v[1][0] == 'idx' and v[1][2] == sym('ufunc') and \
                v[1][1][0] == 'dict':
            return all(PAIRS.get(name_of(k)) == name_of(x) for k, x in v[1][1][1])
        return False
    ok = bool(normal) and all(leaf_ok(o.value) for o in normal)
    check.require(ok, 'R6-ufunc', 'Prior.__array_ufunc__',
                  'np.f(prior, ...) = TransformedPrior(f, args), or the Python operator '
                  'of the same name for the arithmetic ufuncs', prog.loc(owner, fd),
                  fail_detail='returns %s' % [show(o.value)[:100] for o in normal])
    # TransformedPrior.guess / sample: transformation applied position-wise
    tq = P + 'TransformedPrior'
    it, res, owner, fd = method(prog, tq, 'guess', depth=1)
    t = res.ret
    loc = prog.loc(owner, fd)
    ok = False
    if t[0] == 'call' and t[1] == ('attr', s, 'transformation') and len(t[2]) == 1 \
            and t[2][0][0] == 'star' and t[2][0][1][0] == 'comp':
        comp = t[2][0][1]
        elt, gens = comp[2], comp[3]
        if len(gens) == 1 and gens[0][1] == ('attr', s, 'base_prior') and not gens[0][2]:
            e = gens[0][0]
            ok = elt[0] == 'ite' and elt[2] == ('attr', e, 'guess') and elt[3] == e \
                and elt[1][0] == 'call' and elt[1][1] == 'isinstance'
    check.require(ok, 'R6-transformed-guess', 'TransformedPrior.guess',
                  'guess = transformation(*[bp.guess if Prior else bp])', loc,
                  fail_detail='guess = %s' % show(t)[:200])
    it, res, owner, fd = method(prog, tq, 'sample', depth=1)
    loc = prog.loc(owner, fd)
    rets = res.returns
    ok = len(rets) == 2
    if ok:
        scalar = [o for o in rets if any(
            t2 == ('cmp', 'is', sym('size'), NONE) and pol for t2, pol in o.cond)]
        arr = [o for o in rets if o not in scalar]
        ok = len(scalar) == 1 and len(arr) == 1
        if ok:
            t = assume(scalar[0].value, scalar[0].cond)
            ok = t[0] == 'call' and t[1] == ('attr', s, 'transformation') and \
                t[2] and t[2][0][0] == 'star'
            raw = t[2][0][1] if ok else None
            if ok:
                ok = raw[0] == 'comp' and raw[3][0][1] == ('attr', s, 'base_prior')
                e = raw[3][0][0]
                elt = raw[2]
                ok = ok and elt[0] == 'ite' and elt[3] == e and \
                    drawn_from(elt[2], e)
            t2 = assume(arr[0].value, arr[0].cond)
            ok = ok and any(c[1] == ('attr', s, 'transformation') and c[2] and
                            c[2][0][0] == 'star' for c in subterms(t2) if c[0] == 'call') \
                and bool(calls_in(t2, 'zip'))
    # a constant among the operands takes part in every sample set as it is: an
    # array-valued constant (arr * p, np.hypot(p, [3, 4])) that goes through
    # np.repeat / np.tile without an axis is flattened into its elements, and the
    # zip over the sample sets then pairs draw k with element k of the flat copy
    if ok:
        flat = [c for c in subterms(t2) if c[0] == 'call' and c[1] in (
            'numpy.repeat', 'numpy.tile', 'numpy.full') and c[2] and
            c[2][0][0] == 'elem' and not dict(c[3]).get('axis')]
        check.require(not flat, 'R6-constants-repeated-whole', 'TransformedPrior.sample',
                      'a constant operand is handed to every sample set whole', loc,
                      fail_detail='%s flattens an array-valued constant: (np.array([10., '
                      '20.]) * p).sample(3) has shape (3,) and multiplies every draw by '
                      '10' % show(flat[0])[:60] if flat else '')
    opaque = [c for o in rets for c in subterms(o.value)
              if c[0] == 'call' and isinstance(c[1], tuple) and c[1][0] == 'closure']
    if not ok and opaque:
        # a local function the evaluator could not unfold (it calls itself: a
        # recursive descent into the operands): the element's origin is not
        # visible -- undecided, not a violation
        check.error('R6-transformed-sample: TransformedPrior.sample hands its operands '
                    'to a recursive local function (%s); the origin of the values '
                    'passed to the transformation is beyond the inlining bound -- '
                    'undecided' % loc)
        return
    check.require(ok, 'R6-transformed-sample', 'TransformedPrior.sample',
                  'samples = transformation applied to the base samples, set by set',
                  loc, fail_detail='returns %s' % [show(o.value)[:120] for o in rets])


def drawn_from(t, e):
    """t is a sample of the prior e: e.sample(...), or the entry kept under
    id(e) in a table of the draws made so far (itself filled with e.sample(...))"""
    if t[0] == 'call' and t[1] == ('attr', e, 'sample'):
        return True
    if t[0] == 'ite':
        return drawn_from(t[2], e) and drawn_from(t[3], e)
    key = intern(('call', 'id', (e,), ()))
    if t[0] == 'idx' and t[2] == key:
        def table(c):
            if c[0] == 'ite':
                return table(c[2]) and table(c[3])
            if c[0] == 'upd' and c[2] == 'item':
                if c[3] == key:
                    return drawn_from(c[4], e)
                return table(c[1])
            # the table as it was handed in: earlier draws, keyed the same way
            return c[0] in ('sym', 'dict', 'ite')
        return table(t[1])
    return False


# ----------------------------------------------------------------------
def r8_uniform_guess(check, prog, canon):
    """Uniform: the guess is the caller's when given (and inside the bounds),
    otherwise a point of the support; the scale factor is positive."""
    import itertools
    from hpstatic.logic import select
    fs = final_self(prog, P + 'Uniform')
    it, fr, selft, res = fs
    owner, fd = init_of(prog, P + 'Uniform')
    loc = prog.loc(owner, fd)
    l, u, g = sym('lower_bound'), sym('upper_bound'), sym('guess')
    gt = it.getattr_term(selft, 'guess', fr, ())
    GN = intern(('cmp', 'is', g, NONE))
    FL = intern(('call', 'numpy.isfinite', (l,), ()))
    FU = intern(('call', 'numpy.isfinite', (u,), ()))
    ok = True
    detail = ''
    n = 0
    for gn, fl, fu in itertools.product((True, False), repeat=3):
        asg = {GN: gn, FL: fl, FU: fu}
        leaf = select(gt, lambda t: asg.get(t))
        n += 1
        if not gn:
            good = leaf == g
            want = 'the given guess'
        elif fl and fu:
            good = leaf is not None and canon.equal(leaf, intern(
                ('bin', '/', ('bin', '+', l, u), num(2))))
            want = 'the midpoint'
        elif fl:
            good, want = leaf == l, 'the lower bound'
        elif fu:
            good, want = leaf == u, 'the upper bound'
        else:
            good, want = leaf == num(0), '0'
        if not good:
            ok = False
            detail = 'guess given=%s, finite lower=%s, finite upper=%s: expected %s, ' \
                'found %s' % (not gn, fl, fu, want, show(leaf)[:60] if leaf else None)
    check.require(ok, 'R8-uniform-guess', 'Uniform.__init__ guess',
                  'a given guess is kept; the default is the midpoint / the finite bound '
                  '/ 0 -- always a point of the support (%d rows)' % n, loc,
                  fail_detail=detail)
    rs = [o for o in res.outcomes if o.kind == 'raise']
    outside = [o for o in rs if any(t == GN and not p for t, p in norm_cond(o.cond))]
    ok = len(outside) == 1
    if ok:
        cs = [(t, p) for t, p in beyond_guards(outside[0].cond, res) if t != GN]
        ok = len(cs) == 1 and cs[0][1] is True and cs[0][0][0] == 'bool' and \
            cs[0][0][1] == 'or' and {lt_form(x) for x in cs[0][0][2]} == {
                ('<', g, l), ('<', u, g)}
    check.require(ok, 'R8-uniform-guess', 'Uniform.__init__ guess outside',
                  'a guess below the lower or above the upper bound is rejected (and '
                  'only such a guess)', loc)


def r7_constructors(check, prog, canon):
    def raising_conds(cname):
        it = Interp(prog, max_depth=1)
        res = it.analyze(P + cname + '.__init__')
        fd = prog.func(P + cname + '.__init__')
        out = []
        for o in res.raises:
            last = o.cond[-1] if o.cond else None
            out.append((o, last))
        return res, out, prog.loc(P + cname, fd)
    # Uniform: lower >= upper
    res, rs, loc = raising_conds('Uniform')
    l, u = sym('lower_bound'), sym('upper_bound')
    ok = any(c is not None and c[1] and cmp_is(c[0], '>=', l, u) for o, c in rs)
    check.require(ok, 'R7-constructor-rejects', 'Uniform(lower >= upper)',
                  'raises when lower_bound >= upper_bound', loc,
                  fail_detail='raising conditions: %s' % [
                      show(c[0]) for o, c in rs if c])
    res, rs, loc = raising_conds('Gaussian')
    sd = sym('sd')
    ok = any(c is not None and c[1] and cmp_is(c[0], '<=', sd, num(0)) for o, c in rs)
    check.require(ok, 'R7-constructor-rejects', 'Gaussian(sd <= 0)',
                  'raises when sd <= 0', loc,
                  fail_detail='raising conditions: %s' % [show(c[0]) for o, c in rs if c])
    res, rs, loc = raising_conds('BoundedGaussian')
    mu = sym('mu')
    ok = False
    for o, c in rs:
        if c is None or not c[1]:
            continue
        f = nnf(c[0])
        items = f[1] if f[0] == 'or' else [f]
        atoms = set()
        for itm in items:
            if itm[0] == 'atom' and itm[1][0] == 'cmp':
                atoms.add(lt_form(itm[1]))
        need = {('<', mu, l), ('<', u, mu)}
        if need <= atoms and (lt_form(('cmp', '==', l, u)) in atoms
                              or ('<=', u, l) in atoms):
            ok = True
    check.require(ok, 'R7-constructor-rejects', 'BoundedGaussian(mu outside / empty)',
                  'raises when mu < lower, mu > upper or lower == upper', loc,
                  fail_detail='raising conditions: %s' % [show(c[0]) for o, c in rs if c])
    # the Gaussian check runs for BoundedGaussian too (super().__init__)
    it = Interp(prog, max_depth=3)
    res = it.analyze(P + 'BoundedGaussian.__init__')
    inl = [e for e in it.effects if e['kind'] == 'inlined-raise' and
           e['callee'].endswith('Gaussian.__init__')]
    check.require(bool(inl), 'R7-constructor-rejects', 'BoundedGaussian(sd <= 0)',
                  'delegates to Gaussian.__init__, which rejects sd <= 0', loc)


def r9_updated_support(check, prog):
    """R9: updating a prior from a posterior never widens its support.

    `updated(prior, v)` of a prior that declares bounds is a BoundedGaussian with
    those same bounds (a missing one defaulting to the infinite side) -- whatever
    other tests the function makes; an unbounded prior gives a Gaussian."""
    import itertools
    from hpstatic.logic import select, guard_atoms
    q = P + 'updated'
    if not prog.has_func(q):
        return
    fd = prog.func(q)
    loc = prog.loc(q, fd)
    it = Interp(prog, max_depth=1, inline_new=False)
    v = it.analyze(q).ret
    pr = sym(fd.args.args[0].arg)
    atoms = guard_atoms(v)
    has = {s: intern(('call', 'hasattr', (pr, ('const', s)), ())) for s in
           ('lower_bound', 'upper_bound')}
    inf = ('extref', 'numpy.inf')
    ninf = intern(('un', '-', inf))

    def bound_ok(t, side):
        name = side + '_bound'
        dflt = ninf if side == 'lower' else inf
        return t == ('attr', pr, name) or \
            t == ('call', 'getattr', (pr, ('const', name), dflt), ())
    bad = []
    rows = 0
    for vals in itertools.product((True, False), repeat=len(atoms)):
        asg = dict(zip(atoms, vals))
        hl, hu = asg.get(has['lower_bound']), asg.get(has['upper_bound'])
        leaf = select(v, lambda t: asg.get(t))
        rows += 1
        # bounded: either test says so (every bounded prior of the package declares
        # both); rows where the function does not ask are decided by what it asks
        bounded = bool(hl) or bool(hu) or (hl is None and hu is None and not atoms)
        row = ', '.join('%s=%s' % (show(a)[:40], b) for a, b in asg.items())
        if leaf is None:
            bad.append(row + ': undecided')
            continue
        if hl is None and hu is None and atoms:
            bounded = None
        if bounded or bounded is None:
            if leaf[0] == 'new' and leaf[1] == P + 'BoundedGaussian':
                names = ['mu', 'sd', 'lower_bound', 'upper_bound', 'name']
                s = dict(zip(names, leaf[2]))
                s.update(dict(leaf[3]))
                if not (bound_ok(s.get('lower_bound', NONE), 'lower') and
                        bound_ok(s.get('upper_bound', NONE), 'upper')):
                    bad.append(row + ': bounds become (%s, %s)' % (
                        show(s.get('lower_bound', NONE))[:40],
                        show(s.get('upper_bound', NONE))[:40]))
            elif bounded:
                bad.append(row + ': a bounded prior is updated to %s' % show(leaf)[:60])
            else:
                # the function has not established that the prior is unbounded
                bad.append(row + ': %s is returned without knowing that the prior '
                           'declares no bounds (a one-sided bound is lost)' % show(leaf)[:40])
        else:
            if not (leaf[0] == 'new' and leaf[1] in (P + 'Gaussian', P + 'BoundedGaussian')):
                bad.append(row + ': result %s' % show(leaf)[:60])
    check.require(not bad and rows >= 2, 'R9-updated-support', 'updated',
                  'a prior with declared bounds is updated to a BoundedGaussian with the '
                  'same bounds in every case (%d rows)' % rows, loc,
                  fail_detail='; '.join(bad[:3]))


def r10_ufunc_protocol(check, prog):
    """R10: the zero / identity rules of prior arithmetic hold whichever operand
    NumPy dispatches on.

    Prior defines __array_ufunc__, so for `np.float64(0) * prior`, `arr[0] + prior`
    or an explicit `np.multiply(prior, 0)` NumPy never falls back to __rmul__ /
    __radd__: it calls prior.__array_ufunc__(np.multiply, '__call__', 0.0, prior).
    "Multiplying by 0 raises, adding 0 or multiplying by 1 returns the prior
    itself" therefore needs __array_ufunc__ to treat the arithmetic ufuncs like
    the operators -- its result must depend on *which* ufunc it was given."""
    q = P + 'Prior.__array_ufunc__'
    if not prog.has_func(q):
        return
    fd = prog.func(q)
    loc = prog.loc(q, fd)
    it = Interp(prog, max_depth=0, inline_new=False)
    res = it.analyze(q)
    uf = sym(fd.args.args[1].arg)
    # every outcome that builds a TransformedPrior straight from the ufunc must sit
    # on a path that has first looked at the ufunc (is / == / in / dict lookup)
    bad = []
    for o in res.returns:
        v = o.value
        direct = v[0] == 'new' and v[1].endswith('TransformedPrior') and (
            uf in v[2] or uf in [x for k_, x in v[3]])
        if not direct:
            continue
        looked = any(any(x == uf for x in subterms(ct)) for ct, pol in o.cond)
        if not looked:
            bad.append(' and '.join(('' if p else 'not ') + show(t)[:50] for t, p in o.cond))
    # the arithmetic operators themselves do have the rules (R6 checks their form)
    mul = prog.has_func(P + 'Prior.__mul__')
    check.require(not bad and mul, 'R10-ufunc-protocol', 'Prior.__array_ufunc__',
                  'arithmetic ufuncs (add, subtract, multiply, divide, negative) get the '
                  'zero / identity treatment of the operators', loc,
                  fail_detail='TransformedPrior(ufunc, args) is returned for every ufunc '
                  'under [%s]: np.float64(0) * prior is a prior (it should raise), '
                  'np.float64(1) * prior and np.float64(0) + prior are new objects (they '
                  'should be the prior itself)' % '; '.join(bad)[:160])


def r10c_zero_d_routing(check, prog):
    """R10c: an operand is kept off the operators' route (and handed to NumPy's
    element-wise semantics) only if it is an array *with axes*: a 0-d array -- the
    .values of a reduction -- is one number, and `np.array(0.) * prior` must be
    refused like `0 * prior`.  Rule: every test in __array_ufunc__ that asks whether
    an operand is an ndarray in order to choose the route also asks for its rank."""
    q = P + 'Prior.__array_ufunc__'
    if not prog.has_func(q):
        return
    fd = prog.func(q)
    loc = prog.loc(q, fd)
    it = Interp(prog, max_depth=0, inline_new=False)
    res = it.analyze(q)
    tests = set()
    for o in res.outcomes:
        for ct, pol in o.cond:
            for x in subterms(ct):
                if x[0] == 'comp' and any(
                        y[0] == 'call' and y[1] == 'isinstance' and
                        show(y[2][1]) in ('numpy.ndarray',) for y in subterms(x[2])):
                    tests.add(x)
    n = 0
    for x in sorted(tests, key=show):
        # (the type check of the operands -- isinstance(arg, (Number, Prior,
        # np.ndarray, ...)) -- names ndarray among others: not a routing test)
        n += 1
        ranked = any(y[0] == 'attr' and y[2] in ('ndim', 'shape', 'size')
                     for y in subterms(x[2]))
        check.require(ranked, 'R10-zero-d-routing', 'Prior.__array_ufunc__ routing test',
                      'an ndarray operand is sent the element-wise way only if it has '
                      'axes (ndim > 0)', loc,
                      fail_detail='%s: a 0-d array counts as an array -- np.array(0.) * '
                      'prior builds a derived prior with guess 0 where 0 * prior raises, '
                      'np.array(1.) * prior is a new object' % show(x)[:100])
    check.note('R10c routing tests on ndarray operands', str(n))


def r10b_operand_order(check, prog):
    """R10b: subtraction, division and powers do not commute: when __array_ufunc__
    hands an arithmetic ufunc to the Python operator, the operator must receive
    the operands in the order NumPy delivered them (np.float64(3) - prior is
    3 - prior, not prior - 3).  On every returning path that calls something
    looked up by the ufunc, the arguments are `*args` itself or one unfiltered
    element-wise conversion of it."""
    q = P + 'Prior.__array_ufunc__'
    if not prog.has_func(q):
        return
    fd = prog.func(q)
    loc = prog.loc(q, fd)
    it = Interp(prog, max_depth=0, inline_new=False)
    res = it.analyze(q)
    uf = sym(fd.args.args[1].arg)
    va = sym('*' + fd.args.vararg.arg) if fd.args.vararg else None
    n = 0
    for o in res.returns:
        v = o.value
        if not (v[0] == 'call' and isinstance(v[1], tuple) and v[1][0] == 'idx' and
                v[1][2] == uf):
            continue
        n += 1
        args = v[2]
        ok = len(args) == 1 and args[0][0] == 'star'
        detail = 'arguments %s' % show(('tuple', args))[:160]
        if ok:
            a = args[0][1]
            if a == va:
                ok = True
            else:
                # one comprehension over *args, no filter, each element mapped to
                # itself or a conversion of itself
                ok = a[0] == 'comp' and len(a[3]) == 1 and a[3][0][1] == va and \
                    not a[3][0][2]
                if ok:
                    el = a[3][0][0]

                    def leaves(t):
                        return leaves(t[2]) + leaves(t[3]) if t[0] == 'ite' else [t]
                    ok = all(l == el or (l[0] == 'call' and isinstance(l[1], tuple) and
                                         l[1][0] == 'attr' and l[1][1] == el and
                                         l[1][2] in ('item', 'tolist') and not l[2]) or
                             (l[0] == 'call' and l[1] in ('float', 'complex', 'int') and
                              l[2] == (el,))
                             for l in leaves(a[2]))
        check.require(ok, 'R10-ufunc-protocol', 'Prior.__array_ufunc__ operand order',
                      'the operator gets the operands in the order of the ufunc call',
                      loc, fail_detail=detail + ': np.float64(3) - prior would be '
                      'evaluated as prior - 3')
    check.floor('operator-routing returns of __array_ufunc__', n, 1)


def r11_shared_base_samples(check, prog):
    """R11: "samples equal the same operation applied to the base prior's samples".

    When one base prior occurs several times in an expression (u - u, u / u, g * g,
    also across nesting levels), the operation is applied to *one* sample of it --
    as the guess (one value per prior object) and the parameter map (one parameter
    per prior object, by identity) do.  A sampler that draws afresh for every
    occurrence cannot satisfy this; drawing once per distinct object needs the
    draws to be keyed by the object (a memo by identity handed to nested calls)."""
    q = P + 'TransformedPrior.sample'
    fd = prog.func(q)
    loc = prog.loc(q, fd)
    it = Interp(prog, max_depth=0)
    res = it.analyze(q)
    me = sym(fd.args.args[0].arg)
    bp = intern(('attr', me, 'base_prior'))
    per_occurrence = False
    keyed = False
    for o in res.returns:
        for x in subterms(o.value):
            if x[0] == 'comp' and any(g[1] == bp for g in x[3]):
                e = [g[0] for g in x[3] if g[1] == bp][0]
                if any(y[0] == 'call' and y[1] == ('attr', e, 'sample')
                       for y in subterms(x[2])):
                    per_occurrence = True
            if x[0] == 'call' and x[1] == 'id':
                keyed = True
    names = {a.arg for a in fd.args.args} | {a.arg for a in fd.args.kwonlyargs}
    keyed = keyed or bool(names & {'memo', '_memo', 'cache', 'drawn'})
    check.require(keyed or not per_occurrence, 'R11-shared-base-samples',
                  'TransformedPrior.sample',
                  'a base prior that occurs several times is sampled once', loc,
                  fail_detail='every element of base_prior is sampled on its own '
                  '(`bp.sample(size) for bp in self.base_prior`), with nothing keyed by '
                  'the prior object: (u - u).sample(1000) spans [-1.9, 2.0] and (g * g) '
                  'is negative half of the time, while the guesses are 0 and g**2 and '
                  'the parameter map ties the two occurrences')
    # "also across nesting levels": a table of draws keyed by id(prior) that stays
    # private to one call is empty again inside every operand that is itself a
    # derived prior -- (x*2 - x) draws x twice.  The table has to reach the nested
    # level: handed to a call (bp.sample(size, memo), a helper), or walked by a local
    # function that descends into an operand's own base_prior.
    import ast as _ast
    tables = set()
    for n in _ast.walk(fd):
        if isinstance(n, _ast.Subscript) and isinstance(n.value, _ast.Name) and \
                isinstance(n.slice, _ast.Call) and isinstance(n.slice.func, _ast.Name) \
                and n.slice.func.id == 'id':
            tables.add(n.value.id)
        if isinstance(n, _ast.Compare) and len(n.ops) == 1 and \
                isinstance(n.ops[0], (_ast.In, _ast.NotIn)) and \
                isinstance(n.comparators[0], _ast.Name) and \
                isinstance(n.left, _ast.Call) and isinstance(n.left.func, _ast.Name) \
                and n.left.func.id == 'id':
            tables.add(n.comparators[0].id)
    if tables:
        handed = False
        for n in _ast.walk(fd):
            if isinstance(n, _ast.Call):
                fname = n.func.id if isinstance(n.func, _ast.Name) else None
                if fname in ('id', 'len', 'isinstance', 'print', 'dict', 'list'):
                    continue
                args = list(n.args) + [k.value for k in n.keywords]
                if any(isinstance(a, _ast.Name) and a.id in tables for a in args):
                    handed = True
        selfname = fd.args.args[0].arg
        for n in _ast.walk(fd):
            if n is not fd and isinstance(n, (_ast.FunctionDef, _ast.Lambda)):
                uses = any(isinstance(x, _ast.Name) and x.id in tables
                           for x in _ast.walk(n))
                descends = any(isinstance(x, _ast.Attribute) and x.attr == 'base_prior'
                               and not (isinstance(x.value, _ast.Name) and
                                        x.value.id == selfname) for x in _ast.walk(n))
                if uses and descends:
                    handed = True
        # ... and in the slot it is read from: a nested `.sample(...)` call is a call
        # of this very method, so the table must arrive in the parameter the table is
        # initialised from (`memo = {} if _memo is None else _memo`)
        params = [a.arg for a in fd.args.args]
        table_params = {t for t in tables if t in params}
        for n in _ast.walk(fd):
            if isinstance(n, _ast.Assign) and any(
                    isinstance(t, _ast.Name) and t.id in tables for t in n.targets):
                table_params |= {x.id for x in _ast.walk(n.value)
                                 if isinstance(x, _ast.Name) and x.id in params}
        misplaced = []
        for n in _ast.walk(fd):
            if isinstance(n, _ast.Call) and isinstance(n.func, _ast.Attribute) and \
                    n.func.attr == 'sample' and table_params:
                for i, a in enumerate(n.args):
                    if isinstance(a, _ast.Name) and a.id in tables and \
                            i + 1 < len(params) and params[i + 1] not in table_params:
                        misplaced.append((params[i + 1], n.lineno))
                for k in n.keywords:
                    if isinstance(k.value, _ast.Name) and k.value.id in tables and \
                            k.arg in params and k.arg not in table_params:
                        misplaced.append((k.arg, n.lineno))
        check.require(not misplaced, 'R11-draws-shared-across-levels',
                      'TransformedPrior.sample table slot',
                      'the table is handed to the nested sample() in the parameter it is '
                      'read from', loc,
                      fail_detail='the table arrives as %s: the nested call then reads '
                      'the table as the sample size' % misplaced)
        check.require(handed, 'R11-draws-shared-across-levels', 'TransformedPrior.sample',
                      'the table of draws made so far reaches operands that are derived '
                      'priors themselves', loc,
                      fail_detail='the table %s keyed by id(prior) is never handed to a '
                      'call nor walked into an operand\'s own base_prior: a derived '
                      'operand starts from an empty table, so for x = Uniform(0, 1) '
                      '(x*2 - x).sample(n) draws x twice and spans [-1, 2] while its '
                      'guess is x.guess' % sorted(tables))
