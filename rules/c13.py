"""C13  Fitting: bounds, scaling, names, reusability, saved results.

Decides from the source:
  L1  parameters are kept within their prior's bounds: in each least-squares
      strategy the prior reaches the optimiser -- as limits (the scaled prior
      bounds are stored in the optimiser's parameter table, enabled exactly when
      the bound is finite) or as a residual term that reaches the *returned*
      residual vector;
  L2  scaling is consistent: start values are scale(guess), results are
      unscale(.) zipped with the same parameter list (unscale(scale(x)) == x is
      C14's R5);
  L3  the result's names are the model's _parameter_names, in order, in every
      fit strategy;
  L4  model, data and strategy stay reusable: fit() does not modify model or
      data; the attributes initialize_fit creates are exactly those
      cleanup_from_fit deletes, created before and deleted after the minimiser
      runs; subset selection is reproducible for every seed (shared with C07);
  L5  a saved result reloads: the keys FitResult writes are the keys it reads;
      serialising does not modify the result; the best-fit hologram of a
      subset fit is rebuilt on the remembered axes (C07); model and strategy
      objects round-trip (C15's constructor-closure and Model.from_yaml rules,
      run here on the inference classes);
  L6  fit(): a bare scatterer gets the default model; strategy names map to
      the documented classes; a sampling strategy is rejected.
  L7  result bookkeeping: in both least-squares strategies the returned
      FitResult gets the fit's data (or its flattened / sub-sampled form), the
      fit's model and the strategy itself, each in its own constructor slot;
      interval i is UncertainValue(fitted value i, unscaled error i, name i);
      the residual handed to the optimiser is model._residuals(values, data,
      model._find_noise(values, data)) with every argument in the slot the
      callee declares, followed (nmpfit) by sqrt(lnprior(guess) - lnprior(value))
      per parameter, prior i evaluated at value i; Model._residuals is
      (forward - data) / noise;
  L8  the reported best fit is the forward model at the reported parameters:
      FitResult._parameters / _names / parameters are read position-wise from
      the intervals; .hologram is forward(_parameters), .max_lnprob is
      model.lnposterior(_parameters, data), each computed once and remembered
      under its own attribute; forward() calls model.forward(pars, schema).
Not decided: fixed point, monotone improvement, recovery, repeatability of the
numbers (optimiser dynamics).
"""
import ast

from hpstatic.effects import writes
from hpstatic.interp import Interp, Frame
from hpstatic.loader import AnalysisError, norm_src
from hpstatic.terms import (sym, intern, show, subterms, calls_in, NONE, num, kw,
                            TRUE, FALSE)
from . import c07, c15
from .common import init_of, init_params, final_self, path_has, as_difference, call_args, term_args
from hpstatic.logic import cmp_is

MUTATION_TARGETS = {'holopy/inference/nmpfit.py': ['fit', 'initialize_fit', 'calc_residuals', 'cleanup_from_fit', 'minimize', 'unscale_pars_from_minimizer', 'get_errors_from_minimizer'], 'holopy/inference/scipyfit.py': ['fit', 'minimize', 'unscale_pars_from_minimizer'], 'holopy/inference/result.py': ['_serialize_as_dataset', '_unserialize', 'forward'], 'holopy/inference/interface.py': ['fit', 'validate_strategy']}

LEVEL = 'other'
META = dict(
    claimed=True,
    technique='def-use (dependence) analysis of prior bounds into the optimiser '
              'call and of the prior term into the returned residual; typestate of '
              'per-fit attributes (created / deleted sets and order); key-table '
              'agreement of the result serialiser; effect analysis'
              '; must-store / partition analysis of the result payload through local '
              'aliases, pack/unpack pairing by effect, restored-name coverage from th'
              "e strategies' result construction sites"
              "; distinct cache names of a result's remembered quantities; writer/reader pairing of the fitted image's name; subset test of FitResult.forward on the flat dimension; deep evaluation of Lens.raw_fields for surviving constructor-time state",
    level_text='Static: L1-L6 are decided for every model / data (they are facts '
               'about which values reach which call and which attributes exist '
               'when).  Optimiser dynamics (fixed point, monotone improvement, '
               'parameter recovery) cannot be decided statically and are not '
               'claimed.',
    level_note='Trusted: nmpfit honours parinfo limits; scipy least_squares with '
               "method='lm' ignores bounds; np.append returns a new array.",
)

INF = 'holopy.inference.'
N = INF + 'nmpfit.NmpfitStrategy'
S = INF + 'scipyfit.LeastSquaresScipyStrategy'
R = INF + 'result.FitResult'
MD = 'holopy.core.metadata.'


def run(check, prog):
    check.explanation = (
        'The strategies\' fit / minimize / residual functions are evaluated into '
        'terms; the rule follows prior bounds and prior residuals to the optimiser '
        'call, compares created/deleted attribute sets, and compares the keys the '
        'result writer and reader use.')
    bounds(check, prog)
    scaling(check, prog)
    names(check, prog)
    reusable(check, prog)
    saved(check, prog)
    payload(check, prog)
    minimiser_internals(check, prog)
    limit_sides(check, prog)
    probe_inside_limit(check, prog)
    per_parameter_limits(check, prog)
    flat_index_roundtrip(check, prog)
    # bounds are inclusive on both sides of the hand-off: the optimiser's limits
    # table and the prior's own support predicate (rule shared with C14)
    from . import c14
    c14.r1_support(check, prog)
    entry(check, prog)
    default_model_centre(check, prog)
    assembly(check, prog)
    reported(check, prog)
    wiring(check, prog)


# ----------------------------------------------------------------------
def _parinfo_entry(it, fd, parinfo):
    """The per-parameter entry of the table handed to mpfit, the parameter it is
    built for, and whether the table holds exactly one entry per parameter in
    order -- for the two ways of building it: a loop appending to a list, or a
    list comprehension over the parameters."""
    P = sym(fd.args.args[1].arg)
    if parinfo is None:
        return None
    if parinfo[0] == 'comp' and parinfo[1] == 'list' and len(parinfo[3]) == 1 and \
            parinfo[3][0][1] == P and not parinfo[3][0][2]:
        return parinfo[2], parinfo[3][0][0], True
    if parinfo[0] != 'loop':
        return None
    lp = dname = tname = None
    for l in it.loops.values():
        if l['iter'] != P:
            continue
        for n_, (i0, st_) in l['vars'].items():
            if st_ is None:
                continue
            # the per-parameter entry: the dict holding 'limits' / 'value'
            if any(x[0] == 'dict' and any(k in (('const', 'limits'), ('const', 'value'))
                                          for k, _ in x[1])
                   for x in subterms(st_)) and not (st_[0] == 'mut'):
                lp, dname = l, n_
        for n_, (i0, st_) in l['vars'].items():
            if st_ is not None and st_[0] == 'mut' and st_[2] == 'append':
                tname = n_
    if lp is None:
        return None
    d = lp['vars'][dname][1]
    pars = [x for x in subterms(d) if x[0] == 'elem' and x[1] == P]
    if not pars:
        return None
    st = lp['vars'].get(tname, (None, None))[1]
    return d, pars[0], (st is not None and st[0] == 'mut' and st[2] == 'append'
                        and st[3] == (d,))


def bounds(check, prog):
    # ---- nmpfit: limits table
    q = N + '.minimize'
    fd = prog.func(q)
    loc = prog.loc(q, fd)
    it = Interp(prog, max_depth=1, opaque=[N + '.unscale_pars_from_minimizer'],
                inline_new=False)
    res = it.analyze(q)
    mp = [c for c in it.calls if c['name'].endswith('nmpfit.mpfit')]
    ok = len(mp) == 1
    if not ok:
        check.bad('L1-bounds-reach-optimiser', 'NmpfitStrategy.minimize',
                  'no single mpfit call', loc)
    else:
        parinfo = dict(mp[0]['kwargs']).get('parinfo')
        entry = _parinfo_entry(it, fd, parinfo)
        okp = entry is not None
        check.require(okp, 'L1-bounds-reach-optimiser', 'NmpfitStrategy parinfo',
                      'mpfit receives the parameter table built from the priors', loc,
                      fail_detail='parinfo = %s' % (show(parinfo)[:120] if parinfo else None))
        if okp:
            d, par, per_parameter = entry
            for side, idx, attr, cmpop, inf in (
                    ('lower', 0, 'lower_bound', '>', intern(('un', '-', ('extref', 'numpy.inf')))),
                    ('upper', 1, 'upper_bound', '<', intern(('extref', 'numpy.inf')))):
                bound = intern(('attr', par, attr))
                want = intern(('call', ('attr', par, 'scale'), (bound,), ()))
                lim = [x for x in subterms(d) if x[0] == 'upd' and x[2] == 'item' and
                       x[3] == num(idx) and x[4] == want]
                en = [x for x in subterms(d) if x[0] == 'upd' and x[2] == 'item' and
                      x[3] == num(idx) and x[4] == TRUE]
                # guarded by hasattr(par, bound) and bound finite
                guard = [x for x in subterms(d) if x[0] == 'ite' and
                         any(cmp_is(y, cmpop, bound, inf) for y in subterms(x[1]))]
                # ... and both stores happen exactly when the bound exists and is finite
                hb = intern(('call', 'hasattr', (par, ('const', attr)), ()))
                sts = [e for e in it.effects if e['kind'] == 'setitem' and
                       e['key'] == num(idx) and e['value'] in (want, TRUE)]

                def when(e):
                    cs = [(t, p) for t, p in e['cond'] if t[0] != 'loop-iter']
                    if len(cs) != 1 or not cs[0][1] or cs[0][0][0] != 'bool' or \
                            cs[0][0][1] != 'and':
                        return False
                    parts = cs[0][0][2]
                    return len(parts) == 2 and hb in parts and any(
                        cmp_is(y, cmpop, bound, inf) for y in parts)
                good = bool(lim) and bool(en) and bool(guard) and len(sts) == 2 and \
                    all(when(e) for e in sts)
                check.require(good, 'L1-bounds-reach-optimiser',
                              'NmpfitStrategy %s bound' % side,
                              "limits[%d] = scale(prior.%s) and limited[%d] = True "
                              'whenever the bound is finite' % (idx, attr, idx), loc,
                              fail_detail='the %s bound of the prior does not reach the '
                              'optimiser\'s limits table' % side)
            # the table holds one entry per parameter
            check.require(per_parameter,
                          'L1-bounds-reach-optimiser', 'NmpfitStrategy table',
                          'one entry per parameter, in order', loc)
    q = N + '.calc_residuals'
    fd = prog.func(q)
    it = Interp(prog, max_depth=1)
    res = it.analyze(q)
    v = res.ret
    ok = v[0] == 'call' and v[1] == 'numpy.append' and len(v[2]) == 2 and \
        bool(calls_in(v[2][0], '_residuals')) and bool(calls_in(v[2][1], 'lnprob'))
    check.require(ok, 'L1-prior-residual-returned', 'NmpfitStrategy.calc_residuals',
                  'returned residuals = data residuals followed by the prior residuals',
                  prog.loc(q, fd), fail_detail='returns %s' % show(v)[:200])
    # ---- scipy: residual closure
    q = S + '.fit'
    fd = prog.func(q)
    loc = prog.loc(q, fd)
    it = Interp(prog, max_depth=1, inline_new=False, opaque=[
        S + '.minimize', S + '._calculate_unit_noise_errors_from_fit', MD + 'flat',
        MD + 'make_subset_data', S + '.unscale_pars_from_minimizer'])
    res = it.analyze(q)
    mc = [c for c in it.calls if c['name'] == S + '.minimize']
    ok = len(mc) == 1 and mc[0]['args'][-1][0] == 'closure'
    if not ok:
        check.bad('L1-prior-residual-returned', 'LeastSquaresScipyStrategy.fit',
                  'cannot find the residual function handed to minimize', loc)
    else:
        node_c, cenv, cframe = it.closures[mc[0]['args'][-1][1]]
        fr = Frame(cframe.module, cframe.owner, cframe.selfcls, cframe.selfname, 0,
                   q + '.<residual>')
        val = it.inline_closure(node_c, cenv, cframe, [sym('rescaled_values')], {}, fr, ())
        dep_prior = bool(calls_in(val, '_lnprior')) or bool(calls_in(val, 'lnprob')) or \
            bool(calls_in(val, 'lnprior'))
        q2 = S + '.__init__'
        it2 = Interp(prog, max_depth=1)
        r2 = it2.analyze(q2)
        ok_kwargs = None
        for e in it2.effects:
            if e['kind'] == 'setattr' and e['attr'] == '_optimizer_kwargs' and \
                    e['value'][0] == 'dict':
                ok_kwargs = {k[1]: v for k, v in e['value'][1]}
        has_bounds = ok_kwargs is not None and 'bounds' in ok_kwargs
        check.require(dep_prior or has_bounds, 'L1-prior-reaches-optimiser',
                      'LeastSquaresScipyStrategy.fit residual',
                      'the prior reaches the optimiser through the residual vector or '
                      'through bounds', loc,
                      fail_detail='the residual function returns %s: the prior z-score '
                      'is computed but its np.append(...) result is discarded, and '
                      'least_squares is called without bounds (method=%s): priors and '
                      'bounds never reach the optimiser' % (
                          show(val)[:160],
                          show(ok_kwargs.get('method')) if ok_kwargs else '?'))


# ----------------------------------------------------------------------
def scaling(check, prog):
    # nmpfit
    q = N + '.minimize'
    fd = prog.func(q)
    loc = prog.loc(q, fd)
    it = Interp(prog, max_depth=1, opaque=[N + '.unscale_pars_from_minimizer'],
                inline_new=False)
    res = it.analyze(q)
    mp = [c for c in it.calls if c['name'].endswith('nmpfit.mpfit')]
    entry = _parinfo_entry(it, fd, dict(mp[0]['kwargs']).get('parinfo')) \
        if len(mp) == 1 else None
    ok = entry is not None
    if ok:
        d, par, _ = entry
        want = intern(('call', ('attr', par, 'scale'), (('attr', par, 'guess'),), ()))
        ok = any(x[0] == 'dict' and any(k == ('const', 'value') and v == want
                                        for k, v in x[1]) for x in subterms(d))
    check.require(ok, 'L2-start-values-scaled', 'NmpfitStrategy.minimize',
                  "start value of each parameter = prior.scale(prior.guess)", loc)
    un = [c for c in it.calls if c['name'] == N + '.unscale_pars_from_minimizer']
    ok = bool(un) and all(any(y[0] == 'attr' and y[2] == 'params' for y in subterms(c['args'][-1]))
                          for c in un)
    check.require(ok, 'L2-results-unscaled', 'NmpfitStrategy.minimize',
                  'fitted values are unscaled before they are returned', loc)
    q = N + '.unscale_pars_from_minimizer'
    it = Interp(prog, max_depth=1)
    res = it.analyze(q)
    v = res.ret
    comp = [x for x in subterms(v) if x[0] == 'comp']
    ok = bool(comp)
    if ok:
        c = comp[0]
        itr = c[3][0][1]
        P = intern(('attr', sym('self'), '_parameters'))
        ok = itr == ('call', 'zip', (P, sym('values')), ())
        if ok:
            lid = c[3][0][0][2]
            ok = c[2] == ('call', ('attr', ('elem', P, lid), 'unscale'),
                          (('elem', sym('values'), lid),), ())
    check.require(ok, 'L2-results-unscaled', 'NmpfitStrategy.unscale_pars_from_minimizer',
                  'value i is unscaled with prior i (zip over the same lists)',
                  prog.loc(q, prog.func(q)), fail_detail='returns %s' % show(v)[:200])
    # the residual wrapper unscales before calling the objective
    q = N + '.minimize'
    it = Interp(prog, max_depth=1, opaque=[N + '.unscale_pars_from_minimizer'],
                inline_new=False)
    res = it.analyze(q)
    def own_methods(t):
        # methods of the strategy called in t (by qualified name, or as an
        # attribute of self)
        out = []
        for x in subterms(t):
            if x[0] != 'call':
                continue
            if isinstance(x[1], str) and x[1].startswith(N + '.'):
                out.append(x[1])
            elif isinstance(x[1], tuple) and x[1][0] == 'attr' and \
                    x[1][2] in prog.classes[N].methods:
                base = x[1][1]
                while base[0] == 'upd':
                    base = base[1]
                if base == sym('self'):
                    out.append(N + '.' + x[1][2])
        return [m_ for m_ in out if m_ != N + '.unscale_pars_from_minimizer']

    mp = [c for c in it.calls if c['name'].endswith('nmpfit.mpfit')]
    ok = bool(mp) and mp[0]['args'] and mp[0]['args'][0][0] == 'closure'
    if ok:
        node_c, cenv, cframe = it.closures[mp[0]['args'][0][1]]
        fr = Frame(cframe.module, cframe.owner, cframe.selfcls, cframe.selfname, 0, q)
        val = it.inline_closure(node_c, cenv, cframe, [sym('P')], {}, fr, ())
        ok = val[0] == 'list' and len(val[1]) == 2 and val[1][0] == num(0) and \
            val[1][1][0] == 'call' and val[1][1][1] == sym('obj_func')
        handed = val[1][1][2][0] if ok else None

        def unscaled(t):
            # through unscale_pars_from_minimizer, directly or inside a method of
            # the strategy that the wrapper calls
            if calls_in(t, 'unscale_pars_from_minimizer'):
                return True
            for qm in own_methods(t):
                try:
                    r2 = Interp(prog, max_depth=0).analyze(qm).ret
                except AnalysisError:
                    continue
                if r2 is not None and calls_in(r2, 'unscale_pars_from_minimizer'):
                    return True
            return False
        ok = ok and unscaled(handed)
    check.require(ok, 'L2-objective-sees-physical-values', 'NmpfitStrategy resid_wrapper',
                  'the objective is evaluated at unscaled (physical) parameter values',
                  loc)
    # ... that lie inside the bounds the minimizer was given.  mpfit keeps the
    # *scaled* value within the scaled limits; scale / unscale is x / s * s, exact
    # only up to rounding, and one ulp beyond a bound the prior density is zero:
    # the prior residual at the limit itself is infinite, every step onto the bound
    # is rejected, and the fit stops short of it (or returns a value outside).
    # Rule: what reaches the objective, and what minimize returns, has been
    # clamped to the parameter's lower and upper bound.
    def clamped(t):
        for qm in own_methods(t):
            try:
                r2 = Interp(prog, max_depth=0).analyze(qm).ret
            except AnalysisError:
                continue
            if r2 is not None and clamped(r2):
                return True
        names_ = {y[2] if y[0] == 'attr' else (y[2][1][1] if len(y[2]) > 1 and
                                                 y[2][1][0] == 'const' else None)
                  for x in subterms(t) if x[0] == 'call' and x[1] in (
                      'min', 'max', 'numpy.clip', 'numpy.minimum', 'numpy.maximum')
                  for y in subterms(x) if (y[0] == 'attr' and y[2] in (
                      'lower_bound', 'upper_bound')) or (
                      y[0] == 'call' and y[1] == 'getattr' and len(y[2]) >= 2)}
        return {'lower_bound', 'upper_bound'} <= names_
    q = N + '.minimize'
    it2 = Interp(prog, max_depth=0, inline_new=False)
    res2 = it2.analyze(q)
    ret_ok = res2.ret is not None and res2.ret[0] == 'tuple' and clamped(res2.ret[1][0])
    check.require(handed is not None and clamped(handed) and ret_ok,
                  'L12-values-within-bounds', 'NmpfitStrategy.minimize',
                  'the values given to the objective and the values returned are '
                  'clamped to the priors\' bounds', loc,
                  fail_detail='an unscaled value is used as it comes: '
                  'Uniform(4.41, 6.71, 6.08).unscale(scale(6.71)) is 6.710000000000001, '
                  'where lnprob is -inf -- the fit with that guess meets an infinite '
                  'residual at its own bound (9 of 52 evaluations) and returns r '
                  '0.0021 (6 sigma) away from the fit with guess 6.07')
    # scipy
    q = S + '.minimize'
    fd = prog.func(q)
    it = Interp(prog, max_depth=1, opaque=[S + '.unscale_pars_from_minimizer'])
    res = it.analyze(q)
    ls = [c for c in it.calls if c['name'] == 'scipy.optimize.least_squares']
    ok = len(ls) == 1
    if ok:
        g = ls[0]['args'][1]
        ok = g[0] == 'comp' and g[3][0][1] == sym('parameters')
        if ok:
            e = g[3][0][0]
            ok = g[2] == ('call', ('attr', e, 'scale'), (('attr', e, 'guess'),), ()) and \
                ls[0]['args'][0] == sym('residuals_function')
    check.require(ok, 'L2-start-values-scaled', 'LeastSquaresScipyStrategy.minimize',
                  'start values = [p.scale(p.guess) for p in parameters]',
                  prog.loc(q, fd))
    v = res.ret
    ok = v[0] == 'tuple' and bool(calls_in(v[1][0], 'unscale_pars_from_minimizer'))
    check.require(ok, 'L2-results-unscaled', 'LeastSquaresScipyStrategy.minimize',
                  'fitted values are unscaled before they are returned', prog.loc(q, fd))


# ----------------------------------------------------------------------
def names(check, prog):
    for q, modelterm in ((N + '.get_errors_from_minimizer',
                          ('attr', ('attr', sym('self'), '_model'), '_parameter_names')),
                         (S + '.fit', ('attr', sym('model'), '_parameter_names'))):
        fd = prog.func(q)
        it = Interp(prog, max_depth=1, inline_new=False, opaque=[
            S + '.minimize', S + '._calculate_unit_noise_errors_from_fit', MD + 'flat',
            MD + 'make_subset_data', S + '.unscale_pars_from_minimizer',
            N + '.unscale_pars_from_minimizer'])
        res = it.analyze(q)
        uv = [c for c in it.calls if c['name'].endswith('UncertainValue')]
        ok = bool(uv)
        for c in uv:
            nm = dict(c['kwargs']).get('name')
            ok = ok and nm is not None and nm[0] == 'elem' and nm[1] == intern(modelterm)
        check.require(ok, 'L3-result-names', q.rpartition('.')[0].rpartition('.')[2] +
                      '.' + q.rpartition('.')[2],
                      "each interval is named by the model's _parameter_names, in order",
                      prog.loc(q, fd))
    q = INF + 'cmaes.CmaStrategy.fit'
    fd = prog.func(q)
    it = Interp(prog, max_depth=1, inline_new=False, opaque=[
        INF + 'cmaes.run_cma', MD + 'make_subset_data'])
    res = it.analyze(q)
    uv = [c for c in it.calls if c['name'].endswith('UncertainValue')]
    ok = bool(uv)
    for c in uv:
        nm = dict(c['kwargs']).get('name')
        ok = ok and nm is not None and nm[0] == 'elem' and \
            nm[1] == ('attr', sym(fd.args.args[1].arg), '_parameter_names')
    check.require(ok, 'L3-result-names', 'CmaStrategy.fit',
                  "intervals are named by model._parameter_names", prog.loc(q, fd))


# ----------------------------------------------------------------------
def attrs_set(prog, q):
    fd = prog.func(q)
    sn = fd.args.args[0].arg
    out = set()
    for n in ast.walk(fd):
        if isinstance(n, ast.Attribute) and isinstance(n.value, ast.Name) and \
                n.value.id == sn and isinstance(n.ctx, ast.Store):
            out.add(n.attr)
    return out


def attrs_del(prog, q):
    fd = prog.func(q)
    sn = fd.args.args[0].arg
    out = set()
    for n in ast.walk(fd):
        if isinstance(n, ast.Delete):
            for t in n.targets:
                if isinstance(t, ast.Attribute) and isinstance(t.value, ast.Name) and \
                        t.value.id == sn:
                    out.add(t.attr)
    return out


def reusable(check, prog):
    created = attrs_set(prog, N + '.initialize_fit')
    deleted = attrs_del(prog, N + '.cleanup_from_fit')
    loc = prog.loc(N, prog.func(N + '.cleanup_from_fit'))
    check.require(created == deleted and len(created) >= 3, 'L4-per-fit-state',
                  'NmpfitStrategy initialize_fit / cleanup_from_fit',
                  'attributes created %s == attributes deleted' % sorted(created), loc,
                  fail_detail='initialize_fit creates %s but cleanup_from_fit deletes %s: '
                  '%s survive(s) the fit and leak(s) into the next one / into the saved '
                  'strategy' % (sorted(created), sorted(deleted),
                                sorted(created ^ deleted)))
    q = N + '.fit'
    fd = prog.func(q)
    it = Interp(prog, max_depth=1, inline_new=False, opaque=[
        N + '.initialize_fit', N + '.minimize', N + '.get_errors_from_minimizer',
        N + '.cleanup_from_fit'])
    res = it.analyze(q)
    order = [c['name'].rpartition('.')[2] for c in it.calls
             if c['name'].startswith(N + '.')]
    want = ['initialize_fit', 'minimize', 'get_errors_from_minimizer', 'cleanup_from_fit']
    pos = [order.index(w) if w in order else -1 for w in want]
    check.require(all(p >= 0 for p in pos) and pos == sorted(pos), 'L4-per-fit-state',
                  'NmpfitStrategy.fit order',
                  'state is created first, used by the minimiser and the error '
                  'estimate, and deleted before returning', prog.loc(q, fd),
                  fail_detail='call order in fit(): %s' % order)
    # per-fit attributes are read only between create and delete
    reads_elsewhere = set()
    c = prog.classes[N]
    # (methods fit() reaches, directly or through the methods it calls, run between
    # creation and deletion of that state)
    during = {'fit'}
    work = ['fit']
    while work:
        mfd0 = c.methods.get(work.pop())
        if mfd0 is None:
            continue
        sn0 = mfd0.args.args[0].arg if mfd0.args.args else None
        for n in ast.walk(mfd0):
            if isinstance(n, ast.Attribute) and isinstance(n.value, ast.Name) and \
                    n.value.id == sn0 and n.attr in c.methods and n.attr not in during:
                during.add(n.attr)
                work.append(n.attr)
    for mname, mfd in c.methods.items():
        if mname in during:
            continue
        sn = mfd.args.args[0].arg if mfd.args.args else None
        for n in ast.walk(mfd):
            if isinstance(n, ast.Attribute) and isinstance(n.value, ast.Name) and \
                    n.value.id == sn and n.attr in created:
                reads_elsewhere.add((mname, n.attr))
    check.require(not reads_elsewhere, 'L4-per-fit-state', 'NmpfitStrategy other methods',
                  'no other method depends on per-fit state', loc,
                  fail_detail='%s' % sorted(reads_elsewhere))
    # fit() does not modify model or data
    for q in (N + '.fit', S + '.fit', N + '.initialize_fit'):
        fd = prog.func(q)
        it = Interp(prog, max_depth=2, inline_new=False, opaque=[
            N + '.minimize', S + '.minimize', MD + 'make_subset_data', MD + 'flat',
            S + '._calculate_unit_noise_errors_from_fit',
            INF + 'result.FitResult.__init__'])
        res = it.analyze(q)
        bad = [e for e, st, rs in writes(it) if any(
            r[0] == 'param' and r[1] in ('model', 'data') for r in rs) and
            ('maybe-fresh',) not in rs]
        short = q.split('.')[-2] + '.' + q.split('.')[-1]
        check.require(not bad, 'L4-inputs-not-modified', short,
                      'neither the model nor the data is modified', prog.loc(q, fd),
                      fail_detail='stores into an input: %s' % [
                          (e.get('target_src') or e.get('method'), e['lineno'])
                          for e in bad])
    seeded_subset(check, prog)
    c07.subset(check, prog)
    # ... and what a result stores can be read back: dimension names stay str
    from . import c16
    c16.dimension_names(check, prog)
    c16.save_dispatch(check, prog)       # the file save() writes is the one load() opens
    # lens theories incl. a fitted lens angle: the wrapper accepts a prior and
    # computes with the angle it has now
    from . import c08
    c08.lens_quadrature_current(check, prog)


# ----------------------------------------------------------------------
def saved(check, prog):
    q = R + '._serialize_as_dataset'
    fd = prog.func(q)
    loc = prog.loc(q, fd)
    it = Interp(prog, max_depth=1, opaque=['holopy.core.io.io.pack_attrs'])
    res = it.analyze(q)
    # the mapping finally stored as the dataset's .attrs
    stores = [e for e in it.effects if e['kind'] == 'setattr' and e['attr'] == 'attrs'
              and e['value'][0] == 'copy' and
              any(x[0] == 'dict' for x in subterms(e['value']))]
    written = {}
    if stores:
        t = stores[-1]['value'][2]
        while t[0] == 'upd':
            if t[3][0] == 'const':
                written.setdefault(t[3][1], t[4])
            t = t[1]
        if t[0] == 'dict':
            for k, v in t[1]:
                if k[0] == 'call' and k[1] == 'str' and k[2][0][0] == 'const':
                    k = k[2][0]
                if k[0] == 'const':
                    written.setdefault(k[1], v)
    q2 = R + '._unserialize'
    fd2 = prog.func(q2)
    it2 = Interp(prog, max_depth=1, opaque=['holopy.core.io.io.unpack_attrs'])
    res2 = it2.analyze(q2)
    v = res2.ret
    dsattrs = intern(('attr', sym(fd2.args.args[1].arg), 'attrs'))

    def keys_read(t):
        return {x[2][1] for x in subterms(t) if x[0] == 'idx' and x[1] == dsattrs
                and x[2][0] == 'const'}
    read = keys_read(v)
    loadfd = prog.func('holopy.core.io.io.load')
    if any(isinstance(n, ast.Constant) and n.value == '_source_class'
           for n in ast.walk(loadfd)):
        read.add('_source_class')
    check.floor('dataset attrs written by FitResult', len(written), 5)
    check.require(set(written) == read, 'L5-result-keys', 'FitResult dataset attrs',
                  'keys written %s == keys read' % sorted(written), loc,
                  fail_detail='written %s, read %s' % (sorted(written), sorted(read)))
    # positional reconstruction: the i-th element of the returned list is rebuilt
    # from the key that was written from the i-th constructor argument
    owner, ifd = init_of(prog, R)
    params = init_params(ifd)
    ok = v[0] == 'list' and len(v[1]) == 5 and params[:5] == [
        'data', 'model', 'strategy', 'time', 'kwargs']
    detail = 'returned value is %s' % show(v)[:120]
    if ok:
        for i in (1, 2, 3):
            wv = written.get(params[i])
            src_ok = wv is not None and any(
                x == ('attr', sym('self'), params[i]) for x in subterms(wv))
            if keys_read(v[1][i]) != {params[i]} or not src_ok:
                ok = False
                detail = 'element %d is rebuilt from keys %s (written from %s)' % (
                    i, sorted(keys_read(v[1][i])), show(wv)[:60] if wv else None)
        if keys_read(v[1][4]) != {'_kwargs'} or keys_read(v[1][0]):
            ok = False
            detail = 'data / kwargs elements read %s / %s' % (
                sorted(keys_read(v[1][0])), sorted(keys_read(v[1][4])))
    check.require(ok, 'L5-result-keys', 'FitResult._unserialize order',
                  'arguments are rebuilt in the constructor\'s order '
                  '(data, model, strategy, time, kwargs)', prog.loc(q2, fd2),
                  fail_detail=detail)
    # serialising does not modify the result
    it = Interp(prog, max_depth=1, opaque=['holopy.core.io.io.pack_attrs'])
    res = it.analyze(q)
    bad = [e for e, st, rs in writes(it) if any(r == ('param', 'self') for r in rs)
           and ('maybe-fresh',) not in rs]
    bad = list(bad) + taint_mutations(fd)
    check.require(not bad, 'L5-saving-does-not-modify', 'FitResult._serialize_as_dataset',
                  'attributes are packed on copies', loc,
                  fail_detail='saving stores into the result\'s own objects (%s): e.g. a '
                  'cached best-fit hologram gets its metadata replaced by packed strings, '
                  'so the result differs after saving and a second save fails' % [
                      (e.get('target_src'), e['lineno']) for e in bad])
    # objects inside the result: model + strategies (C15 rules on inference classes)
    scope = [q3 for q3 in prog.subclasses('holopy.core.holopy_object.HoloPyObject', True)
             if q3.startswith(INF) and not q3.startswith(INF + 'third_party')]
    c15.r1_r2(check, prog, [s for s in scope], floor=35)
    c15.r5_model(check, prog)


def taint_mutations(fd):
    """Name-based may-alias taint analysis inside one function: objects read
    from `self` (self.x, getattr(self, k)) that are stored -- without a copy --
    into local containers and later mutated through those containers."""
    sn = fd.args.args[0].arg

    def from_self(e):
        if isinstance(e, ast.Attribute) and isinstance(e.value, ast.Name) and \
                e.value.id == sn:
            return True
        if isinstance(e, ast.Call) and isinstance(e.func, ast.Name) and \
                e.func.id == 'getattr' and e.args and isinstance(e.args[0], ast.Name) \
                and e.args[0].id == sn:
            return True
        return False
    tainted = set()
    alias = {}
    elem = set()

    def names_of(e):
        if isinstance(e, ast.Name):
            return {e.id}
        if isinstance(e, ast.IfExp):
            return names_of(e.body) | names_of(e.orelse)
        return set()

    def is_tainted(e):
        if from_self(e):
            return True
        if isinstance(e, ast.Name):
            return e.id in tainted
        if isinstance(e, ast.IfExp):
            return is_tainted(e.body) or is_tainted(e.orelse)
        if isinstance(e, ast.Subscript) and isinstance(e.value, ast.Name):
            return bool(closure({e.value.id}) & elem)
        return False

    def closure(ns):
        out = set(ns)
        changed = True
        while changed:
            changed = False
            for a, bs in alias.items():
                if a in out and not bs <= out:
                    out |= bs
                    changed = True
                if bs & out and a not in out:
                    out.add(a)
                    changed = True
        return out
    for _ in range(4):
        for n in ast.walk(fd):
            if isinstance(n, ast.Assign):
                for t in n.targets:
                    if isinstance(t, ast.Name):
                        if is_tainted(n.value):
                            tainted.add(t.id)
                        nm = names_of(n.value)
                        if nm:
                            alias.setdefault(t.id, set()).update(nm)
                    elif isinstance(t, ast.Subscript) and isinstance(t.value, ast.Name):
                        if is_tainted(n.value):
                            elem |= closure({t.value.id})
            elif isinstance(n, ast.For):
                it = n.iter
                src = None
                if isinstance(it, ast.Call) and isinstance(it.func, ast.Attribute) and \
                        it.func.attr in ('items', 'values') and \
                        isinstance(it.func.value, ast.Name):
                    src = it.func.value.id
                elif isinstance(it, ast.Name):
                    src = it.id
                if src and closure({src}) & elem:
                    for t in ast.walk(n.target):
                        if isinstance(t, ast.Name):
                            tainted.add(t.id)
    out = []
    for n in ast.walk(fd):
        if isinstance(n, (ast.Attribute, ast.Subscript)) and isinstance(n.ctx, ast.Store):
            base = n.value
            if isinstance(base, ast.Name) and base.id == sn:
                continue
            if is_tainted(base) and not from_self(base):
                out.append(dict(target_src=ast.unparse(n), lineno=n.lineno,
                                kind='taint'))
    return out


# ----------------------------------------------------------------------
def entry(check, prog):
    q = INF + 'interface.fit'
    fd = prog.func(q)
    loc = prog.loc(q, fd)
    it = Interp(prog, max_depth=1, inline_new=False, opaque=[
        INF + 'interface.make_default_model', INF + 'interface.validate_strategy'])
    res = it.analyze(q)
    v = res.ret
    ok = v[0] == 'call' and isinstance(v[1], tuple) and v[1][2] == 'fit' and \
        bool(calls_in(v[1][1], 'validate_strategy')) and v[2][1] == sym('data')
    mdl = v[2][0] if ok else None
    okm = ok and mdl[0] == 'ite' and mdl[1][0] == 'call' and mdl[1][1] == 'isinstance' and \
        bool(calls_in(mdl[2], 'make_default_model')) and mdl[3] == sym('model')
    check.require(ok and okm, 'L6-fit-entry', 'fit',
                  'a bare scatterer is wrapped in the default model; the validated '
                  'strategy fits (model, data)', loc, fail_detail='returns %s' % show(v)[:200])
    m = prog.module(INF + 'interface')
    tbl = m.assigns.get('ALL_STRATEGIES')
    got = {}
    if isinstance(tbl, ast.Dict):
        for k, v2 in zip(tbl.keys, tbl.values):
            if isinstance(v2, ast.Dict):
                for k2, v3 in zip(v2.keys, v2.values):
                    got[(k.value, k2.value)] = ast.unparse(v3)
    want = {('fit', 'nmpfit'): 'NmpfitStrategy',
            ('fit', 'scipy lsq'): 'LeastSquaresScipyStrategy',
            ('fit', 'cma'): 'CmaStrategy', ('sample', 'emcee'): 'EmceeStrategy',
            ('sample', 'subset tempering'): 'TemperedStrategy'}
    for k, w in want.items():
        check.require(got.get(k) == w, 'L6-strategy-table', '%s:%s' % k,
                      'maps to %s' % w, m.relpath,
                      fail_detail='%s maps to %s' % (k, got.get(k)))
    q = INF + 'interface.validate_strategy'
    it = Interp(prog, max_depth=1)
    res = it.analyze(q)
    ok = any('ValueError' in show(o.value) and path_has(
        o.cond, lambda t: t[0] == 'call' and t[1] == 'hasattr', pol=False)
        for o in res.raises)
    check.require(ok, 'L6-strategy-table', 'validate_strategy',
                  'a strategy without the requested operation is rejected',
                  prog.loc(q, prog.func(q)))


def default_model_centre(check, prog):
    """L6b: the default model of a bare scatterer puts a prior on a named
    coordinate ('x', 'y', 'z') whatever container holds the centre.  The centre
    comes from the user's scatterer (Scatterer.parameters deep-copies it: a tuple
    stays a tuple, and the library's own message asks for 'center ... (x, y, z)'),
    so it must not be stored into element-wise: the new centre has to be built."""
    q = INF + 'interface.replace_center'
    if not prog.has_func(q):
        return
    fd = prog.func(q)
    loc = prog.loc(q, fd)
    it = Interp(prog, max_depth=1)
    it.analyze(q)
    pars = sym(fd.args.args[0].arg)
    bad = []
    for e in it.effects:
        if e['kind'] == 'setitem' and e['base'][0] == 'idx' and e['base'][1][0] in ('sym', 'mut', 'upd'):
            root = e['base'][1]
            while root[0] in ('mut', 'upd'):
                root = root[1]
            if root == pars:
                bad.append(e.get('target_src') or show(e['base'])[:60])
    check.require(not bad, 'L6-fit-entry', 'replace_center',
                  'a coordinate prior is placed into a newly built centre', loc,
                  fail_detail='stores element-wise into the centre taken from the '
                  'scatterer (%s): hp.fit(data, Sphere(center=(x, y, z)), parameters=[..., '
                  '\'x\']) raises TypeError: \'tuple\' object does not support item '
                  'assignment' % bad)


# ----------------------------------------------------------------------
def bind(prog, qual, args, kwargs):
    """{parameter name: argument term} of a call to the method `qual` (self
    excluded)"""
    fd = prog.func(qual)
    names = [a.arg for a in fd.args.args][1:]
    out = dict(zip(names, args))
    for k, v in kwargs:
        out[k] = v
    return out


def roots_of(t, candidates):
    return {c for c in candidates if any(x == c for x in subterms(t))}



def same_pixels(r, d):
    # the residuals are taken on the data the result reports, or on the same
    # pixels flattened (flat() keeps values, coordinates and metadata)
    if r is None or d is None:
        return False
    if r == d or r == ('call', MD + 'flat', (d,), ()):
        return True
    if r[0] == 'ite' and d[0] == 'ite' and r[1] == d[1]:
        return same_pixels(r[2], d[2]) and same_pixels(r[3], d[3])
    return False

def assembly(check, prog):
    MODEL = INF + 'model.Model'
    for q, opaque in ((N + '.fit', [N + '.minimize', MD + 'make_subset_data']),
                      (S + '.fit', [S + '.minimize', MD + 'flat',
                                    S + '._calculate_unit_noise_errors_from_fit',
                                    MD + 'make_subset_data',
                                    S + '.unscale_pars_from_minimizer'])):
        fd = prog.func(q)
        loc = prog.loc(q, fd)
        short = q.split('.')[-2] + '.fit'
        me, model, data = [sym(a.arg) for a in fd.args.args[:3]]
        it = Interp(prog, max_depth=2, inline_new=False, opaque=opaque)
        res = it.analyze(q)
        v = res.ret
        ok = v[0] == 'new' and v[1] == R
        detail = 'returns %s' % show(v)[:120]
        if ok:
            a = dict(v[3])
            dt, mt, stt = a.get('data'), a.get('model'), a.get('strategy')
            ok = dt is not None and mt == model and stt is not None and \
                roots_of(dt, (model, data, me)) == {data} | (
                    {me} if any(x[0] == 'attr' and x[1] == me for x in subterms(dt))
                    else set())
            # strategy: self, possibly with per-fit attributes layered on top

            def bases(t):
                if t[0] == 'upd':
                    return bases(t[1])
                if t[0] == 'ite':
                    return bases(t[2]) | bases(t[3])
                return {t}
            t = None
            if ok:
                bs = bases(stt)
                ok = bs == {me}
                t = sorted(bs, key=lambda x: x._n)[0]
            detail = 'FitResult(data=%s, model=%s, strategy=%s)' % (
                show(dt)[:60] if dt else None, show(mt)[:40] if mt else None,
                show(t)[:40] if t else None)
        check.require(ok, 'L7-result-slots', short,
                      'FitResult(data <- the data fitted, model <- the model, strategy '
                      '<- self)', loc, fail_detail=detail)
        # intervals
        uv = [x for x in subterms(v) if x[0] == 'new' and x[1].endswith('UncertainValue')]
        ok = len(uv) >= 1
        detail = 'no UncertainValue built'
        for u in uv[:1]:
            a = dict(u[3])
            g, p, nme = a.get('guess'), a.get('plus'), a.get('name')
            ok = g is not None and p is not None and nme is not None and \
                g[0] == 'elem' and p[0] == 'elem' and nme[0] == 'elem' and \
                g[2] == p[2] == nme[2]
            if ok:
                fitted, errs, nms = g[1], p[1], nme[1]
                mn = q.rpartition('.')[0] + '.minimize'
                # (the same call reached on two branches of the set-up -- with and
                # without a pixel subset -- is an alternative of two such calls)
                def alts(t):
                    if t[0] == 'ite':
                        return alts(t[2]) | alts(t[3])
                    if t[0] == 'idx' and t[1][0] == 'ite':
                        return {intern(('idx', a_, t[2])) for a_ in alts(t[1])}
                    return {t}
                okf = all(f_[0] == 'idx' and f_[2] == num(0) and
                          f_[1][0] == 'call' and (
                              f_[1][1] == mn or
                              (isinstance(f_[1][1], tuple) and f_[1][1][2] == 'minimize'))
                          for f_ in alts(fitted))
                oke = any(x[0] == 'attr' and x[2] == 'unscale' for x in subterms(errs)) \
                    or bool(calls_in(errs, 'unscale_pars_from_minimizer'))
                okn = nms == ('attr', model, '_parameter_names')
                ok = okf and oke and okn
                detail = 'UncertainValue(%s, %s, name=%s)' % (
                    show(g)[:60], show(p)[:60], show(nme)[:60])
        check.require(ok, 'L7-interval-slots', short,
                      'interval i = UncertainValue(fitted value i, unscaled error i, '
                      'name = model name i)', loc, fail_detail=detail)
    # ---- residual assembly
    def residual_slots(val, where, loc, pv, data_t, model_t):
        rs = calls_in(val, '_residuals')
        ok = len(rs) >= 1
        detail = 'no model._residuals call in %s' % show(val)[:120]
        if ok:
            c = rs[0]
            okc = isinstance(c[1], tuple) and c[1][0] == 'attr' and c[1][1] == model_t
            b = bind(prog, MODEL + '._residuals', c[2], c[3])
            nz = b.get('noise')
            okn = nz is not None and nz[0] == 'call' and isinstance(nz[1], tuple) and \
                nz[1][2] == '_find_noise' and nz[1][1] == model_t
            if okn:
                bn = bind(prog, MODEL + '._find_noise', nz[2], nz[3])
                okn = bn.get('pars') == pv and same_pixels(bn.get('schema'), data_t)
            ok = okc and okn and b.get('pars') == pv and \
                same_pixels(b.get('data'), data_t)
            detail = '_residuals(%s)' % ', '.join('%s=%s' % (k, show(x)[:50])
                                                  for k, x in b.items())
        check.require(ok, 'L7-residual-slots', where,
                      'model._residuals(pars <- the trial values, data <- the data '
                      'being fitted, noise <- model._find_noise(values, data))', loc,
                      fail_detail=detail)
    q = N + '.calc_residuals'
    fd = prog.func(q)
    loc = prog.loc(q, fd)
    me, pv = [sym(a.arg) for a in fd.args.args[:2]]
    it = Interp(prog, max_depth=1)
    res = it.analyze(q)
    residual_slots(res.ret, 'NmpfitStrategy.calc_residuals', loc, pv,
                   intern(('attr', me, '_data')), intern(('attr', me, '_model')))
    # prior residual: sqrt(lnprior(guess) - lnprior(value)), prior i at value i
    v = res.ret
    ok = v[0] == 'call' and v[1] == 'numpy.append' and len(v[2]) == 2
    detail = 'returns %s' % show(v)[:160]
    if ok:
        pr = v[2][1]
        ok = pr[0] == 'call' and pr[1] == 'numpy.sqrt' and len(pr[2]) == 1
        df = as_difference(pr[2][0]) if ok else None
        ok = ok and df is not None and df[0] == ('attr', me, '_guess_lnpriors')
        if ok:
            cur = df[1]
            P = intern(('attr', me, '_parameters'))
            ln = [x for x in subterms(cur) if x[0] == 'call' and
                  isinstance(x[1], tuple) and x[1][0] == 'attr' and x[1][2] == 'lnprob']
            ok = len(ln) == 1 and ln[0][1][1][0] == 'elem' and ln[0][1][1][1] == P and \
                len(ln[0][2]) == 1 and ln[0][2][0][0] == 'elem' and \
                ln[0][2][0][1] == pv and ln[0][2][0][2] == ln[0][1][1][2]
            detail = 'prior residual is %s' % show(pr)[:200]
    check.require(ok, 'L7-prior-residual', 'NmpfitStrategy.calc_residuals',
                  'sqrt(lnprior_i(guess_i) - lnprior_i(value_i)) for every parameter i',
                  loc, fail_detail=detail)
    # guess log-priors: prior i at its own guess
    q = N + '.initialize_fit'
    fd = prog.func(q)
    it = Interp(prog, max_depth=1, opaque=[MD + 'make_subset_data'])
    res = it.analyze(q)
    st = {e['attr']: e['value'] for e in it.effects if e['kind'] == 'setattr'}
    me, model, data = [sym(a.arg) for a in fd.args.args[:3]]
    g = st.get('_guess_lnpriors')
    ok = g is not None
    if ok:
        ln = [x for x in subterms(g) if x[0] == 'call' and isinstance(x[1], tuple) and
              x[1][0] == 'attr' and x[1][2] == 'lnprob']
        ok = len(ln) == 1 and ln[0][1][1][0] == 'elem' and \
            ln[0][1][1][1] == ('attr', model, '_parameters') and \
            ln[0][2] == (('attr', ln[0][1][1], 'guess'),)
    ok = ok and st.get('_model') == model and \
        st.get('_parameters') == ('attr', model, '_parameters')
    dt = st.get('_data')
    ok = ok and dt is not None and roots_of(dt, (model, data)) == {data}
    check.require(ok, 'L7-fit-state', 'NmpfitStrategy.initialize_fit',
                  '_model <- model, _parameters <- model._parameters, _data <- data '
                  '(or its subset), _guess_lnpriors[i] = prior_i.lnprob(prior_i.guess)',
                  prog.loc(q, fd), fail_detail='stores %s' % {
                      k: show(x)[:60] for k, x in st.items()})
    # scipy residual closure
    q = S + '.fit'
    fd = prog.func(q)
    loc = prog.loc(q, fd)
    me, model, data = [sym(a.arg) for a in fd.args.args[:3]]
    it = Interp(prog, max_depth=1, inline_new=False, opaque=[
        S + '.minimize', S + '._calculate_unit_noise_errors_from_fit', MD + 'flat',
        MD + 'make_subset_data', S + '.unscale_pars_from_minimizer'])
    res = it.analyze(q)
    mc = [c for c in it.calls if c['name'] == S + '.minimize']
    if len(mc) == 1 and mc[0]['args'][-1][0] == 'closure':
        node_c, cenv, cframe = it.closures[mc[0]['args'][-1][1]]
        fr = Frame(cframe.module, cframe.owner, cframe.selfcls, cframe.selfname, 0,
                   q + '.<residual>')
        rv = sym('rescaled_values')
        val = it.inline_closure(node_c, cenv, cframe, [rv], {}, fr, ())
        un = [c for c in calls_in(val, 'unscale_pars_from_minimizer')]
        okp = bool(un)
        if okp:
            b = bind(prog, S + '.unscale_pars_from_minimizer', un[0][2], un[0][3])
            okp = b.get('parameters') == ('attr', model, '_parameters') and \
                b.get('values') == rv
        check.require(okp, 'L7-residual-slots', 'LeastSquaresScipyStrategy residual '
                      'unscaling', 'trial values are unscaled with the model\'s '
                      'parameters (parameters, values)', loc)
        fitted = [x for x in subterms(res.ret) if x[0] == 'new' and
                  x[1].endswith('UncertainValue')]
        dterm = dict(res.ret[3]).get('data') if res.ret[0] == 'new' else None
        if un and dterm is not None:
            residual_slots(val, 'LeastSquaresScipyStrategy residual', loc, un[0],
                           dterm, model)
        else:
            check.bad('L7-residual-slots', 'LeastSquaresScipyStrategy residual',
                      'cannot identify the unscaled values / fitted data', loc)
    else:
        check.bad('L7-residual-slots', 'LeastSquaresScipyStrategy residual',
                  'cannot find the residual function handed to minimize', loc)
    # Model._residuals
    q = MODEL + '._residuals'
    fd = prog.func(q)
    it = Interp(prog, max_depth=0)
    res = it.analyze(q)
    me, pars, data, noise = [sym(a.arg) for a in fd.args.args[:4]]
    fw = intern(('call', ('attr', me, '_forward'), (pars, data), ()))
    v = res.ret
    inner = v[1] if v[0] == 'attr' and v[2] == 'values' else v
    from hpstatic.poly import Canon
    c0 = Canon()
    want = intern(('bin', '/', ('bin', '-', fw, data), noise))
    check.require(c0.equal(inner, want), 'L7-residual-formula', 'Model._residuals',
                  '(forward(pars, data) - data) / noise', prog.loc(q, fd),
                  fail_detail='returns %s' % show(v)[:160])


def reported(check, prog):
    me = sym('self')
    iv = intern(('attr', me, 'intervals'))
    for prop, attr in (('_parameters', 'guess'), ('_names', 'name')):
        q = R + '.' + prop
        fd = prog.func(q)
        it = Interp(prog, max_depth=0)
        res = it.analyze(q)
        v = res.ret
        if v[0] == 'call' and v[1] == 'list' and len(v[2]) == 1:
            v = v[2][0]
        ok = v[0] == 'comp' and len(v[3]) == 1 and v[3][0][1] == iv and \
            v[2] == ('attr', v[3][0][0], attr)
        check.require(ok, 'L8-reported-parameters', 'FitResult.' + prop,
                      '[interval.%s for interval in self.intervals]' % attr,
                      prog.loc(q, fd), fail_detail='returns %s' % show(res.ret)[:160])
    q = R + '.parameters'
    fd = prog.func(q)
    it = Interp(prog, max_depth=1, opaque=[R + '._parameters', R + '._names'])
    res = it.analyze(q)
    v = res.ret
    ok = v[0] == 'comp' and v[1] == 'dict' and len(v[3]) == 1
    if ok:
        key, val = v[2][1]
        ok = key[0] == 'elem' and val[0] == 'elem' and key[2] == val[2] and \
            key[1] == ('attr', me, '_names') and val[1] == ('attr', me, '_parameters')
    check.require(ok, 'L8-reported-parameters', 'FitResult.parameters',
                  'name i is paired with value i', prog.loc(q, fd),
                  fail_detail='returns %s' % show(v)[:200])
    pars = intern(('attr', me, '_parameters'))
    for prop, cache, want in (
            ('hologram', '_hologram',
             intern(('call', ('attr', me, 'forward'), (pars,), ()))),
            ('max_lnprob', '_max_lnprob',
             intern(('call', ('attr', ('attr', me, 'model'), 'lnposterior'),
                     (pars, ('attr', me, 'data')), ())))):
        q = R + '.' + prop
        fd = prog.func(q)
        it = Interp(prog, max_depth=2, opaque=[R + '.forward', R + '._parameters'])
        res = it.analyze(q)
        v = res.ret
        has = intern(('call', 'hasattr', (me, ('const', cache)), ()))
        ok = v == ('ite', has, ('attr', me, cache), want)
        st = [e for e in it.effects if e['kind'] == 'setattr' and e['attr'] == cache]
        ok = ok and len(st) == 1 and st[0]['value'] == want and \
            [(t, p) for t, p in st[0]['cond']] == [(has, False)]
        check.require(ok, 'L8-best-fit-is-forward-model', 'FitResult.' + prop,
                      '%s, computed once and remembered as .%s' % (show(want), cache),
                      prog.loc(q, fd), fail_detail='returns %s; stores %s' % (
                          show(v)[:200], [(e['attr'], show(e['value'])[:80]) for e in st]))
    # ... each remembered quantity under a name of its own: the cache is keyed by
    # the attribute name only, so two quantities sharing one name return whichever
    # was asked for first
    import ast as _ast
    users = {}
    for cq in sorted(set(prog.subclasses(R)) | {R}):
        c = prog.classes.get(cq)
        if c is None:
            continue
        members = list(c.methods.items()) + [
            (n, pr['getter']) for n, pr in c.properties.items() if pr.get('getter')]
        for name, fdm in members:
            for n in _ast.walk(fdm):
                if isinstance(n, _ast.Call) and isinstance(n.func, _ast.Attribute) and \
                        n.func.attr == '_calculate_first_time' and n.args and \
                        isinstance(n.args[0], _ast.Constant):
                    users.setdefault(n.args[0].value, set()).add(
                        '%s.%s' % (cq.rpartition('.')[2], name))
    check.need('quantities remembered on a result', len(users), 2,
               'L8-best-fit-is-forward-model', 'FitResult remembered quantities',
               'hologram, guess hologram and max_lnprob are computed once',
               prog.loc(R + '.hologram', prog.func(R + '.hologram')))
    for cache_name, who in sorted(users.items()):
        check.require(len(who) == 1, 'L8-best-fit-is-forward-model',
                      'FitResult cache %s' % cache_name,
                      'remembered under .%s by %s only' % (cache_name, sorted(who)[0]),
                      prog.loc(R + '.hologram', prog.func(R + '.hologram')),
                      fail_detail='%s all remember their value as .%s: whichever is '
                      'read first is what the others return (result.guess_hologram '
                      'before result.hologram gives the guess as the best fit, and it '
                      'is what hp.save writes)' % (' and '.join(sorted(who)), cache_name))
    q = R + '.forward'
    fd = prog.func(q)
    it = Interp(prog, max_depth=1, opaque=[MD + 'detector_grid', MD + 'copy_metadata',
                                           'holopy.core.utils.dict_without'])
    res = it.analyze(q)
    p = sym(fd.args.args[1].arg)
    outs = []

    def leaves(t):
        if t[0] == 'ite':
            leaves(t[2])
            leaves(t[3])
        else:
            outs.append(t)
    leaves(res.ret)
    ok = bool(outs) and all(
        o[0] == 'call' and o[1] == ('attr', ('attr', me, 'model'), 'forward') and
        len(o[2]) == 2 and o[2][0] == p for o in outs)
    schemas = []
    for o in outs if ok else []:
        t = o[2][1]
        stack = [t]
        while stack:
            x = stack.pop()
            if x[0] == 'ite':
                stack += [x[2], x[3]]
            else:
                schemas.append(x)
    ok = ok and any(x == ('attr', me, 'data') for x in schemas)
    check.require(ok, 'L8-best-fit-is-forward-model', 'FitResult.forward',
                  'self.model.forward(pars, <the data, or its remembered full grid>)',
                  prog.loc(q, fd), fail_detail='returns %s' % show(res.ret)[:200])


def seeded_subset(check, prog):
    # reproducible subsets (seed forwarded; make_subset_data honours every seed)
    q = N + '.initialize_fit'
    it = Interp(prog, max_depth=1, opaque=[MD + 'make_subset_data'])
    res = it.analyze(q)
    ms = [c for c in it.calls if c['name'] == MD + 'make_subset_data']
    ok = len(ms) == 1 and call_args(prog, ms[0]).get('seed') == ('attr', sym('self'), 'seed') \
        and call_args(prog, ms[0]).get('pixels') == ('attr', sym('self'), 'npixels')
    check.require(ok, 'L4-repeatable-subset', 'NmpfitStrategy.initialize_fit',
                  'the pixel subset is drawn with the strategy\'s npixels and seed',
                  prog.loc(q, prog.func(q)))


def wiring(check, prog):
    """argument slots of the strategy-internal calls, and when fitting is refused"""
    MODEL = INF + 'model.Model'
    # NmpfitStrategy.fit -> initialize_fit(model, data), minimize(parameters, residuals)
    q = N + '.fit'
    fd = prog.func(q)
    loc = prog.loc(q, fd)
    me, model, data = [sym(a.arg) for a in fd.args.args[:3]]
    it = Interp(prog, max_depth=1, inline_new=False, opaque=[
        N + '.minimize', N + '.get_errors_from_minimizer', N + '.initialize_fit',
        N + '.cleanup_from_fit'])
    it.analyze(q)

    def one(name):
        cs = [c for c in it.calls if c['name'] == name]
        return cs[0] if len(cs) == 1 else None
    c = one(N + '.initialize_fit')
    ok = c is not None and bind(prog, N + '.initialize_fit', c['args'][1:], c['kwargs']) \
        == {'model': model, 'data': data}
    check.require(ok, 'L7-call-slots', 'NmpfitStrategy.fit -> initialize_fit',
                  'initialize_fit(model <- model, data <- data)', loc)
    c = one(N + '.minimize')
    ok = c is not None
    if ok:
        b = bind(prog, N + '.minimize', c['args'][1:], c['kwargs'])
        ok = b.get('parameters') == ('attr', me, '_parameters') and \
            b.get('obj_func') is not None and b['obj_func'][0] == 'method' and \
            b['obj_func'][2] == 'calc_residuals'
    check.require(ok, 'L7-call-slots', 'NmpfitStrategy.fit -> minimize',
                  'minimize(parameters <- the model\'s priors, obj_func <- '
                  'calc_residuals)', loc)
    c = one(N + '.get_errors_from_minimizer')
    ok = c is not None and len(c['args']) == 2 and c['args'][1][0] == 'idx' and \
        c['args'][1][2] == num(0) and bool(calls_in(c['args'][1], 'minimize'))
    check.require(ok, 'L7-call-slots', 'NmpfitStrategy.fit -> get_errors_from_minimizer',
                  'the fitted values (first result of minimize) are what the '
                  'intervals are built from', loc)
    # unscale helpers, both strategies
    q = S + '.unscale_pars_from_minimizer'
    fd = prog.func(q)
    it2 = Interp(prog, max_depth=0)
    r2 = it2.analyze(q)
    v = r2.ret
    if v[0] == 'call' and v[1] == 'list' and len(v[2]) == 1:
        v = v[2][0]
    P, V = sym(fd.args.args[1].arg), sym(fd.args.args[2].arg)
    ok = v[0] == 'comp' and len(v[3]) == 1
    if ok:
        lid = v[3][0][0][2] if v[3][0][0][0] == 'elem' else None
        ok = v[2] == ('call', ('attr', ('elem', P, lid), 'unscale'),
                      (('elem', V, lid),), ())
    check.require(ok, 'L2-results-unscaled',
                  'LeastSquaresScipyStrategy.unscale_pars_from_minimizer',
                  'value i is unscaled with prior i (zip over the same lists)',
                  prog.loc(q, fd), fail_detail='returns %s' % show(r2.ret)[:200])
    q = S + '.minimize'
    fd = prog.func(q)
    it3 = Interp(prog, max_depth=1, opaque=[S + '.unscale_pars_from_minimizer'])
    it3.analyze(q)
    un = [c for c in it3.calls if c['name'] == S + '.unscale_pars_from_minimizer']
    ok = len(un) == 1
    if ok:
        b = bind(prog, S + '.unscale_pars_from_minimizer', un[0]['args'][1:],
                 un[0]['kwargs'])
        ok = b.get('parameters') == sym(fd.args.args[1].arg) and \
            b.get('values') is not None and b['values'][0] == 'attr' and \
            b['values'][2] == 'x'
    check.require(ok, 'L7-call-slots', 'LeastSquaresScipyStrategy.minimize -> unscale',
                  'unscale(parameters <- the priors, values <- the optimiser\'s x)',
                  prog.loc(q, fd))
    q = S + '.fit'
    fd = prog.func(q)
    me, model, data = [sym(a.arg) for a in fd.args.args[:3]]
    it4 = Interp(prog, max_depth=1, inline_new=False, opaque=[
        S + '.minimize', S + '._calculate_unit_noise_errors_from_fit', MD + 'flat',
        MD + 'make_subset_data', S + '.unscale_pars_from_minimizer'])
    r4 = it4.analyze(q)
    dterm = dict(r4.ret[3]).get('data') if r4.ret[0] == 'new' else None
    un = [c for c in it4.calls if c['name'] == S + '.unscale_pars_from_minimizer']
    ok = len(un) == 1 and dterm is not None
    if ok:
        b = bind(prog, S + '.unscale_pars_from_minimizer', un[0]['args'][1:],
                 un[0]['kwargs'])
        fn = [x for x in subterms(b.get('values', NONE)) if x[0] == 'call' and
              isinstance(x[1], tuple) and x[1][0] == 'attr' and x[1][2] == '_find_noise']
        ok = b.get('parameters') == ('attr', model, '_parameters') and len(fn) == 1
        if ok:
            bn = bind(prog, MODEL + '._find_noise', fn[0][2], fn[0][3])
            ok = fn[0][1][1] == model and same_pixels(bn.get('schema'), dterm) and \
                bn.get('pars') is not None and bn['pars'][0] == 'idx' and \
                bn['pars'][2] == num(0) and bool(calls_in(bn['pars'], 'minimize'))
    check.require(ok, 'L7-call-slots', 'LeastSquaresScipyStrategy.fit errors',
                  'errors = unscale(parameters <- priors, values <- noise(fitted '
                  'values, fitted data) * unit errors)', prog.loc(q, fd))
    # when fitting is refused / which data is fitted
    for q, opaque in ((N + '.initialize_fit', [MD + 'make_subset_data']),
                      (S + '.fit', [S + '.minimize', MD + 'flat', MD + 'make_subset_data',
                                    S + '._calculate_unit_noise_errors_from_fit',
                                    S + '.unscale_pars_from_minimizer'])):
        fd = prog.func(q)
        short = q.split('.')[-2] + '.' + q.split('.')[-1]
        me, model, data = [sym(a.arg) for a in fd.args.args[:3]]
        it5 = Interp(prog, max_depth=1, inline_new=False, opaque=opaque)
        r5 = it5.analyze(q)
        mp = [o for o in r5.raises if 'MissingParameter' in show(o.value)]
        empty = intern(('cmp', '==', ('call', 'len', (('attr', model, '_parameters'),), ()),
                        num(0)))
        ok = len(mp) == 1 and [(t, p) for t, p in mp[0].cond] == [(empty, True)] and \
            len(r5.raises) == 1
        check.require(ok, 'L6-refuses-only-empty-models', short,
                      'MissingParameter is raised iff the model has no parameters',
                      prog.loc(q, fd), fail_detail='raising paths: %s' % [
                          [(show(t)[:60], p) for t, p in o.cond] for o in r5.raises])
        # the data that is fitted: everything when npixels is None, else a subset
        sub = [c for c in it5.calls if c['name'] == MD + 'make_subset_data']
        npx = intern(('attr', me, 'npixels'))
        isnone = intern(('cmp', 'is', npx, NONE))
        notnone = intern(('cmp', 'is not', npx, NONE))
        ok = len(sub) == 1 and call_args(prog, sub[0]).get('data') == data and \
            call_args(prog, sub[0]).get('pixels') == npx
        if ok:
            cs = [(t, p) for t, p in sub[0]['cond'] if t != empty]
            ok = cs in ([(isnone, False)], [(notnone, True)])
        check.require(ok, 'L4-subset-iff-requested', short,
                      'make_subset_data(data, pixels=self.npixels) is used exactly when '
                      'npixels is given', prog.loc(q, fd))


# ----------------------------------------------------------------------
def payload(check, prog):
    """L9: everything a result carries besides (data, model, strategy, time)
    reaches the file and comes back.

    Writer: each key of `_kwargs_keys` is stored, whatever its value, in exactly one
    of two mappings -- the one merged into the dataset (labelled arrays) or the one
    dumped as text under '_kwargs'.  Arrays going into the file have their metadata
    packed; the reader unpacks the metadata of every array it takes out, restores
    each named array from the variable of the same name, and the names it knows
    include every labelled array that a strategy of the package puts into a result."""
    from hpstatic.logic import resolve, eval3
    PACK, UNPACK = 'holopy.core.io.io.pack_attrs', 'holopy.core.io.io.unpack_attrs'
    q = R + '._serialize_as_dataset'
    fd = prog.func(q)
    loc = prog.loc(q, fd)
    it = Interp(prog, max_depth=1, opaque=[PACK])
    ret = it.analyze(q).ret
    me = sym(fd.args.args[0].arg)
    keys = intern(('attr', me, '_kwargs_keys'))
    lps = [(lid, l) for lid, l in it.loops.items() if l['iter'] == keys]
    if len(lps) != 1:
        check.bad('L9-result-payload', 'FitResult._serialize_as_dataset',
                  'no single loop over the extra attribute names (_kwargs_keys)', loc)
        return
    lid, lp = lps[0]
    key = intern(('elem', keys, lid))
    V = intern(('call', 'getattr', (me, key), ()))

    def strip_copy(t):
        while t[0] == 'copy':
            t = t[2]
        while t[0] == 'call' and t[1] in ('copy.copy', 'copy.deepcopy') and len(t[2]) == 1:
            t = t[2][0]
        return t
    carriers = {n: st for n, (init, st) in lp['vars'].items()
                if init == ('dict', ()) and st is not None}
    guards = []
    for st in carriers.values():
        for x in subterms(st):
            if x[0] == 'ite' and x[1] not in guards:
                guards.append(x[1])
    isda = intern(('call', 'isinstance', (V, ('extref', 'xarray.DataArray')), ()))
    rows = {}
    for arr in (True, False):
        hyp = lambda t, arr=arr: arr if t == isda else None
        got = []
        for n, st in carriers.items():
            r = resolve(st, hyp)
            if r[0] == 'upd' and r[1] == ('phi', n, lid) and r[2] == 'item' and \
                    r[3] == key and strip_copy(r[4]) == V:
                got.append(n)
            elif r != ('phi', n, lid):
                got.append('?' + n)
        rows[arr] = got
    ok = all(len(v) == 1 and not v[0].startswith('?') for v in rows.values()) and \
        rows[True] != rows[False]
    check.require(ok, 'L9-result-payload', 'FitResult._serialize_as_dataset extras',
                  'every extra attribute is stored under its own name in exactly one '
                  'carrier: labelled arrays in one mapping, everything else in the other',
                  loc, fail_detail='carriers receiving getattr(self, key): for a labelled '
                  'array %s, otherwise %s' % (rows[True], rows[False]))
    if ok:
        xr_name, y_name = rows[True][0], rows[False][0]

        def holds(t, name):
            return any(x[0] == 'loop' and x[1] == name and x[2] == lid for x in subterms(t))
        merged = [c for c in calls_in(ret, 'xarray.merge') if c[2] and
                  c[2][0][0] in ('list', 'tuple') and
                  any(holds(x, xr_name) for x in c[2][0][1])]
        dumped = [x for x in subterms(ret) if x[0] == 'upd' and x[2] == 'item' and
                  x[3] == ('const', '_kwargs') and x[4][0] == 'call' and
                  x[4][1] == 'yaml.dump' and x[4][2] and holds(x[4][2][0], y_name)
                  and not holds(x[4][2][0], xr_name)]
        check.require(bool(merged) and bool(dumped), 'L9-result-payload',
                      'FitResult._serialize_as_dataset carriers',
                      "the array mapping is merged into the dataset, the other one is "
                      "dumped under '_kwargs'", loc,
                      fail_detail='merged into the dataset: %s; dumped under _kwargs: %s'
                      % (bool(merged), bool(dumped)))
    # packed on the way out ...
    packed = [e for e in it.effects if e['kind'] == 'setattr' and e['attr'] == 'attrs'
              and strip_copy(e['value'])[0] == 'call' and strip_copy(e['value'])[1] == PACK]
    def ite_leaves(t):
        return ite_leaves(t[2]) + ite_leaves(t[3]) if t[0] == 'ite' else [t]
    data_packed = any(all(b[0] == 'attr' and b[2] == 'data' for b in ite_leaves(e['base']))
                      and any(x == ('attr', me, 'data') for x in subterms(e['base']))
                      and strip_copy(e['value'])[2][0] == e['base']
                      for e in packed)
    items_packed = ok and any(
        any(x[0] == 'phi' and x[1] == rows[True][0] for x in subterms(e['base']))
        and any(c[0][0] == 'loop-iter' for c in e['cond']) for e in packed)
    check.require(data_packed, 'L9-result-payload', 'FitResult._serialize_as_dataset data',
                  'the metadata of the fitted data is packed before writing', loc)
    check.require(items_packed, 'L9-result-payload',
                  'FitResult._serialize_as_dataset arrays',
                  'the metadata of every labelled array is packed before writing', loc)
    # ... and unpacked on the way in
    q2 = R + '._unserialize'
    fd2 = prog.func(q2)
    loc2 = prog.loc(q2, fd2)
    it2 = Interp(prog, max_depth=1, opaque=[UNPACK])
    ret2 = it2.analyze(q2).ret
    ds = sym(fd2.args.args[1].arg)

    def var_of(t):
        """name of the dataset variable `t` denotes"""
        if t[0] == 'attr' and t[1] == ds:
            return t[2]
        if t[0] == 'idx' and t[1] == ds and t[2][0] == 'const':
            return t[2][1]
        if t[0] == 'call' and t[1] == 'getattr' and len(t[2]) == 2 and t[2][0] == ds \
                and t[2][1][0] == 'const':
            return t[2][1][1]
        return None
    unpacked = set()

    def unnamed(t):
        # (a name given to the array beforehand does not change which array it is)
        while t[0] == 'upd' and t[2] == 'attr' and t[3] == 'name':
            t = t[1]
        return t
    for e in it2.effects:
        if e['kind'] == 'setattr' and e['attr'] == 'attrs':
            v = strip_copy(e['value'])
            base_ = unnamed(e['base'])
            if v[0] == 'call' and v[1] == UNPACK and len(v[2]) == 1 and \
                    v[2][0][0] == 'attr' and v[2][0][2] == 'attrs' and \
                    unnamed(v[2][0][1]) == base_ and var_of(base_):
                unpacked.add(var_of(base_))
    restored, crossed = set(), []
    for e in it2.effects:
        if e['kind'] == 'setitem' and e['key'][0] == 'const' and \
                any(x[0] == 'idx' and x[2] == ('const', '_kwargs') for x in subterms(e['base'])):
            src = var_of(e['value'])
            if src is None:
                continue
            if src != e['key'][1]:
                crossed.append((e['key'][1], src))
            restored.add(e['key'][1])
    # the fitted image keeps its name: in the file it is the variable 'data', so
    # the writer records the image's own name and the reader gives it back
    itw = Interp(prog, max_depth=1, opaque=[UNPACK, PACK])
    itw.analyze(R + '._serialize_as_dataset')
    own_name = intern(('attr', ('attr', sym('self'), 'data'), 'name'))
    wrote = [e for e in itw.effects if e['kind'] == 'setitem' and
             e['key'] == ('const', 'name') and e['value'] == own_name and not e['cond']]
    gave = [e for e in it2.effects if e['kind'] == 'setattr' and e['attr'] == 'name' and
            any(x == ('const', 'name') for x in subterms(e['value'])) and
            var_of(unnamed(e['base'])) == 'data']
    check.require(bool(wrote) and bool(gave), 'L9-result-payload',
                  'FitResult data name',
                  'the writer records self.data.name, the reader sets it on the data',
                  loc2, fail_detail='%s: a saved and reloaded result returns its '
                  'fitted image -- and the best-fit hologram made from it -- under the '
                  'name of the file variable, \'data\', where the same image saved on '
                  'its own keeps its name' % (
                      'the writer does not record the name of the fitted image'
                      if not wrote else 'the reader does not restore the name'))
    check.require('data' in unpacked, 'L9-result-payload', 'FitResult._unserialize data',
                  'the metadata of the fitted data is unpacked after reading', loc2)
    check.require(not crossed and restored <= unpacked, 'L9-result-payload',
                  'FitResult._unserialize arrays',
                  'each labelled array %s comes from the variable of the same name and '
                  'has its metadata unpacked' % sorted(restored), loc2,
                  fail_detail='restored from another variable: %s; not unpacked: %s' % (
                      crossed, sorted(restored - unpacked)))
    # the arrays strategies put into results
    need = {}
    foreign, flatdata = [], []
    results = set(prog.subclasses(R))
    nsites = 0
    for mname, m in sorted(prog.modules.items()):
        if not mname.startswith(INF) or 'third_party' in mname:
            continue
        for cq in [c for c in prog.classes if prog.classes[c].module is m]:
            for meth, mfd in prog.classes[cq].methods.items():
                names_ = {n.func.id for n in ast.walk(mfd) if isinstance(n, ast.Call)
                          and isinstance(n.func, ast.Name)}
                if not any(prog.resolve_name(mname, n)[0] == 'class' and
                           prog.resolve_name(mname, n)[1] in results for n in names_):
                    continue
                it3 = Interp(prog, max_depth=2, inline_new=False)
                try:
                    r3 = it3.analyze(cq + '.' + meth)
                except AnalysisError:
                    continue
                for x in subterms(r3.ret):
                    if x[0] == 'new' and x[1] in results:
                        kwt = x[2][4] if len(x[2]) > 4 else dict(x[3]).get('kwargs')
                        if kwt is None or kwt[0] != 'dict':
                            continue
                        nsites += 1
                        for k, v in kwt[1]:
                            t = v
                            while t[0] == 'upd':
                                t = t[1]
                            if k[0] == 'const' and t[0] == 'call' and \
                                    t[1] == 'xarray.DataArray':
                                need.setdefault(k[1], cq + '.' + meth)
                            # everything else goes through yaml.dump and comes back
                            # through yaml.safe_load: plain data and the package's own
                            # serialisable objects survive that, an object returned
                            # by another library does not
                            leaves = [t]
                            while any(x[0] == 'ite' for x in leaves):
                                leaves = [y for x in leaves for y in (
                                    (x[2], x[3]) if x[0] == 'ite' else (x,))]
                            for lf in leaves:
                                while lf[0] == 'upd':
                                    lf = lf[1]
                                if lf[0] == 'call' and isinstance(lf[1], str) and \
                                        not lf[1].startswith(('holopy.', 'xarray.', 'numpy.'))\
                                        and lf[1] not in ('list', 'dict', 'tuple', 'float',
                                                          'int', 'str', 'bool', 'len',
                                                          'sorted', 'max', 'min', 'sum',
                                                          'abs', 'round') \
                                        and '.' in lf[1]:
                                    foreign.append((cq.rpartition('.')[2] + '.' + meth,
                                                    k[1] if k[0] == 'const' else show(k),
                                                    lf[1]))
                        # the fitted data: what the writer/reader pair can carry is the
                        # caller's image or a subset made by make_subset_data (which
                        # records the original axes the reader rebuilds `flat` from)
                        dt = None
                        it4 = Interp(prog, max_depth=2, inline_new=False,
                                     opaque=[MD + 'make_subset_data', MD + 'flat'])
                        try:
                            r4_ = it4.analyze(cq + '.' + meth)
                            for x4 in subterms(r4_.ret):
                                if x4[0] == 'new' and x4[1] == x[1]:
                                    dt = x4[2][0] if x4[2] else dict(x4[3]).get('data')
                        except AnalysisError:
                            pass
                        if dt is not None:
                            dl = [dt]
                            while any(y[0] == 'ite' for y in dl):
                                dl = [z for y in dl for z in (
                                    (y[2], y[3]) if y[0] == 'ite' else (y,))]
                            for lf in dl:
                                while lf[0] == 'upd':
                                    lf = lf[1]
                                okd = lf[0] == 'sym' or (
                                    lf[0] == 'call' and isinstance(lf[1], str) and
                                    lf[1].endswith('make_subset_data'))
                                if not okd:
                                    flatdata.append((cq.rpartition('.')[2] + '.' + meth,
                                                     show(lf)[:60]))
    check.floor('result construction sites with literal extras', nsites, 4)
    for where, key_, lib in sorted(set(foreign)):
        check.bad('L9-result-payload', '%s extra %r' % (where, key_),
                  'the result carries the raw object returned by %s: it is written with a '
                  'python-object tag that the reader (yaml.safe_load) refuses, so the '
                  'saved result cannot be loaded' % lib, loc2)
    for where, what in sorted(set(flatdata)):
        check.bad('L9-result-payload', '%s data' % where,
                  'the result is given %s as its data: flattened but without the record '
                  'of the original axes, which the reader needs as soon as the data have '
                  'a `flat` dimension (AttributeError: original_dims on load)' % what, loc2)
    missing = sorted(set(need) - restored)
    check.require(not missing, 'L9-result-payload', 'FitResult._unserialize names',
                  'every labelled array a strategy stores in a result (%s) is restored'
                  % sorted(need), loc2,
                  fail_detail='%s put into results by %s but never read back' % (
                      missing, sorted({need[k] for k in missing})))


# ----------------------------------------------------------------------
def flat_index_roundtrip(check, prog):
    """L13: a result fitted on a pixel subset is saved with its stacked (x, y, z)
    pixel index taken apart -- netCDF has no MultiIndex -- and put together again
    on load.  Writer and reader must agree on the key, on the stand-in dimension
    and on the order of the three axes, and the reader must look each pixel's
    coordinate up in the axis *of the same name*."""
    RQ = 'holopy.inference.result.FitResult.'
    # the order in which flat() stacks the axes
    flatfd = prog.func('holopy.core.metadata.flat')
    order = None
    for n in ast.walk(flatfd):
        if isinstance(n, ast.Call) and isinstance(n.func, ast.Attribute) and \
                n.func.attr == 'stack':
            for k in n.keywords:
                if k.arg == 'flat' and isinstance(k.value, (ast.Tuple, ast.List)):
                    order = [e.value for e in k.value.elts if isinstance(e, ast.Constant)]
    if not order or len(order) != 3:
        check.error('metadata.flat: stacking order not found')
        return
    # ---- writer
    q = RQ + '_serialize_as_dataset'
    fd = prog.func(q)
    loc = prog.loc(q, fd)

    def decide_w(t):
        if t[0] == 'cmp' and t[1] == 'in' and t[2] == ('const', 'flat'):
            return True
        return None
    it = Interp(prog, max_depth=0, decide=decide_w)
    it.analyze(q)
    st = [e for e in it.effects if e['kind'] == 'setitem' and e['key'][0] == 'const'
          and isinstance(e['key'][1], str) and 'flat' in e['key'][1]]
    okw = len(st) == 1
    wkey = st[0]['key'][1] if okw else None
    detail = ''
    if okw:
        v = st[0]['value']
        # every element of the stacked index, as a list of its three coordinates
        okw = v[0] == 'comp' and v[1] == 'list' and len(v[3]) == 1 and not v[3][0][2]
        if okw:
            src = v[3][0][1]
            el = v[3][0][0]
            okw = v[2] in (intern(('call', 'list', (el,), ())), el) and \
                src[0] == 'attr' and src[2] == 'values' and src[1][0] == 'attr' and \
                src[1][2] == 'flat'
        detail = 'stores %s' % show(v)[:160]
    check.require(okw, 'L13-flat-index-round-trip', 'writer: pixel index taken apart',
                  'every entry of the stacked index is stored as its coordinate '
                  'triple, under one key', loc, fail_detail=detail)
    ren = [c for c in it.calls if c['name'] == '.rename' and len(c['args']) == 2 and
           c['args'][1][0] == 'dict']
    standin = None
    if len(ren) == 1:
        for k, v in ren[0]['args'][1][1]:
            if k == ('const', 'flat') and v[0] == 'const':
                standin = v[1]
    check.require(standin is not None, 'L13-flat-index-round-trip',
                  'writer: stand-in dimension',
                  'the stacked dimension is renamed to a plain one', loc)
    # ---- reader
    q = RQ + '_unserialize'
    fd = prog.func(q)
    loc = prog.loc(q, fd)
    rkeys = set()
    for n in ast.walk(fd):
        if isinstance(n, ast.Compare) and isinstance(n.left, ast.Constant) and \
                isinstance(n.left.value, str) and 'flat' in n.left.value and \
                isinstance(n.ops[0], ast.In):
            rkeys.add(n.left.value)
    check.require(rkeys == {wkey}, 'L13-flat-index-round-trip', 'key agreement',
                  'the reader looks for the key the writer stores (%r)' % wkey, loc,
                  fail_detail='reader tests %s' % sorted(rkeys))

    def decide_r(t):
        if t[0] == 'cmp' and t[1] == 'in' and t[2][0] == 'const' and \
                isinstance(t[2][1], str) and 'flat' in t[2][1]:
            return True
        return None
    # (helpers of the result module are followed: the reader may hand the
    # rebuilding of the index to a private function)
    it = Interp(prog, max_depth=1, decide=decide_r, opaque=[
        q0 for q0 in ('holopy.core.io.io.unpack_attrs', 'holopy.core.io.io.pack_attrs')])
    res = it.analyze(q)
    mi = [c for c in it.calls if c['name'].endswith('MultiIndex')]
    ok = len(mi) == 1 and len(mi[0]['args']) >= 2
    detail = 'no single MultiIndex construction'
    if ok:
        c = mi[0]
        levels, codes = c['args'][0], c['args'][1]
        names = dict(c['kwargs']).get('names')
        ok = levels[0] == 'list' and codes[0] == 'list' and names is not None and \
            names[0] == 'list' and len(levels[1]) == len(codes[1]) == len(names[1]) == 3
        detail = 'levels %s, names %s' % (show(levels)[:100], show(names)[:40] if names
                                          else None)
        if ok:
            nm = [x[1] if x[0] == 'const' else None for x in names[1]]
            ok = nm == order
            detail = 'index names %s, stacking order of flat() %s' % (nm, order)
        if ok:
            for k, (lv, cd, name) in enumerate(zip(levels[1], codes[1], nm)):
                # the level is the original axis of that name
                good = lv[0] == 'idx' and lv[2] == ('const', name) and \
                    lv[1][0] == 'attr' and lv[1][2] == 'original_dims'
                # its codes: position of the k-th stored coordinate in that level
                if good:
                    good = cd[0] == 'comp' and len(cd[3]) == 1 and not cd[3][0][2]
                if good:
                    el, src = cd[3][0][0], cd[3][0][1]
                    body = cd[2]
                    good = body == intern(('call', ('attr', lv, 'index'), (el,), ())) \
                        and src[0] == 'idx' and src[2] == num(k) and \
                        src[1][0] == 'attr' and src[1][2] == 'T' and any(
                            x[0] == 'idx' and x[2] == ('const', wkey)
                            for x in subterms(src[1]))
                if not good:
                    ok = False
                    detail = 'axis %r: level %s, codes %s' % (
                        name, show(lv)[:60], show(cd)[:120])
                    break
    check.require(ok, 'L13-flat-index-round-trip', 'reader: pixel index rebuilt',
                  'levels are the original x, y, z axes in the order flat() stacks '
                  'them; the k-th stored coordinate of each pixel is looked up in the '
                  'k-th axis', loc, fail_detail=detail)
    rets = res.ret
    da = rets[1][0] if rets is not None and rets[0] in ('list', 'tuple') and rets[1] \
        else None
    ok = da is not None and da[0] == 'call' and da[1] == 'xarray.DataArray'
    detail = ''
    if ok:
        co = kw(da, 'coords')
        dm = kw(da, 'dims')
        mit = None
        t = co
        while t is not None and t[0] == 'upd' and t[2] == 'item':
            if t[3] == ('const', 'flat'):
                mit = t[4]
            t = t[1]
        # the axes of the rebuilt array are the stored array's *dimensions* with
        # the stand-in renamed -- not its coordinates: a stored image may carry
        # coordinates that are no axes (the time of a frame, the label of the one
        # channel it was taken from), and a list of coordinate names is then longer
        # than the array has axes (the load fails; hp.load reports "no metadata")
        subs = set(subterms(dm)) if dm is not None else set()
        from_dims = any(x[0] == 'attr' and x[2] == 'dims' for x in subs)
        from_coords = any((x[0] == 'attr' and x[2] == 'coords') or
                          (x[0] == 'call' and x[1] == 'list' and x[2] and
                           x[2][0][0] == 'attr' and x[2][0][2] == 'coords')
                          for x in subs)
        ok = mit is not None and mit[0] == 'call' and mit[1].endswith('MultiIndex') and \
            dm is not None and ('const', 'flat') in subs and \
            ('const', standin) in subs and from_dims and not from_coords and \
            len(da[2]) >= 1 and da[2][0][0] == 'attr' and da[2][0][2] == 'values'
        detail = 'rebuilt as %s' % show(da)[:200]
        if dm is not None and from_coords:
            detail = 'dims=%s lists the coordinates of the stored array: a subset of ' \
                'a frame with a scalar coordinate (assign_coords(time=2.0); one ' \
                'plane of a colour stack) is saved but cannot be loaded again' % \
                show(dm)[:120]
    check.require(ok, 'L13-flat-index-round-trip', 'reader: data re-indexed',
                  'the values are re-labelled along `flat` by the rebuilt index: the '
                  'axes are the stored dimensions with the stand-in %r renamed, the '
                  'other coordinates are kept' % standin,
                  loc, fail_detail=detail)


def per_parameter_limits(check, prog):
    """L12h: every parameter has limits of its own.  NmpfitStrategy.minimize
    builds one description per parameter and then fills in `limited[k]` /
    `limits[k]`; a list created once *outside* the loop and put into every
    description is one list: every bounded parameter ends up with the limits of
    the last one (decided on the syntax tree: equal displays are equal terms)."""
    q = N + '.minimize'
    fd = prog.func(q)
    loc = prog.loc(q, fd)
    MUT = (ast.List, ast.Dict, ast.Set, ast.ListComp, ast.DictComp)
    loops = [n for n in ast.walk(fd) if isinstance(n, ast.For)]
    shared = []
    for lp in loops:
        inside = {id(x) for x in ast.walk(lp)}
        outer = {}
        for n in ast.walk(fd):
            if isinstance(n, ast.Assign) and id(n) not in inside and \
                    len(n.targets) == 1 and isinstance(n.targets[0], ast.Name) and \
                    isinstance(n.value, MUT) and n.lineno < lp.lineno:
                outer[n.targets[0].id] = n
        if not outer:
            continue
        # names of outer mutables placed into a structure built in the loop ...
        placed = {}
        for n in ast.walk(lp):
            if isinstance(n, ast.Dict):
                for k, v in zip(n.keys, n.values):
                    if isinstance(v, ast.Name) and v.id in outer and \
                            isinstance(k, ast.Constant):
                        placed[k.value] = v.id
            if isinstance(n, ast.Assign) and isinstance(n.value, ast.Name) and \
                    n.value.id in outer and isinstance(n.targets[0], ast.Subscript) and \
                    isinstance(n.targets[0].slice, ast.Constant):
                placed[n.targets[0].slice.value] = n.value.id
        # ... and updated through it
        for n in ast.walk(lp):
            if isinstance(n, (ast.Assign, ast.AugAssign)):
                t = n.targets[0] if isinstance(n, ast.Assign) else n.target
                if isinstance(t, ast.Subscript) and isinstance(t.value, ast.Subscript) \
                        and isinstance(t.value.slice, ast.Constant) and \
                        t.value.slice.value in placed:
                    shared.append((n.lineno, t.value.slice.value,
                                   placed[t.value.slice.value]))
    check.require(not shared, 'L12-per-parameter-limits', 'NmpfitStrategy.minimize',
                  'the limit entries of a parameter description are created for that '
                  'parameter', loc,
                  fail_detail='%s: the list `%s` is created once and shared by every '
                  'description -- all bounded parameters get the scaled limits of the '
                  'last bounded one (alpha\'s), and a parameter outside them makes '
                  'mpfit give up with a status nobody reads' % (
                      ', '.join('line %d [%r]' % (l, k) for l, k, _ in shared[:3]),
                      shared[0][2] if shared else ''))


def probe_inside_limit(check, prog):
    """L12f: the one-sided difference step of mpfit's Jacobian is taken *inwards*
    from an upper limit.  fdjac2 evaluates the model at x + h; for a parameter with
    an upper limit the sign of h is reversed whenever that point would lie beyond
    it, i.e. exactly when x + h > ulimit.  (A test of x alone reverses the step
    only for a parameter already beyond its bound: one sitting on it -- a guess on
    the prior's edge, a step clipped onto the limit -- is probed outside the
    prior's support, the prior residual is infinite and the fit ends in NaN.)"""
    Q = 'holopy.inference.third_party.nmpfit.mpfit.fdjac2'
    try:
        fd = prog.func(Q)
    except (KeyError, AnalysisError):
        return
    loc = prog.loc(Q, fd)
    cands = []
    for node in ast.walk(fd):
        if isinstance(node, ast.Assign) and len(node.targets) == 1 and \
                isinstance(node.targets[0], ast.Name) and node.targets[0].id == 'mask':
            for c in ast.walk(node.value):
                if isinstance(c, ast.Compare) and len(c.ops) == 1 and \
                        isinstance(c.ops[0], (ast.Gt, ast.GtE, ast.Lt, ast.LtE)):
                    names = {n.id for n in ast.walk(c) if isinstance(n, ast.Name)}
                    if 'ulimit' in names:
                        cands.append(c)
    check.need('step-reversal test against the upper limit in fdjac2', len(cands), 1,
               'L12-probe-inside-limit', 'mpfit.fdjac2',
               'the step is reversed at an upper limit', loc)
    from hpstatic.poly import Canon
    from hpstatic.interp import expr_term
    env = {n: sym(n) for n in ('x', 'h', 'ulimit')}
    c0 = Canon()
    want = expr_term(prog, 'x + h - ulimit', env)
    for c in cands:
        a = expr_term(prog, ast.unparse(c.left), env)
        b = expr_term(prog, ast.unparse(c.comparators[0]), env)
        if isinstance(c.ops[0], (ast.Lt, ast.LtE)):
            a, b = b, a
        ok = c0.equal(intern(('bin', '-', a, b)), want)
        check.require(ok, 'L12-probe-inside-limit', 'mpfit.fdjac2 line %d' % c.lineno,
                      'reversed exactly when x + h lies beyond the upper limit',
                      '%s:%d' % (loc.rpartition(':')[0], c.lineno),
                      fail_detail='the test is `%s`: a parameter on its upper limit is '
                      'probed at x + h, outside the prior (guess on the edge of a '
                      'Uniform: infinite prior residual, NaN parameters, the fit '
                      'raises)' % ast.unparse(c))


def limit_sides(check, prog):
    """L12: "every parameter stays within its prior's bounds" rests on mpfit's
    handling of the two limits, written twice -- once for the lower and once for
    the upper side.  Each name gets a side from where it is read (`limited[:, k]`,
    `limits[:, k]`; k = 0 lower, 1 upper; derived names inherit it); then
      a. no statement mixes the sides (except "any limit at all", joined by `|`);
      b. a comparison against a bound faces outwards: below the lower, above the
         upper bound;
      c. at a pegged parameter the gradient test and the step clip face inwards:
         lower `sum > 0`, clip to [0, ...]; upper `sum < 0`, clip to [..., 0];
      d. a value written back onto a bound comes from the bound of the side the
         index set was computed for."""
    modname = 'holopy.inference.third_party.nmpfit'
    if modname not in prog.modules:
        check.error('module %s not found' % modname)
        return
    mod = prog.modules[modname]
    tree = ast.parse(mod.src)
    fn = None
    for c in tree.body:
        if isinstance(c, ast.ClassDef) and c.name == 'mpfit':
            for m in c.body:
                if isinstance(m, ast.FunctionDef) and m.name == '__init__':
                    fn = m
    if fn is None:
        check.error('mpfit.__init__ not found')
        return
    rel = mod.relpath

    def loc_(n):
        return '%s:%d' % (rel, n.lineno)
    assigns = {}
    for n in ast.walk(fn):
        if isinstance(n, ast.Assign) and len(n.targets) == 1 and \
                isinstance(n.targets[0], ast.Name):
            assigns.setdefault(n.targets[0].id, []).append(n)
    side, kind = {}, {}
    for name, ns in assigns.items():
        ks = set()
        for n in ns:
            for x in ast.walk(n.value):
                if isinstance(x, ast.Subscript) and isinstance(x.value, ast.Name) and \
                        x.value.id in ('limited', 'limits') and \
                        isinstance(x.slice, ast.Tuple) and len(x.slice.elts) == 2 and \
                        isinstance(x.slice.elts[1], ast.Constant) and \
                        x.slice.elts[1].value in (0, 1):
                    ks.add(('LU'[x.slice.elts[1].value], x.value.id))
        if len(ks) == 1:
            (sd, kd), = ks
            side[name] = sd
            kind[name] = 'bound' if kd == 'limits' else 'flag'
    check.floor('limit names read from parinfo', len(side), 4)
    changed = True
    while changed:
        changed = False
        for name, ns in assigns.items():
            if name in side:
                continue
            ss = [set(side[x.id] for x in ast.walk(n.value)
                      if isinstance(x, ast.Name) and x.id in side) for n in ns]
            if all(len(s_) == 1 for s_ in ss) and len(set.union(*ss)) == 1:
                side[name] = next(iter(ss[0]))
                kind[name] = 'derived'
                changed = True
    WORD = {'L': 'lower', 'U': 'upper'}

    def sides_in(e):
        return set(side[x.id] for x in ast.walk(e)
                   if isinstance(x, ast.Name) and x.id in side)
    nstmt = 0
    # a. one side per statement
    for n in ast.walk(fn):
        if isinstance(n, (ast.Assign, ast.AugAssign, ast.Expr)):
            e = n
        elif isinstance(n, (ast.If, ast.While)):
            e = n.test
        else:
            continue
        ss = sides_in(e)
        if not ss:
            continue
        nstmt += 1
        if len(ss) == 1:
            continue
        v = n.value if isinstance(n, (ast.Assign, ast.Expr)) else e
        # "is any limit set": the sides joined by | only
        def joined_by_or(x):
            if isinstance(x, ast.BinOp) and isinstance(x.op, ast.BitOr):
                return joined_by_or(x.left) and joined_by_or(x.right)
            if isinstance(x, ast.BoolOp) and isinstance(x.op, ast.Or):
                return all(joined_by_or(y) for y in x.values)
            if isinstance(x, ast.Call) and len(x.args) == 1 and not x.keywords:
                return joined_by_or(x.args[0])
            return len(sides_in(x)) <= 1
        if joined_by_or(v):
            continue
        if isinstance(n, ast.Assign) and isinstance(n.value, ast.Name):
            continue        # flags aliased where no limit is set at all
        check.bad('L12-limit-sides', 'mpfit.__init__ statement at `%s`' %
                  norm_src(n if e is n else e)[:60],
                  'mixes the lower and the upper limit: %s' %
                  ast.unparse(n if e is n else e)[:120], loc_(n))
    check.floor('statements of mpfit.__init__ that handle a limit', nstmt, 12)
    # b. comparisons against a bound face outwards
    ncmp = 0
    for n in ast.walk(fn):
        if not (isinstance(n, ast.Compare) and len(n.ops) == 1):
            continue
        l, r = n.left, n.comparators[0]

        def bound_side(x):
            b = set(side[y.id] for y in ast.walk(x) if isinstance(y, ast.Name)
                    and kind.get(y.id) == 'bound')
            return next(iter(b)) if len(b) == 1 else None
        bl, br = bound_side(l), bound_side(r)
        if (bl is None) == (br is None):
            continue
        op = n.ops[0]
        if isinstance(op, (ast.Eq, ast.NotEq)):
            continue
        ncmp += 1
        less = isinstance(op, (ast.Lt, ast.LtE))
        sd = br if br else bl
        # value below bound:  value < bound  or  bound > value
        value_below = less if br else not less
        ok = value_below if sd == 'L' else not value_below
        check.require(ok, 'L12-limit-sides', 'mpfit.__init__ comparison `%s`' %
                      norm_src(n)[:60],
                      'a trial value is tested for lying %s the %s bound' % (
                          'below' if sd == 'L' else 'above', WORD[sd]), loc_(n),
                      fail_detail='%s tests the %s bound from the inside' % (
                          ast.unparse(n)[:80], WORD[sd]))
    check.floor('comparisons against a bound', ncmp, 4)
    # c. pegged parameters: inward-facing gradient test and clip
    npeg = 0
    seen_nodes = set()
    for n in ast.walk(fn):
        # the handling of one side: `if (nlpeg > 0): ...` or a loop over the
        # pegged indices themselves (`for i in range(nlpeg)`, `for j in whlpeg`)
        if isinstance(n, ast.If):
            head = n.test
        elif isinstance(n, ast.For):
            head = n.iter
        else:
            continue
        ss = sides_in(head)
        if len(ss) != 1 or not all(kind.get(x.id) == 'derived'
                                   for x in ast.walk(head)
                                   if isinstance(x, ast.Name) and x.id in side):
            continue
        sd = next(iter(ss))
        for st in n.body:
            for x in ast.walk(st):
                if id(x) in seen_nodes:
                    continue
                seen_nodes.add(id(x))
                if isinstance(x, ast.Compare) and len(x.ops) == 1 and \
                        isinstance(x.left, ast.Name) and \
                        isinstance(x.comparators[0], ast.Constant) and \
                        x.comparators[0].value == 0 and \
                        isinstance(x.ops[0], (ast.Gt, ast.Lt)) and \
                        not sides_in(x):
                    npeg += 1
                    want_gt = sd == 'L'
                    check.require(isinstance(x.ops[0], ast.Gt) == want_gt,
                                  'L12-limit-sides',
                                  'mpfit.__init__ pegged-%s gradient test' % WORD[sd],
                                  'the column of a parameter pegged at its %s bound is '
                                  'dropped when the misfit would fall by moving '
                                  'outwards (%s %s 0)' % (
                                      WORD[sd], x.left.id, '>' if want_gt else '<'),
                                  loc_(x), fail_detail=ast.unparse(x))
                fname = ast.unparse(x.func).split('.')[-1] \
                    if isinstance(x, ast.Call) else ''
                if fname in ('clip', 'maximum', 'minimum') and len(x.args) >= 2 and \
                        sides_in(x):

                    def zero(a):
                        return isinstance(a, ast.Constant) and a.value == 0

                    def unbounded(a, sign):
                        # None, or +-inf on the right side
                        if isinstance(a, ast.Constant) and a.value is None:
                            return True
                        src = ast.unparse(a).replace(' ', '')
                        return src in (('numpy.inf', 'np.inf', 'inf') if sign > 0 else
                                       ('-numpy.inf', '-np.inf', '-inf'))
                    npeg += 1
                    if fname == 'clip' and len(x.args) == 3:
                        lo, hi = x.args[1], x.args[2]
                        # numpy.clip(a, lo, hi) returns hi wherever lo > hi: the
                        # open end must be one that cannot cross zero
                        ok = (zero(lo) and unbounded(hi, +1)) if sd == 'L' else \
                            (zero(hi) and unbounded(lo, -1))
                        why = '%s: the other end of the clip is data (%s), and ' \
                            'numpy.clip returns its upper end wherever the ends ' \
                            'cross -- when every step component has one sign the ' \
                            'pegged component stays outward, the step length ' \
                            'becomes 0 and the fit stops where it is' % (
                                ast.unparse(x)[:80],
                                ast.unparse(hi if sd == 'L' else lo))
                    else:
                        ok = (fname == 'maximum') == (sd == 'L') and \
                            any(zero(a) for a in x.args[:2])
                        why = ast.unparse(x)[:100]
                    check.require(ok, 'L12-limit-sides',
                                  'mpfit.__init__ pegged-%s step clip' % WORD[sd],
                                  'the step of a parameter pegged at its %s bound is '
                                  'made to point inwards (max(step, 0) at a lower, '
                                  'min(step, 0) at an upper bound)' % WORD[sd], loc_(x),
                                  fail_detail=why)
    check.floor('pegged-parameter tests and clips', npeg, 4)
    # e. admissibility of the start values: a value *on* its bound is inside (the
    # default guess of a half-infinite Uniform prior is its finite bound), so the
    # refusal compares strictly -- below the lower, above the upper column
    nadm = 0
    for n in ast.walk(fn):
        if not (isinstance(n, ast.Compare) and len(n.ops) == 1):
            continue

        def column(x):
            if isinstance(x, ast.Subscript) and isinstance(x.value, ast.Name) and \
                    x.value.id == 'limits' and isinstance(x.slice, ast.Tuple) and \
                    len(x.slice.elts) == 2 and \
                    isinstance(x.slice.elts[1], ast.Constant):
                return x.slice.elts[1].value
            return None
        cl, cr = column(n.left), column(n.comparators[0])
        if (cl is None) == (cr is None):
            continue
        nadm += 1
        k = cr if cr is not None else cl
        op = n.ops[0]
        strict_below = isinstance(op, ast.Lt) if cr is not None else isinstance(op, ast.Gt)
        strict_above = isinstance(op, ast.Gt) if cr is not None else isinstance(op, ast.Lt)
        ok = strict_below if k == 0 else strict_above
        check.require(ok, 'L12-limit-sides', 'mpfit.__init__ start value vs %s limit' %
                      ('lower' if k == 0 else 'upper'),
                      'a start value is refused only when it lies strictly %s its %s '
                      'limit' % (('below', 'lower') if k == 0 else ('above', 'upper')),
                      loc_(n), fail_detail='%s: a guess sitting on its bound is refused; '
                      'mpfit returns status 0 with the guess as the result and the '
                      'strategy reports it as a converged fit' % ast.unparse(n)[:80])
    check.floor('start-value admissibility comparisons', nadm, 2)
    # d. write-back onto a bound: index set and bound of one side
    nput = [0]

    def check_puts(node, last):
        for x in ast.walk(node):
            if isinstance(x, ast.Call) and ast.unparse(x.func).endswith('put') \
                    and len(x.args) == 3 and isinstance(x.args[1], ast.Name):
                src = x.args[2]
                b_ = set(side[y.id] for y in ast.walk(src)
                         if isinstance(y, ast.Name) and kind.get(y.id) == 'bound')
                if len(b_) != 1:
                    continue
                idx = x.args[1].id
                isd = side.get(idx, last.get(idx))
                nput[0] += 1
                check.require(isd == next(iter(b_)), 'L12-limit-sides',
                              'mpfit.__init__ write-back `%s`' % norm_src(x)[:60],
                              'values are set onto the bound of the side the '
                              'index set was computed for', loc_(x),
                              fail_detail='%s: indices computed for the %s '
                              'side' % (ast.unparse(x)[:80], WORD.get(isd, 'unknown')))

    def visit(seq, last):
        for st in seq:
            if isinstance(st, (ast.If, ast.While, ast.For, ast.With, ast.Try)):
                for f_ in ('test', 'iter'):
                    if hasattr(st, f_):
                        check_puts(getattr(st, f_), last)
                inner = set()
                for f_ in ('body', 'orelse', 'finalbody'):
                    sub = getattr(st, f_, None)
                    if isinstance(sub, list):
                        visit(sub, dict(last))
                        for y in sub:
                            for z in ast.walk(y):
                                if isinstance(z, ast.Assign):
                                    inner |= set(t.id for t in z.targets
                                                 if isinstance(t, ast.Name))
                for h in getattr(st, 'handlers', []):
                    visit(h.body, dict(last))
                for nm in inner:
                    last[nm] = None
                continue
            check_puts(st, last)
            if isinstance(st, ast.Assign) and len(st.targets) == 1 and \
                    isinstance(st.targets[0], ast.Name):
                ss = sides_in(st.value)
                last[st.targets[0].id] = next(iter(ss)) if len(ss) == 1 else None
    visit(fn.body, {})
    nput = nput[0]
    check.floor('write-backs onto a bound', nput, 2)


def minimiser_internals(check, prog):
    """L10 / L11: two shape rules on the Levenberg-Marquardt code NmpfitStrategy runs
    (holopy/inference/third_party/nmpfit.py, a translation of MINPACK).

    L10  a saved value must be a snapshot.  `v = numpy.diagonal(A)` (likewise `.T`,
         a basic slice, `.ravel()`, `.reshape()`) is a *view*: if A is stored into
         afterwards and v is read after that, v no longer holds what was saved --
         `A[j, j] = v[j]` then restores nothing.  qrsolv saves the diagonal of R
         that way; lmpar calls it repeatedly on the same R.
    L11  the Gauss-Newton direction solves R x = Q^T b for every non-singular
         leading block, the 1 x 1 block included (MINPACK lmpar: `if (nsing .lt. 1)
         go to 50`): the back substitution `for j in range(nsing-1, -1, -1)` must
         run whenever nsing >= 1.  Guarded by `nsing > 1`, a fit with one free
         parameter takes Q^T b itself as its step."""
    modname = 'holopy.inference.third_party.nmpfit'
    if modname not in prog.modules:
        check.error('module %s not found' % modname)
        return
    mod = prog.modules[modname]
    tree = ast.parse(mod.src)
    VIEW_FUNCS = {'diagonal', 'ravel', 'reshape', 'transpose', 'swapaxes', 'squeeze'}
    COPIES = {'copy', 'array', 'deepcopy', 'asarray_chkfinite'}
    nviews = 0
    bad10 = []
    nfuncs = 0
    for fn in [n for n in ast.walk(tree) if isinstance(n, ast.FunctionDef)]:
        nfuncs += 1
        stmts = [s for s in ast.walk(fn) if isinstance(s, ast.stmt)]
        stmts.sort(key=lambda s: (s.lineno, s.col_offset))
        for st in stmts:
            if not (isinstance(st, ast.Assign) and len(st.targets) == 1 and
                    isinstance(st.targets[0], ast.Name)):
                continue
            v, e = st.targets[0].id, st.value
            base = None
            if isinstance(e, ast.Call) and isinstance(e.func, ast.Attribute) and \
                    e.func.attr in VIEW_FUNCS:
                # numpy.diagonal(A) / A.diagonal()
                recv = e.func.value
                if isinstance(recv, ast.Name) and recv.id in ('numpy', 'np') and e.args \
                        and isinstance(e.args[0], ast.Name):
                    base = e.args[0].id
                elif isinstance(recv, ast.Name):
                    base = recv.id
            elif isinstance(e, ast.Attribute) and e.attr == 'T' and isinstance(e.value, ast.Name):
                base = e.value.id
            if base is None or base == v:
                continue
            nviews += 1
            after = [s for s in stmts if (s.lineno, s.col_offset) > (st.lineno, st.col_offset)]
            # v rebound before any use?  then only statements up to the rebinding count
            stores, reads = [], []
            for s in after:
                if isinstance(s, ast.Assign) and any(
                        isinstance(t, ast.Name) and t.id == v for t in s.targets) and \
                        not any(isinstance(n, ast.Name) and n.id == v
                                for n in ast.walk(s.value)):
                    break
                for t in (s.targets if isinstance(s, ast.Assign) else
                          [s.target] if isinstance(s, ast.AugAssign) else []):
                    root = t
                    while isinstance(root, (ast.Subscript, ast.Attribute)):
                        root = root.value
                    if isinstance(t, ast.Subscript) and isinstance(root, ast.Name) \
                            and root.id == base:
                        stores.append(s.lineno)
                val = s.value if isinstance(s, (ast.Assign, ast.AugAssign, ast.Expr,
                                                  ast.Return)) and s.value is not None else None
                if val is not None and any(isinstance(n, ast.Name) and n.id == v and
                                           isinstance(n.ctx, ast.Load)
                                           for n in ast.walk(val)):
                    reads.append(s.lineno)
            if stores and any(r_ > min(stores) for r_ in reads):
                bad10.append('%s: `%s = %s` (line %d) is a view of %s, which is stored '
                             'into at line %d and read back at line %d' % (
                                 fn.name, v, ast.unparse(e), st.lineno, base,
                                 min(stores), min(r_ for r_ in reads if r_ > min(stores))))
    check.floor('functions of the bundled minimiser scanned', nfuncs, 10)
    check.require(not bad10, 'L10-saved-value-is-a-snapshot', 'third_party.nmpfit',
                  'no array view is used as the saved copy of something that is then '
                  'overwritten (%d view bindings checked)' % nviews,
                  '%s:1' % mod.relpath,
                  fail_detail='; '.join(bad10[:2]) + ': the restore is a no-op, so the '
                  'matrix handed back differs and every later trial step of the '
                  'Levenberg-Marquardt parameter search is computed from a corrupted R')
    # L11
    lm = [n for n in ast.walk(tree) if isinstance(n, ast.FunctionDef) and n.name == 'lmpar']
    if len(lm) != 1:
        check.error('lmpar not found in %s' % modname)
        return
    bad11 = []
    nloops = 0
    for n in ast.walk(lm[0]):
        if not isinstance(n, ast.If):
            continue
        for inner in n.body:
            if not (isinstance(inner, ast.For) and isinstance(inner.iter, ast.Call) and
                    isinstance(inner.iter.func, ast.Name) and inner.iter.func.id == 'range'):
                continue
            a = inner.iter.args
            # range(N - 1, -1, -1): runs for N >= 1
            if len(a) == 3 and ast.unparse(a[1]) == '-1' and ast.unparse(a[2]) == '-1' and \
                    isinstance(a[0], ast.BinOp) and isinstance(a[0].op, ast.Sub) and \
                    ast.unparse(a[0].right) == '1':
                N = ast.unparse(a[0].left)
                t = n.test
                if isinstance(t, ast.Compare) and len(t.ops) == 1 and \
                        ast.unparse(t.left) == N and isinstance(t.comparators[0], ast.Constant):
                    nloops += 1
                    k = t.comparators[0].value
                    runs_from = {ast.Gt: k + 1, ast.GtE: k, ast.NotEq: None}.get(type(t.ops[0]))
                    if runs_from is None or runs_from > 1:
                        bad11.append('`if %s:` (line %d) skips the back substitution for '
                                     '%s == 1' % (ast.unparse(t), n.lineno, N))
    check.floor('guarded back substitutions in lmpar', nloops, 1)
    check.require(not bad11, 'L11-gauss-newton-for-one-parameter', 'third_party.nmpfit.lmpar',
                  'the back substitution R x = Q^T b runs for every nsing >= 1',
                  '%s:%d' % (mod.relpath, lm[0].lineno),
                  fail_detail='; '.join(bad11) + ': with a single free parameter the step '
                  'is Q^T b itself, not R^-1 Q^T b -- the fit returns its starting value '
                  '(or crawls) and reports convergence')
