"""C17  Propagation is a norm-bounded linear group action; fft/ifft inverses.

Decides from the source:
  A  inverse-pair table: for every (ndim==1?, shift?) configuration the chain
     of numpy.fft operations of `ifft` is the reversed chain of inverses of
     `fft`'s, on corresponding axes (x<->m, y<->n as renamed by
     transform_metadata);
  B  the coordinate transforms: the round trip ift_coord(ft_coord(c)) can
     restore c only if it depends on c's origin (E7);
  C  propagate: d == 0 returns the input; data passes only through linear
     operations and a transfer function that does not depend on the pixel
     values; the result is returned through copy_metadata(data, .) after the
     x / y coordinates are restored from the input;
  D  trans_func (no gradient filter, no cascading): g = exp(K*d) * M with the
     exponent homogeneous of degree 1 in d (so G(d1)G(d2) = G(d1+d2) by
     exp(a)exp(b) = exp(a+b)), purely imaginary where the mask is 1 (|G| <= 1),
     M a 0/1 mask independent of d.
Not decided: d then -d (needs no evanescent frequency), numerical accuracy.
"""
import ast

from hpstatic.interp import Interp, expr_term
from hpstatic.loader import AnalysisError
from hpstatic.poly import Canon, I_ATOM
from hpstatic.terms import (sym, intern, show, subterms, calls_in, TRUE, FALSE,
                            NONE, atoms_of, kw, num)

MUTATION_TARGETS = {'holopy/core/process/fourier.py': ['fft', 'ifft', 'transform_metadata', 'ft_coord', 'ift_coord', 'ft_coords', 'ift_coords'], 'holopy/propagation/convolution_propagation.py': ['propagate', 'trans_func']}

LEVEL = 'other'
META = dict(
    claimed=True,
    technique='operation-chain extraction by symbolic evaluation + inverse-pair '
              'table; dependence analysis of the coordinate transforms; '
              'canonical-form (degree / realness) analysis of the transfer '
              'function; return-path (must-pass-through copy_metadata) check'
              '; per-axis source analysis of ft_coords / ift_coords through pop / sto'
              're layers',
    level_text='Static: decides clauses A-D of C17 for all inputs at once (shape '
               'parity never enters: the rule is about which numpy.fft operation '
               'undoes which, on which axes).  A is a proof of the fft/ifft '
               'inverse clause modulo numpy.fft\'s documented inverse pairs; C/D '
               'give linearity, the group law and |G| <= 1 for the plain transfer '
               'function.  Does not decide the d / -d round trip or accuracy.',
    level_note='Trusted: numpy.fft documentation (ifft2 inverts fft2 on the same '
               'axes, ifftshift inverts fftshift for every length, fftshift does '
               'not for odd lengths); xarray arithmetic is elementwise.',
)

FOURIER = 'holopy.core.process.fourier'
PROP = 'holopy.propagation.convolution_propagation'
INVERSE = {'numpy.fft.fft': 'numpy.fft.ifft', 'numpy.fft.fft2': 'numpy.fft.ifft2',
           'numpy.fft.fftshift': 'numpy.fft.ifftshift',
           'numpy.fft.fftn': 'numpy.fft.ifftn'}
INVERSE.update({v: k for k, v in list(INVERSE.items())})


def chain_of(t, source):
    """Peel numpy.fft calls off term t down to `source`; outermost first."""
    out = []
    while True:
        if t == source:
            return out
        if t[0] == 'call' and isinstance(t[1], str) and t[1].startswith('numpy.fft.') \
                and t[2]:
            axes = kw(t, 'axes')
            if axes is None and len(t[2]) > 1:
                axes = t[2][1]
            names = None
            if axes is not None:
                names = []
                items = axes[1] if axes[0] in ('list', 'tuple') else None
                if items is None:
                    raise AnalysisError('axes of %s not a literal: %s' % (t[1], show(axes)))
                for a in items:
                    # data.dims.index('x')
                    if a[0] == 'call' and isinstance(a[1], tuple) and \
                            a[1][0] == 'attr' and a[1][2] == 'index' and \
                            a[2] and a[2][0][0] == 'const':
                        names.append(a[2][0][1])
                    else:
                        names.append(show(a))
            out.append((t[1], tuple(names) if names is not None else None))
            t = t[2][0]
            continue
        raise AnalysisError('unexpected operation in fft/ifft chain: %s' % show(t)[:160])


def run(check, prog):
    check.explanation = (
        'fft and ifft are evaluated symbolically under each (1-D?, shift?) '
        'configuration; the resulting numpy.fft operation chains must be mutual '
        'inverses.  propagate / trans_func are evaluated into terms and their '
        'shape (linearity in the data, degree in d, realness) is checked.')
    check.trusted += ['numpy.fft inverse pairs', 'xarray elementwise arithmetic']
    canon = Canon()
    clause_A(check, prog)
    clause_A2(check, prog)
    clause_A3(check, prog)
    clause_B(check, prog)
    clause_B2(check, prog, canon)
    clause_C(check, prog)
    clause_D(check, prog, canon)
    # "preserves pixel coordinates and metadata": the final copy_metadata
    from . import c01
    c01.f6_copy_metadata(check, prog)


def configs(prog, fname, isarray):
    """Return dict (is1d, shift) -> op chain for fft / ifft."""
    out = {}
    q = FOURIER + '.' + fname
    import operator
    OPS = {'==': operator.eq, '!=': operator.ne, '<': operator.lt, '<=': operator.le,
           '>': operator.gt, '>=': operator.ge}
    for is1d in (1, 2, 3):          # the number of dimensions of the input
        for shift in (True, False):
            def decide(t, is1d=is1d, shift=shift):
                if t[0] == 'cmp' and t[1] in OPS and t[2][0] == 'attr' and \
                        t[2][2] == 'ndim' and t[3][0] == 'num':
                    return OPS[t[1]](is1d, t[3][1])
                if t == sym('shift'):
                    return shift
                if t[0] == 'call' and t[1] == 'isinstance':
                    return isarray
                return None
            it = Interp(prog, max_depth=2, decide=decide,
                        opaque=[FOURIER + '.transform_metadata'])
            res = it.analyze(q)
            ret = res.ret
            if isarray:
                if not (ret[0] == 'call' and ret[1] == 'xarray.DataArray' and ret[2]):
                    raise AnalysisError('%s does not return a DataArray for '
                                        'DataArray input: %s' % (fname, show(ret)[:120]))
                meta = kw(ret, '**')
                inv_flag = None
                if meta is not None and meta[0] == 'call' and meta[2]:
                    inv_flag = meta[2][-1]
                body = ret[2][0]
                src = intern(('attr', sym('data'), 'values'))
            else:
                body, inv_flag = ret, None
                src = sym('data')
            out[(is1d, shift)] = (chain_of(body, src), inv_flag)
    return out


def clause_A(check, prog):
    tm = prog.func(FOURIER + '.transform_metadata')
    # axis renaming table of transform_metadata
    ren = {}
    for n in ast.walk(tm):
        if isinstance(n, ast.Assign) and isinstance(n.targets[0], ast.Subscript):
            tgt = n.targets[0]
            if isinstance(tgt.slice, ast.Call) and isinstance(tgt.slice.func, ast.Attribute) \
                    and tgt.slice.func.attr == 'index' and \
                    ast.unparse(tgt.slice.func.value) == ast.unparse(tgt.value) \
                    and tgt.slice.args and isinstance(tgt.slice.args[0], ast.Constant) \
                    and isinstance(n.value, ast.Constant):
                ren[(tgt.slice.args[0].value, n.value.value)] = True
    want = {('x', 'm'), ('y', 'n'), ('m', 'x'), ('n', 'y')}
    loc = prog.loc(FOURIER, tm)
    check.require(set(ren) == want, 'A-axis-renaming', 'transform_metadata',
                  'dims renamed in place x<->m, y<->n', loc,
                  fail_detail='renames are %s' % sorted(ren))
    fmap = {'x': 'm', 'y': 'n'}
    for isarray in (True, False):
        try:
            f = configs(prog, 'fft', isarray)
            g = configs(prog, 'ifft', isarray)
        except AnalysisError as e:
            if isarray:
                raise
            continue
        for cfg in sorted(f):
            ndim, shift = cfg
            is1d = ndim == 1
            if not isarray and not is1d:
                continue    # fft needs .dims for >= 2-D input: xarray only
            fc, fflag = f[cfg]
            gc, gflag = g[cfg]
            construct = 'fft/ifft %s ndim=%d shift=%s' % (
                'DataArray' if isarray else 'ndarray', ndim, shift)
            floc = prog.loc(FOURIER, prog.func(FOURIER + '.ifft'))
            # fc outermost-first [opN..op1]; inverse applies inv(opN) first:
            # ifft chain innermost-first must be inv(opN), ..., inv(op1)
            expect = [(INVERSE.get(op), None if ax is None else
                       tuple(fmap.get(a, a) for a in ax)) for op, ax in fc]
            got = list(reversed(gc))
            ok = len(expect) == len(got) and all(
                e[0] == h[0] and (e[1] == h[1] or (is1d and None in (e[1], h[1])))
                for e, h in zip(expect, got))
            check.require(
                ok, 'A-inverse-chain', construct,
                'ifft applies %s' % (got,), floc,
                fail_detail='fft applies (outermost first) %s; its inverse is '
                '%s applied in that order, but ifft applies %s' % (fc, expect, got))
            if isarray:
                check.require(fflag == FALSE and gflag == TRUE, 'A-metadata-direction',
                              construct, 'transform_metadata(data, inverse=False/True)',
                              floc, fail_detail='fft passes %s, ifft passes %s' % (
                                  show(fflag) if fflag else None,
                                  show(gflag) if gflag else None))


def clause_B(check, prog):
    """ift_coord(ft_coord(c)) cannot return c unless it depends on c's origin."""
    for fn in ('ft_coord', 'ift_coord'):
        q = FOURIER + '.' + fn
        fd = prog.func(q)
        it = Interp(prog, max_depth=3)
        res = it.analyze(q)
        ret = res.ret
        c = sym('c')
        uses = set()
        for x in subterms(ret):
            if x[0] == 'call' and c in x[2]:
                uses.add(x[1] if isinstance(x[1], str) else show(x[1]))
            if x[0] == 'idx' and x[1] == c:
                uses.add('index')
        shift_invariant = uses <= {'numpy.diff', 'len'}
        construct = '%s reads its coordinate only through %s' % (fn, sorted(uses))
        if fn == 'ift_coord':
            check.require(
                not shift_invariant, 'B-coordinate-origin', 'ift_coord',
                'inverse coordinate transform depends on the origin', prog.loc(q, fd),
                fail_detail='ift_coord reads its input only through %s, which are '
                'invariant under adding a constant: the x / y origin of an image '
                'is lost by ifft(fft(image)) and comes back as 0' % sorted(uses))
        else:
            check.note('coordinate transform reads', construct)


def clause_B2(check, prog, canon):
    """Spacing round trip of the coordinate transforms: a uniformly spaced
    coordinate with spacing s and n points comes back with spacing s and n
    points (linspace(a, b, n) has spacing (b - a)/(n - 1))."""
    from .c05 import subst
    S, Ncount = sym('S'), sym('N')
    out = {}
    for fn in ('ft_coord', 'ift_coord'):
        q = FOURIER + '.' + fn
        fd = prog.func(q)
        c = sym(fd.args.args[0].arg)
        it = Interp(prog, max_depth=1, opaque=[FOURIER + '.get_spacing'])
        res = it.analyze(q)
        v = res.ret
        ok = v[0] == 'call' and v[1] == 'numpy.linspace' and len(v[2]) == 3 and not v[3]
        if not ok:
            check.bad('B-spacing-round-trip', fn, 'does not return np.linspace(lo, hi, '
                      'n): %s' % show(v)[:120], prog.loc(q, fd))
            return
        m = {intern(('call', FOURIER + '.get_spacing', (c,), ())): S,
             intern(('call', 'len', (c,), ())): Ncount}
        lo, hi, n = [subst(a, m) for a in v[2]]
        if any(x == c for t in (lo, hi, n) for x in subterms(t)):
            # a transform that also uses the coordinate's origin is outside this
            # rule's algebra (clause B is the statement about the origin)
            check.note('spacing round trip not evaluated', fn + ' reads the '
                       'coordinate values themselves')
            return
        out[fn] = (lo, hi, n, prog.loc(q, fd))
    ok_n = out['ft_coord'][2] == Ncount and out['ift_coord'][2] == Ncount
    check.require(ok_n, 'B-spacing-round-trip', 'number of points',
                  'both transforms return as many points as they receive',
                  out['ft_coord'][3])
    lo, hi, n, loc = out['ft_coord']
    s1 = intern(('bin', '/', ('bin', '-', hi, lo), ('bin', '-', Ncount, num(1))))
    lo2, hi2, n2, loc2 = out['ift_coord']
    s2 = intern(('bin', '/', ('bin', '-', subst(hi2, {S: s1}), subst(lo2, {S: s1})),
                 ('bin', '-', Ncount, num(1))))
    check.require(canon.equal(s2, S), 'B-spacing-round-trip', 'ift_coord(ft_coord(c))',
                  'the pixel spacing survives the round trip: with spacing s and n '
                  'points, ft_coord has spacing 1/(s(n-1)) and ift_coord of that has '
                  'spacing s', loc2,
                  fail_detail='the round trip returns spacing %s for an input spacing S'
                  % canon.show(s2)[:160])
    check.require(canon.is_zero(lo2), 'B-spacing-round-trip', 'ift_coord origin',
                  'the restored coordinate starts at 0', loc2)
    # the frequency axis is centred: lo = -hi
    check.require(canon.equal(lo, intern(('un', '-', hi))), 'B-spacing-round-trip',
                  'ft_coord symmetric', 'frequencies run from -f to +f', loc)


def clause_A2(check, prog):
    """transform_metadata: forward renames x->m, y->n and uses the forward
    coordinate transform; inverse renames m->x, n->y and uses the inverse one;
    attrs and name are carried over."""
    from hpstatic.logic import select
    q = FOURIER + '.transform_metadata'
    fd = prog.func(q)
    loc = prog.loc(q, fd)
    a, inv = [sym(x.arg) for x in fd.args.args[:2]]
    it = Interp(prog, max_depth=1, opaque=[FOURIER + '.ft_coords',
                                           FOURIER + '.ift_coords'])
    res = it.analyze(q)
    v = res.ret
    ok = v[0] == 'dict'
    d = {k[1]: x for k, x in v[1] if k[0] == 'const'} if ok else {}
    ok = ok and set(d) == {'dims', 'coords', 'attrs', 'name'} and \
        d['attrs'] == ('attr', a, 'attrs') and d['name'] == ('attr', a, 'name')
    detail = 'returns %s' % show(v)[:160]
    for inverse, ren, cf in ((False, {'x': 'm', 'y': 'n'}, FOURIER + '.ft_coords'),
                             (True, {'m': 'x', 'n': 'y'}, FOURIER + '.ift_coords')):
        if not ok:
            break
        hyp = lambda t, inverse=inverse: inverse if t == inv else None
        dims = select(d['dims'], hyp)
        co = select(d['coords'], hyp)
        if dims is None or co is None:
            ok, detail = False, 'not decided by `inverse`'
            break
        got = {}
        t = dims
        while t[0] == 'upd' and t[2] == 'item':
            key, val = t[3], t[4]
            if key[0] == 'call' and isinstance(key[1], tuple) and key[1][2] == 'index' \
                    and key[2] and key[2][0][0] == 'const' and val[0] == 'const':
                got[key[2][0][1]] = val[1]
            t = t[1]
        base_ok = t == ('call', 'list', (('attr', a, 'dims'),), ())
        if got != ren or not base_ok or co != ('call', cf, (('attr', a, 'coords'),), ()):
            ok = False
            detail = 'inverse=%s: renames %s, coordinates %s' % (
                inverse, got, show(co)[:80])
    check.require(ok, 'A-axis-renaming', 'transform_metadata per direction',
                  'forward: x->m, y->n with ft_coords; inverse: m->x, n->y with '
                  'ift_coords; attrs and name kept', loc, fail_detail=detail)


def clause_C(check, prog):
    q = PROP + '.propagate'
    fd = prog.func(q)
    loc = prog.loc(q, fd)
    it = Interp(prog, max_depth=1, opaque=[
        PROP + '.trans_func', FOURIER + '.fft', FOURIER + '.ifft',
        'holopy.core.metadata.update_metadata', 'holopy.core.metadata.copy_metadata'])
    res = it.analyze(q)
    outs = res.returns
    # 1. d == 0 shortcut returns the input object itself
    first = outs[0]
    cond_txt = ' and '.join(('' if p else 'not ') + show(t) for t, p in first.cond)
    dd = sym('d')
    scal = intern(('call', 'numpy.isscalar', (dd,), ()))
    zero = intern(('cmp', '==', dd, num(0)))
    ok = first.value == sym('data') and len(first.cond) == 1 and first.cond[0][1] and \
        first.cond[0][0][0] == 'bool' and first.cond[0][0][1] == 'and' and \
        set(first.cond[0][0][2]) == {scal, zero}
    check.require(ok, 'C-zero-distance-identity', 'propagate',
                  'returns data unchanged when d is the scalar 0', loc,
                  fail_detail='first return is %s under %s' % (show(first.value), cond_txt))
    mp = [o for o in res.raises if 'MissingParameter' in show(o.value)]
    okm = len(mp) == 1 and len(res.raises) == 1
    if okm:
        cs = [(t, p) for t, p in mp[0].cond if not (t[0] == 'bool' and scal in t[2])]
        okm = len(cs) == 1 and cs[0][1] and cs[0][0][0] == 'bool' and \
            cs[0][0][1] == 'or' and len(cs[0][0][2]) == 2 and all(
                x[0] == 'cmp' and x[1] == 'is' and x[3] == NONE and x[2][0] == 'attr'
                for x in cs[0][0][2]) and \
            {x[2][2] for x in cs[0][0][2]} == {'medium_index', 'illum_wavelen'}
    check.require(okm, 'C-refuses-only-missing-optics', 'propagate',
                  'MissingParameter is raised iff the medium index or the wavelength '
                  'is unknown', loc, fail_detail='raising paths: %s' % [
                      [(show(t)[:80], p) for t, p in o.cond] for o in res.raises])
    final = outs[-1].value
    # 2. must pass through copy_metadata(<updated data>, res)
    ok = final[0] == 'call' and final[1] == 'holopy.core.metadata.copy_metadata' \
        and len(final[2]) == 2
    donor = final[2][0] if ok else None
    ok = ok and donor[0] == 'call' and donor[1] == 'holopy.core.metadata.update_metadata' \
        and donor[2] and donor[2][0] == sym('data')
    check.require(ok, 'C-metadata-preserved', 'propagate return',
                  'result returned through copy_metadata(update_metadata(data,..), res)',
                  loc, fail_detail='propagate returns %s' % show(final)[:200])
    if not ok:
        return
    body = final[2][1]
    # 3. coordinates restored from the input
    upd = [c for c in calls_in(body, 'update') if c[2] and c[2][0][0] == 'dict']
    restored = set()
    for c in upd:
        for k, v in c[2][0][1]:
            if k[0] == 'const' and v[0] == 'attr' and v[2] == k[1] and \
                    atoms_of(v) == {sym('data')} | (atoms_of(v) - {sym('data')}):
                if sym('data') in atoms_of(v):
                    restored.add(k[1])
    check.require({'x', 'y'} <= restored, 'C-coordinates-restored', 'propagate',
                  'x and y of the result are taken from the input image', loc,
                  fail_detail='coordinates restored from the input: %s' % sorted(restored))
    # 4. linear data path: ifft(fft(data).squeeze('z') * G), G independent of values
    iff = calls_in(body, FOURIER + '.ifft')
    ok = len(iff) >= 1
    lin = False
    gdep = None
    for c in iff:
        arg = c[2][0]
        if arg[0] == 'bin' and arg[1] == '*':
            a, b = arg[2], arg[3]
            for da, G in ((a, b), (b, a)):
                ff = calls_in(da, FOURIER + '.fft')
                if ff and G[0] == 'call' and G[1] == PROP + '.trans_func':
                    # data side: only fft / squeeze / transpose wrappers
                    t = da
                    okpath = True
                    while t != ff[0]:
                        if t[0] == 'call' and isinstance(t[1], tuple) and \
                                t[1][0] == 'attr' and t[1][2] in ('squeeze', 'transpose'):
                            t = t[1][1]
                        else:
                            okpath = False
                            break
                    lin = okpath and ff[0][2][0] == donor
                    gdep = G
    check.require(lin, 'C-linear-data-path', 'propagate',
                  'res = ifft(fft(data) * G): the pixel values pass only through '
                  'linear operations', loc,
                  fail_detail='data path is %s' % show(body)[:240])
    if gdep is not None:
        # G receives the schema (for coordinates), d, wavelength: trans_func
        # itself must read the schema only through coordinates
        tq = PROP + '.trans_func'
        tit = Interp(prog, max_depth=3)
        tres = tit.analyze(tq)
        reads = set()
        for x in subterms(tres.ret):
            if x[0] == 'attr' and x[1] == sym('schema'):
                reads.add(x[2])
        bare = any(sym('schema') in (a for a in x[2]) for x in subterms(tres.ret)
                   if x[0] == 'call')
        check.require(reads <= {'x', 'y'} and not bare,
                      'C-transfer-function-independent-of-values', 'trans_func',
                      'reads the image only through its x / y coordinates', loc,
                      fail_detail='trans_func reads schema.%s%s' % (
                          sorted(reads), ' and passes it whole to a call' if bare else ''))
    # 5. zero inside a list: the input itself is stacked in, along z -- exactly
    #    when d is not a scalar and contains a zero, and then the transfer
    #    function is computed for the non-zero distances only (truth table over
    #    the two guard atoms)
    from hpstatic.logic import select
    import itertools
    arr = intern(('call', 'numpy.array', (dd,), ()))
    anyz = [x for x in subterms(body) if x[0] == 'call' and isinstance(x[1], tuple)
            and x[1][0] == 'attr' and x[1][2] == 'any' and
            x[1][1][0] == 'cmp' and x[1][1][1] == '==' and x[1][1][3] == num(0) and
            x[1][1][2] in (arr, dd)]
    tf = calls_in(body, PROP + '.trans_func')
    # "gives for a list of distances the stack of the single-distance results": in
    # the order of the list, one slice per entry, each labelled with its distance.
    # The transfer function of distance 0 is 1, so a zero needs no special case; a
    # special case that takes the zeros out and puts the input back *first* returns
    # [1, 0, 2] as z = [z_image, 1, 2] and [0, 0, 1] as two slices.  Rule: whatever
    # is handed to trans_func for a list is the whole list (as an array), and the
    # result is not re-assembled from the input and a shorter stack.
    ok = len(tf) >= 1
    detail = 'no call of trans_func'
    rows = 0
    if ok:
        for A in (True, False):
            for Z in ((True, False) if anyz else (False,)):
                hyp = lambda t, A=A, Z=Z: A if t == scal else (Z if t in anyz else None)
                leaf = select(body, hyp)
                darg = select(tf[0][2][1], hyp) if len(tf[0][2]) > 1 else None
                if leaf is None or darg is None:
                    ok, detail = False, 'result is not decided by (scalar d, zero in d)'
                    break
                rows += 1
                good = not calls_in(leaf, 'xarray.concat') and \
                    not calls_in(darg, 'numpy.delete') and darg == (dd if A else arr)
                if not good:
                    ok = False
                    detail = 'scalar d=%s, zero in d=%s: result %s, distances handed to ' \
                        'trans_func %s' % (A, Z, show(leaf)[:80], show(darg)[:80])
                    break
            if not ok:
                break
    check.require(ok, 'C-zero-in-list', 'propagate',
                  'a list of distances is propagated whole and in order, zeros '
                  'included: nothing is taken out of it and nothing is stacked in '
                  'front of the result (%d rows)' % rows, loc, fail_detail=detail)
    # ... and every slice keeps its own z label: nothing relabels / reorders
    # the stack after the concatenation
    relabel = []
    for x in subterms(body):
        if x[0] == 'call' and isinstance(x[1], tuple) and x[1][0] == 'attr' and \
                x[1][2] in ('assign_coords', 'reindex', 'sortby', 'rename',
                            'reset_index', 'set_index', 'assign', 'roll', 'shift') \
                and calls_in(x[1][1], 'xarray.concat'):
            relabel.append(x[1][2])
        if x[0] == 'upd' and x[2] == 'item' and x[3] == ('const', 'z') and \
                calls_in(x[1], 'xarray.concat'):
            relabel.append("['z'] = ...")
    check.require(not relabel, 'C-zero-in-list', 'propagate stack labels',
                  'after stacking, each slice keeps the z label it was computed for',
                  loc, fail_detail='the stacked result is relabelled by %s: the '
                  'input image (always stacked first) gets the label of whatever '
                  'distance is listed first' % relabel)


def clause_D(check, prog, canon):
    q = PROP + '.trans_func'
    fd = prog.func(q)
    loc = prog.loc(q, fd)

    def decide(t):
        # plain transfer function: no cascading, no gradient filter, d already
        # a z-indexed DataArray
        if t == sym('gradient_filter'):
            return False
        if t[0] == 'cmp' and t[2] == sym('cfsp'):
            return False
        if t[0] == 'call' and t[1] == 'hasattr':
            return True
        return None
    it = Interp(prog, max_depth=2, decide=decide, opaque=[FOURIER + '.ft_coord'])
    res = it.analyze(q)
    g = res.ret
    d = sym('d')
    # g must be E * M with E = exp(arg)
    r = canon.rat(g)
    if r.den != {(): 1} or len(r.num) != 1:
        check.bad('D-transfer-function-form', 'trans_func',
                  'plain transfer function is not a single product exp(.)*mask: %s'
                  % canon.show(g)[:200], loc)
        return
    (mono, coeff), = r.num.items()
    exps = [(a, e) for a, e in mono if a[0] == 'call' and a[1] == 'exp']
    masks = [(a, e) for a, e in mono if a[0] == 'cmp']
    others = [(a, e) for a, e in mono if (a, e) not in exps and (a, e) not in masks]
    ok = len(exps) == 1 and exps[0][1] == 1 and len(masks) == 1 and not others \
        and coeff == 1
    check.require(ok, 'D-transfer-function-form', 'trans_func',
                  'g = exp(arg) * mask', loc,
                  fail_detail='g = %s' % canon.show(g)[:240])
    if not ok:
        return
    arg = exps[0][0][2][0]
    mask = masks[0][0]
    ra = canon.rat(arg)
    # degree in d: every monomial exactly 1; denominator d-free
    degs, dden = canon.degree_in(arg, lambda a: a == d)
    check.require(all(x == 1 for x in degs) and all(x == 0 for x in dden),
                  'D-group-law', 'trans_func exponent',
                  'exponent is homogeneous of degree 1 in d, so '
                  'G(d1)*G(d2) = G(d1+d2) where the mask is 1', loc,
                  fail_detail='degrees in d of the exponent monomials: %s' % degs)
    check.require(d not in atoms_of(mask) and not any(
        x == d for x in subterms(mask)), 'D-mask-independent-of-d', 'trans_func mask',
        'evanescent mask does not depend on d', loc)
    # realness: exponent = I * (real); real atoms: d, med_wavelen, pi, sqrt(X*(X>=0))
    ok_im = True
    why = ''
    for m in ra.num:
        ni = sum(e for a, e in m if a is I_ATOM)
        if ni != 1:
            ok_im = False
            why = 'a monomial of the exponent has I-degree %s' % ni
        for a, e in m:
            if a is I_ATOM or a in (d, sym('med_wavelen'), sym('pi')):
                continue
            if a[0] == 'polyatom' and e.denominator == 2:
                inner = canon.rat(a[1])
                # inner must be X * (X >= 0) with X free of I
                good = False
                for mm, cc in inner.num.items():
                    pass
                cmps = {x for mm in inner.num for x, ee in mm if x[0] == 'cmp'}
                if len(cmps) == 1:
                    cm = next(iter(cmps))
                    if cm[1] == '>=' and canon.is_zero(cm[3]):
                        X = canon.rat(cm[2])
                        prod = canon.rmul(X, canon.atom_rat(cm))
                        has_i = any(x is I_ATOM for mm in X.num for x, ee in mm)
                        good = canon.req(prod, inner) and not has_i
                if not good:
                    ok_im = False
                    why = 'sqrt argument %s is not of the form X*(X>=0) with X real' \
                        % show(a[1])[:120]
                continue
            ok_im = False
            why = 'unexpected factor %s in the exponent' % show(a)[:80]
    for m in ra.den:
        if any(a is I_ATOM for a, e in m):
            ok_im = False
            why = 'I in the denominator'
    check.require(ok_im, 'D-modulus-at-most-one', 'trans_func exponent',
                  'exponent is purely imaginary (real d, wavelength): |exp| = 1, '
                  'times a 0/1 mask => |G| <= 1: energy never increases', loc,
                  fail_detail=why)
    # mask is the non-evanescent region of the same radicand
    check.require(mask[1] == '>=' and canon.is_zero(mask[3]),
                  'D-mask-is-indicator', 'trans_func mask', 'mask = (root >= 0)', loc)
    cascade_and_labels(check, prog, canon, g, d, loc)


def cascade_and_labels(check, prog, canon, g0, d, loc):
    """The cascaded option: G = (plain G at d / c) ** c, and -- for every option --
    the planes stay labelled with the distances that were asked for."""
    from .c05 import subst
    q = PROP + '.trans_func'
    cf = sym('cfsp')

    def decide(t):
        if t == sym('gradient_filter'):
            return False
        if t[0] == 'cmp' and t[1] == '>' and cf in atoms_of(t[2]) and t[3] == num(0):
            return True
        if t[0] == 'call' and t[1] == 'hasattr':
            return True
        return None
    it = Interp(prog, max_depth=2, decide=decide, opaque=[FOURIER + '.ft_coord'])
    gc = it.analyze(q).ret
    ok = gc[0] == 'bin' and gc[1] == '**'
    detail = 'returns %s' % canon.show(gc)[:160]
    if ok:
        base, c = gc[2], gc[3]
        ok = set(a for a in atoms_of(c) if a[0] == 'sym') == {cf}
        detail = 'the power is %s' % show(c)[:80]
        if ok:
            want = subst(g0, {d: intern(('bin', '/', d, c))})
            ok = canon.equal(base, want)
            detail = 'raised to %s is %s; the plain transfer function at d / %s ' \
                'is %s' % (show(c)[:40], canon.show(base)[:120], show(c)[:40],
                           canon.show(want)[:120])
    check.require(ok, 'D-cascade', 'trans_func cfsp > 0',
                  'G = (plain G evaluated at d / c) ** c with one and the same '
                  'c = the integer cascade factor', loc, fail_detail=detail)

    # z labels: whichever options are set, the z coordinate attached to the
    # distances is the caller's d
    def decide2(t):
        if t[0] == 'call' and t[1] == 'hasattr':
            return False
        return None
    it = Interp(prog, max_depth=1, decide=decide2,
                opaque=[FOURIER + '.ft_coord', 'holopy.core.utils.ensure_array'])
    it.analyze(q)
    zs = []
    for c_ in it.calls:
        if c_['name'] != 'xarray.DataArray':
            continue
        co = dict(c_['kwargs']).get('coords')
        if co is not None and co[0] == 'dict':
            for k, v in co[1]:
                if k == ('const', 'z'):
                    zs.append(v)
    check.need('z-indexed arrays built by trans_func', len(zs), 1, 'D-z-labels',
               'trans_func z coordinate (built)',
               'plain distances are turned into a z-indexed array', loc)
    conv = ('holopy.core.utils.ensure_array', 'numpy.array', 'numpy.asarray',
            'numpy.atleast_1d')
    for v in zs:
        w = v
        while w[0] == 'call' and w[1] in conv and len(w[2]) >= 1:
            w = w[2][0]
        check.require(w == d, 'D-z-labels', 'trans_func z coordinate',
                      'the planes are labelled with the distances that were '
                      'requested, whatever the cascade factor or gradient filter',
                      loc, fail_detail='z = %s' % show(v)[:160])


def clause_A3(check, prog):
    """ft_coords / ift_coords: each axis of the result is computed from its own
    coordinate -- m from x and n from y (x from m, y from n on the way back) --
    for every image, whatever its shape; every other coordinate is kept."""
    for fname, conv, pairs in (('ft_coords', 'ft_coord', {'m': 'x', 'n': 'y'}),
                               ('ift_coords', 'ift_coord', {'x': 'm', 'y': 'n'})):
        q = FOURIER + '.' + fname
        fd = prog.func(q)
        loc = prog.loc(q, fd)
        cs = sym(fd.args.args[0].arg)
        it = Interp(prog, max_depth=1, opaque=[FOURIER + '.ft_coord', FOURIER + '.ift_coord'])
        v = it.analyze(q).ret

        def source_of(t):
            """name of the input coordinate whose values `t` denotes, or None"""
            # popped from (a layered copy of) {k: v.values for k, v in cs.items()}
            if t[0] == 'call' and isinstance(t[1], tuple) and t[1][0] == 'attr' and \
                    t[1][2] == 'pop' and len(t[2]) == 1 and t[2][0][0] == 'const':
                base = t[1][1]
                while base[0] in ('upd', 'mut'):
                    if base[0] == 'upd' and base[2] == 'item' and base[3] == t[2][0]:
                        return None            # overwritten before it was read
                    base = base[1]
                if _values_copy(base, cs):
                    return t[2][0][1]
            if t[0] == 'attr' and t[2] == 'values' and t[1][0] == 'idx' and \
                    t[1][1] == cs and t[1][2][0] == 'const':
                return t[1][2][1]
            if t[0] == 'idx' and t[2][0] == 'const' and _values_copy_under(t[1], cs):
                return t[2][1]
            return None
        stored, removed = {}, set()
        t = v
        ok = not any(x[0] == 'ite' for x in subterms(v))
        while t[0] in ('upd', 'mut'):
            if t[0] == 'upd' and t[2] == 'item' and t[3][0] == 'const':
                stored.setdefault(t[3][1], t[4])
            elif t[0] == 'mut' and t[2] == 'pop' and t[3] and t[3][0][0] == 'const':
                if t[3][0][1] not in stored:
                    removed.add(t[3][0][1])
            elif t[0] == 'mut' and t[2] != 'pop':
                ok = False
            t = t[1]
        ok = ok and _values_copy(t, cs) and set(stored) == set(pairs) and \
            removed == set(pairs.values())
        detail = 'returns %s' % show(v)[:200]
        if ok:
            for tgt, src in pairs.items():
                val = stored[tgt]
                good = val[0] == 'call' and val[1] == FOURIER + '.' + conv and \
                    len(val[2]) == 1 and not val[3] and source_of(val[2][0]) == src
                if not good:
                    ok = False
                    detail = "coordinate '%s' is computed as %s (expected %s of the " \
                        "'%s' coordinate)" % (tgt, show(val)[:100], conv, src)
        check.require(ok, 'A-axis-coordinates', fname,
                      ', '.join('%s = %s(%s)' % (k, conv, s) for k, s in pairs.items()) +
                      ' for every image; other coordinates kept', loc, fail_detail=detail)


def _values_copy(t, cs):
    """{k: v.values for k, v in cs.items()}"""
    if t[0] != 'comp' or t[1] != 'dict' or len(t[3]) != 1 or t[3][0][2]:
        return False
    e, src = t[3][0][0], t[3][0][1]
    return src == ('call', ('attr', cs, 'items'), (), ()) and \
        t[2] == ('tuple', (('idx', e, num(0)), ('attr', ('idx', e, num(1)), 'values')))


def _values_copy_under(t, cs):
    while t[0] in ('upd', 'mut'):
        t = t[1]
    return _values_copy(t, cs)
