"""C18  Image-processing tools satisfy their defining identities.

Decides from the source:
  T1  every tool returns through copy_metadata(<its image argument>, .)
      (arithmetic on xarray drops attrs, so this is necessary to keep metadata);
  T2  normalize == image / mean(image), with mean over *all* pixels
      (image * size / sum): mean exactly 1, idempotence and scale invariance
      follow;
  T3  bg_correct == (raw - df) / zero_filter(bg - df); df defaults to zeros of a
      copy of raw (raw itself untouched);
  T4  zero_filter treats the two in-plane axes symmetrically, keeps positive
      pixels, refuses images that still contain NaN (dead corners);
  T5  the running accumulator is Welford's recurrence with pure queries
      (shared with C16);
  T6  make_center_priors is dimensionally consistent: pixels * spacing + origin
      (weight typing, E1-L);
  T7  subimage crops by index slices of x and y around the rounded centre.
  T5b detrend applies SciPy's linear detrend along the axes *named* x and y, the
      second on the result of the first (what SciPy's detrend removes is trusted).
Not decided: centre-finder accuracy, interpolate_na neighbour means (xarray),
retained coordinates of isel.
"""
import ast
from fractions import Fraction as F

from hpstatic.effects import writes
from hpstatic.interp import Interp, expr_term
from hpstatic.poly import Canon
from hpstatic.terms import (is_num, sym, intern, show, subterms, calls_in, NONE, num, kw,
                            FALSE, TRUE)
from hpstatic.weights import Weigher, NA, ZERO, ANY, UNK
from hpstatic.xrnorm import atom_rewrite
from . import c16
from .c05 import subst
from .common import as_difference, is_sum

MUTATION_TARGETS = {'holopy/core/process/img_proc.py': ['normalize', 'detrend', 'zero_filter', 'subimage', 'bg_correct'], 'holopy/core/io/io.py': ['push', 'mean', 'std'], 'holopy/core/prior.py': ['make_center_priors'], 'holopy/core/process/centerfinder.py': ['center_find']}

LEVEL = 'other'
META = dict(
    claimed=True,
    technique='return-path analysis (must-pass-through copy_metadata), '
              'canonical-form equality of normalize / bg_correct with their '
              'defining formulas, axis-swap symmetry of zero_filter, weight typing '
              'of make_center_priors, Welford recurrence check'
              "; truth table of bg_correct's refusals over its agreement tests (shape, pixel size without absolute tolerance, axis names, channel labels); per-operand pairing analysis over image views; detrend axes by name; rank reductions between the image and the centre vote are by axis name (no positional subscript); image differences of the background correction have a floating-point operand",
    level_text='Static: T1-T7 decide the defining identities that are visible in the '
               'expression each tool computes (for all images).  Library-dependent '
               'behaviour (xarray interpolation, Hough accuracy) is not decided; '
               'detrend is decided up to what scipy.signal.detrend removes.',
    level_note='Trusted: xarray arithmetic is elementwise; .sum()/.size are over all '
               'elements; interpolate_na(dim) fills NaNs along that dimension only; '
               'scipy.signal.detrend(data, axis) subtracts the least-squares line '
               'along that axis.',
)

IP = 'holopy.core.process.img_proc.'
MD = 'holopy.core.metadata.'


def run(check, prog):
    check.explanation = (
        'Each image-processing tool is evaluated into a term; the metadata donor of '
        'its return and the formula it computes are compared with the definitions.')
    canon = Canon(atom_rewrite=atom_rewrite)
    returns(check, prog)
    normalize(check, prog, canon)
    bg_correct(check, prog, canon)
    zero_filter(check, prog, canon)
    c16.accumulator(check, prog)
    # every tool returns through copy_metadata: its semantics (shared with C01)
    from . import c01
    c01.f6_copy_metadata(check, prog)
    center_priors(check, prog)
    centre_plane(check, prog)
    centre_pixel_sizes(check, prog)
    center_priors_structure(check, prog)
    subimage(check, prog)
    subimage_shapes(check, prog)
    bg_correct_guards(check, prog)
    detrend_axes(check, prog)


def returns(check, prog):
    tools = [('normalize', 'image'), ('detrend', 'image'), ('zero_filter', 'image'),
             ('subimage', 'arr'), ('add_noise', 'image'), ('bg_correct', 'raw')]
    for name, arg in tools:
        q = IP + name
        fd = prog.func(q)
        loc = prog.loc(q, fd)
        it = Interp(prog, max_depth=1, opaque=[MD + 'copy_metadata', IP + 'zero_filter',
                                               MD + 'update_metadata',
                                               MD + 'get_spacing'])
        res = it.analyze(q)
        rets = res.returns
        ok = bool(rets)
        for o in rets:
            v = o.value
            cm = [x for x in subterms(v) if x[0] == 'call' and x[1] == MD + 'copy_metadata']
            good = bool(cm) and cm[0][2][0] == sym(arg)
            # the copy_metadata result may be passed on to update_metadata
            # (bg_correct) but nothing else may wrap it
            if good and v is not cm[0]:
                t = v
                while t is not cm[0] and t[0] == 'ite':
                    t = t[2] if any(y is cm[0] for y in subterms(t[2])) else t[3]
                good = t is cm[0] or (t[0] == 'call' and t[1] == MD + 'update_metadata'
                                      and t[2] and t[2][0] is cm[0]) or \
                    (t[0] == 'call' and t[1] == MD + 'update_metadata')
            ok = ok and good
        check.require(ok, 'T1-keeps-metadata', name,
                      'returns copy_metadata(%s, result)' % arg, loc,
                      fail_detail='%s returns %s' % (name, [show(o.value)[:100]
                                                           for o in rets]))


def detrend_axes(check, prog):
    """T5: detrend removes a plane a + b x + c y because SciPy's linear detrend is
    applied to the image along the axis *named* x and then to the result along
    the axis named y (trusted: scipy.signal.detrend(data, axis) subtracts the
    least-squares line along `axis`; a plane is a line along x for every y).  The
    structural part decided here: both applications are of scipy.signal.detrend
    with the default (linear, no break points) type, the first on the image, the
    second on the first result, and the two axes are the positions of 'x' and 'y'
    in image.dims -- not fixed numbers, which are wrong for (z, x, y) images."""
    q = IP + 'detrend'
    fd = prog.func(q)
    loc = prog.loc(q, fd)
    image = sym(fd.args.args[0].arg)
    it = Interp(prog, max_depth=1, opaque=[MD + 'copy_metadata'])
    res = it.analyze(q)
    v = res.ret
    inner = v[2][1] if v[0] == 'call' and v[1] == MD + 'copy_metadata' and \
        len(v[2]) >= 2 else v

    def app(t):
        """(data, axis) of one application of scipy.signal.detrend, else None"""
        if t[0] != 'call' or t[1] != 'scipy.signal.detrend':
            return None
        kws = dict(t[3])
        if kws.get('type', ('const', 'linear')) not in (('const', 'linear'),
                                                        ('const', 'l')):
            return None
        if kws.get('bp', ('num', 0)) not in (('num', 0), num(0)):
            return None
        data = t[2][0] if t[2] else kws.get('data')
        axis = t[2][1] if len(t[2]) > 1 else kws.get('axis')
        return data, axis

    def pos(name):
        return intern(('call', ('attr', ('attr', image, 'dims'), 'index'),
                       (('const', name),), ()))
    outer = app(inner)
    first = app(outer[0]) if outer else None
    ok = outer is not None and first is not None and first[0] == image and \
        {first[1], outer[1]} == {pos('x'), pos('y')}
    check.require(ok, 'T5-detrend-axes', 'detrend',
                  'scipy.signal.detrend (linear) along image.dims.index(\'x\') and '
                  'along image.dims.index(\'y\'), the second on the result of the '
                  'first', loc,
                  fail_detail='detrend computes %s: a plane added to the image is not '
                  'removed along both named axes' % show(inner)[:200])


def normalize(check, prog, canon):
    q = IP + 'normalize'
    fd = prog.func(q)
    loc = prog.loc(q, fd)
    it = Interp(prog, max_depth=1, opaque=[MD + 'copy_metadata'])
    res = it.analyze(q)
    v = res.ret
    if not (v[0] == 'call' and v[1] == MD + 'copy_metadata' and len(v[2]) >= 2):
        check.bad('T2-normalize', 'normalize', 'unexpected return %s' % show(v)[:100], loc)
        return
    body = v[2][1]
    want = expr_term(prog, 'image / (image.sum() / image.size)', {'image': sym('image')})
    check.require(canon.equal(body, want), 'T2-normalize', 'normalize',
                  'image / mean(image) with the mean over all image.size pixels', loc,
                  fail_detail='normalize computes %s; image/mean is %s: for an image '
                  'with more than one channel or z-slice the mean is not 1' % (
                      canon.show(body)[:200], canon.show(want)[:200]))


def _view_step(t, raw):
    """'transpose' for x.transpose(*raw.dims), 'pixels' for x.assign_coords(<the x,
    y and z coordinates of raw>), else None: views that keep the numbers of x"""
    if t[0] != 'call' or not isinstance(t[1], tuple) or t[1][0] != 'attr':
        return None
    if t[1][2] == 'transpose' and not t[3] and \
            t[2] == (('star', ('attr', raw, 'dims')),):
        return 'transpose'
    if t[1][2] == 'astype' and not t[3] and t[2] in (
            (('extref', 'float'),), (('extref', 'numpy.float64'),),
            (('const', 'float64'),), (('const', 'float'),), (('const', 'f8'),)):
        return 'float'      # the same numbers, as floating-point values
    if t[1][2] == 'sel' and not t[2] and len(t[3]) == 1 and \
            t[3][0][0] == 'illumination' and t[3][0][1] in (
                ('attr', raw, 'illumination'),
                ('attr', ('attr', raw, 'illumination'), 'values'),
                ('idx', raw, ('const', 'illumination')),
                ('attr', ('idx', raw, ('const', 'illumination')), 'values')):
        return 'channels'
    if t[1][2] == 'assign_coords':
        named = {}
        if len(t[2]) == 1 and not t[3]:
            d = t[2][0]
            if d[0] == 'dict':
                named = {k[1]: v for k, v in d[1] if k[0] == 'const'}
            elif d[0] == 'comp' and d[1] == 'dict' and len(d[3]) == 1 and \
                    d[3][0][1][0] == 'tuple':
                el, seq, conds = d[3][0]
                key, val = d[2][1]
                only_dims = all(c == ('cmp', 'in', el, ('attr', raw, 'dims'))
                                for c in conds)
                if key == el and only_dims and val in (
                        ('idx', raw, el), ('attr', ('idx', raw, el), 'values')):
                    named = {c[1]: ('idx', raw, c) for c in seq[1] if c[0] == 'const'}
        elif not t[2]:
            named = dict(t[3])
        good = set(named) == {'x', 'y', 'z'} and all(
            v in (('idx', raw, ('const', k)), ('attr', raw, k),
                  ('attr', ('idx', raw, ('const', k)), 'values'),
                  ('attr', ('attr', raw, k), 'values')) for k, v in named.items())
        return 'pixels' if good else None
    return None


def _unview(t, raw):
    """t with every view step (see _view_step) replaced by the image viewed"""
    if not isinstance(t, tuple):
        return t
    if t and isinstance(t[0], str) and _view_step(t, raw) is not None:
        return _unview(t[1][1], raw)
    return tuple(_unview(x, raw) for x in t)


def bg_correct(check, prog, canon):
    q = IP + 'bg_correct'
    fd = prog.func(q)
    loc = prog.loc(q, fd)
    for given in (True, False):
        def decide(t, given=given):
            if t == ('cmp', 'is', sym('df'), NONE):
                return not given
            return None
        it = Interp(prog, max_depth=1, decide=decide, opaque=[
            MD + 'copy_metadata', IP + 'zero_filter', MD + 'update_metadata',
            MD + 'get_spacing'])
        res = it.analyze(q)
        cm = [c for c in it.calls if c['name'] == MD + 'copy_metadata']
        ok = len(cm) == 1
        if not ok:
            check.bad('T3-bg-correct', 'bg_correct', 'no copy_metadata call', loc)
            continue
        holo = cm[0]['args'][1]
        raw, bg = sym('raw'), sym('bg')
        if given:
            df = sym('df')
        else:
            df = None
            zf = calls_in(holo, IP + 'zero_filter')
            if zf and as_difference(zf[0][2][0]) is not None:
                df = as_difference(zf[0][2][0])[1]
                while (df[0] == 'attr' and df[2] in ('values', 'data')) or \
                        _view_step(df, raw) is not None:
                    # the bare numbers of the dark field
                    df = df[1] if df[0] == 'attr' else df[1][1]
        mode = 'dark field given' if given else 'default dark field'
        if df is None:
            check.bad('T3-bg-correct', 'bg_correct [%s]' % mode,
                      'cannot identify the dark field in %s' % show(holo)[:120], loc)
            continue
        want = intern(('bin', '/', ('bin', '-', raw, df),
                       ('call', IP + 'zero_filter', (('bin', '-', bg, df),), ())))
        c0 = Canon()

        def bare(t):
            # the numbers of an image: x.values, np.asarray(x) -> x
            if not isinstance(t, tuple) or not t or not isinstance(t[0], str):
                return tuple(bare(x) if isinstance(x, tuple) else x for x in t) \
                    if isinstance(t, tuple) else t
            if t[0] == 'attr' and t[2] in ('values', 'data'):
                return bare(t[1])
            if t[0] == 'call' and t[1] in ('numpy.asarray', 'numpy.array') and \
                    len(t[2]) == 1 and not t[3]:
                return bare(t[2][0])
            if _view_step(t, raw) is not None:
                return bare(t[1][1])
            return tuple(bare(x) if isinstance(x, tuple) else x for x in t)
        check.require(c0.equal(intern(bare(holo)), intern(bare(want))), 'T3-bg-correct',
                      'bg_correct [%s]' % mode,
                      '(raw - df) / zero_filter(bg - df)', loc,
                      fail_detail='computes %s' % c0.show(holo)[:200])
        # ... in floating point: camera images are unsigned integers, and an
        # unsigned difference wraps around wherever the minuend is the smaller
        # one (a raw pixel below the dark level).  Every subtraction (and
        # division) that joins two images has a floating-point operand.

        def floating(t):
            return any(x[0] == 'call' and isinstance(x[1], tuple) and x[1][0] == 'attr'
                       and _view_step(x, raw) == 'float' for x in subterms(t)) or any(
                x[0] == 'call' and x[1] in ('numpy.asarray', 'numpy.array',
                                            'numpy.asfarray') and
                (x[1] == 'numpy.asfarray' or any(
                    k == 'dtype' and v in (('extref', 'float'), ('extref', 'numpy.float64'))
                    for k, v in x[3]))
                for x in subterms(t))
        wraps = []
        for x in subterms(holo):
            if x[0] == 'bin' and x[1] == '-' and \
                    any(y in (raw, bg) for y in subterms(x[2])) and \
                    not floating(x[2]) and not floating(x[3]):
                wraps.append(x)
        check.require(not wraps, 'T3-bg-correct-floating-point', 'bg_correct [%s]' % mode,
                      'differences of images are taken in floating point', loc,
                      fail_detail='%s is evaluated in the images\' own dtype: with '
                      'uint8 frames a raw pixel of 12 over a dark level of 15 gives '
                      '253, and the corrected pixel 1.37 for -0.016' % (
                          show(wraps[0])[:100] if wraps else ''))
        # ... pixel by pixel: the guard compares shape and spacing only, so the
        # three images may sit on different coordinates (a cropped hologram and a
        # pre-cropped background; another z).  Arithmetic between two *labelled*
        # arrays aligns them by coordinate label and keeps the overlap: unless the
        # guard also compares the coordinates, every operation that joins two
        # different images must have the bare numbers on one side
        imgs = {raw: 'raw', bg: 'bg'}
        if given:
            imgs[df] = 'df'

        def pairing(t):
            """how the value of t pairs with another image: (images it comes
            from, 'labels of <image>' | 'bare' along the pixel axes, whether its
            axes were put in raw's order)"""
            if t in imgs:
                return {imgs[t]}, imgs[t], imgs[t] == 'raw'
            if not given and df is not None and t == df:
                return {'raw'}, 'raw', True     # zeros in a copy of raw
            if t[0] == 'attr' and t[2] in ('values', 'data'):
                who, _, al = pairing(t[1])
                return who, 'bare', al
            if t[0] == 'call' and t[1] in ('numpy.asarray', 'numpy.array') and t[2]:
                who, _, al = pairing(t[2][0])
                return who, 'bare', al
            step = _view_step(t, raw)
            if step is not None:
                who, lab, al = pairing(t[1][1])
                if step == 'transpose':
                    return who, lab, (True if al is False else al)
                if step == 'channels':
                    return who, lab, ('channels' if al else al)
                return who, ('raw' if lab != 'bare' else lab), al
            if t[0] == 'call' and t[1] == IP + 'zero_filter' and t[2]:
                return pairing(t[2][0])
            if t[0] == 'bin':
                a, b = pairing(t[2]), pairing(t[3])
                if not a[0]:
                    return b
                if not b[0]:
                    return a
                lab = a[1] if a[1] != 'bare' else b[1]
                return a[0] | b[0], lab, a[2] and b[2]
            if t[0] == 'un':
                return pairing(t[2])
            return set(), 'bare', True
        joins, crossed = [], []

        def walk(t):
            if t[0] == 'bin':
                a, b = pairing(t[2]), pairing(t[3])
                if a[0] and b[0] and a[0] != b[0]:
                    if a[1] != 'bare' and b[1] != 'bare' and a[1] != b[1]:
                        joins.append((sorted(a[0]), sorted(b[0]), t))
                    if ('bare', False) in ((a[1], a[2] == 'channels'),
                                           (b[1], b[2] == 'channels')):
                        # bare numbers pair every axis, the colour channels
                        # included, by position
                        crossed.append((sorted(a[0]), sorted(b[0]), t))
                    elif not (a[2] and b[2]):
                        pass     # labelled arrays broadcast by axis name
                walk(t[2])
                walk(t[3])
            elif t[0] == 'un':
                walk(t[2])
            elif t[0] == 'call' and t[1] == IP + 'zero_filter' and t[2]:
                walk(t[2][0])
        walk(holo)
        guard_has_coords = any(
            any(x[0] == 'attr' and x[2] in ('coords', 'x', 'y', 'z', 'indexes') or
                (x[0] == 'call' and isinstance(x[1], str) and
                 x[1].split('.')[-1] in ('equals', 'identical', 'array_equal'))
                for x in subterms(t))
            for o in res.raises for t, pol in o.cond)
        check.require(guard_has_coords or not joins, 'T3-bg-correct-pixelwise',
                      'bg_correct [%s]' % mode,
                      'images are combined pixel by pixel: no operation aligns two '
                      'different images by the labels of their pixel axes (or the '
                      'guard compares the coordinates)', loc,
                      fail_detail='%s joins the labelled images %s and %s: xarray '
                      'keeps only the coordinates they share -- a raw image cropped '
                      'with subimage and a pre-cropped background of the same shape '
                      'and spacing give a smaller result with the wrong pixels '
                      'paired; a different z gives an empty one' % (
                          show(joins[0][2])[:80], joins[0][0], joins[0][1])
                      if joins else '')
        check.require(not crossed, 'T3-bg-correct-channels-by-label',
                      'bg_correct [%s]' % mode,
                      'the images pair their axes by name and their colour channels '
                      'by label: no image enters the arithmetic as bare numbers '
                      '(unless first put on raw\'s axes and channels)', loc,
                      fail_detail='%s combines %s with the bare numbers of %s: every '
                      'axis is paired by position, so a background whose channels are '
                      'stored in another order (or whose axes are transposed) is '
                      'divided crosswise -- an image divided by itself is not 1' % (
                          show(crossed[0][2])[:80], crossed[0][0], crossed[0][1])
                      if crossed else '')
        if not given:
            root = df
            while root[0] == 'upd':
                root = root[1]
            okz = root == ('call', ('attr', raw, 'copy'), (), ()) and df[0] == 'upd' and \
                df[4] == num(0)
            check.require(okz, 'T3-bg-correct', 'bg_correct default dark field',
                          'zeros written into a copy of raw (raw itself untouched)', loc,
                          fail_detail='default dark field is %s' % show(df)[:120])
        bad = [e for e, st, rs in writes(it) if any(
            r[0] == 'param' and r[1] in ('raw', 'bg', 'df') for r in rs) and
            ('maybe-fresh',) not in rs]
        check.require(not bad, 'T3-bg-correct', 'bg_correct inputs [%s]' % mode,
                      'no input image is modified', loc,
                      fail_detail='stores into an input: %s' % [
                          (e.get('target_src'), e['lineno']) for e in bad])


def zero_filter(check, prog, canon):
    q = IP + 'zero_filter'
    fd = prog.func(q)
    loc = prog.loc(q, fd)
    it = Interp(prog, max_depth=1, opaque=[MD + 'copy_metadata'])
    res = it.analyze(q)
    rets = res.returns
    ok = len(rets) == 1
    if not ok:
        check.bad('T4-zero-filter', 'zero_filter', 'expected one normal return', loc)
        return
    v = rets[0].value
    body = v[2][1] if v[0] == 'call' and len(v[2]) >= 2 else v
    # positive pixels are kept: where(image > 0, image, nan)
    wh = [x for x in subterms(body) if x[0] == 'call' and x[1] == 'xarray.where']
    okw = bool(wh) and wh[0][2][0] == ('cmp', '>', sym('image'), num(0)) and \
        wh[0][2][1] == sym('image')
    check.require(okw, 'T4-zero-filter', 'zero_filter mask',
                  'pixels > 0 are kept, the others become NaN before interpolation', loc,
                  fail_detail='mask is %s' % (show(wh[0])[:120] if wh else None))
    # symmetric in x and y
    interp = [x for x in subterms(body) if x[0] == 'call' and isinstance(x[1], tuple)
              and x[1][0] == 'attr' and x[1][2] == 'interpolate_na']
    dims = {}
    for x in interp:
        d = kw(x, 'dim')
        dims[show(d)] = x
    if "'x'" in dims and "'y'" in dims:
        ax, ay = dims["'x'"], dims["'y'"]
        A, B = sym('ALONG_X'), sym('ALONG_Y')
        t = subst(body, {ax: A, ay: B})
        swapped = subst(t, {A: B, B: A})
        check.require(canon.equal(t, swapped) or t == swapped, 'T4-zero-filter',
                      'zero_filter symmetry',
                      'the interpolations along x and along y are combined '
                      'symmetrically', loc,
                      fail_detail='the result %s changes when x and y are exchanged: a '
                      'dead pixel on an edge is filled for one pair of edges but not '
                      'the other' % show(t)[:200])
    else:
        # (one list built over the two axis names: a comprehension, list(<gen>)
        # or a loop that appends)
        from .common import list_builder
        AXES = (('const', 'xy'), ('const', 'yx'),
                ('list', (('const', 'x'), ('const', 'y'))),
                ('tuple', (('const', 'x'), ('const', 'y'))),
                ('list', (('const', 'y'), ('const', 'x'))),
                ('tuple', (('const', 'y'), ('const', 'x'))))
        over_xy = any(
            (lambda lb: lb is not None and lb[1] in AXES and
             any(y in interp for y in subterms(lb[0])))(list_builder(x))
            for x in subterms(body) if x[0] in ('comp', 'loop', 'call'))
        check.require(over_xy and len(interp) >= 1, 'T4-zero-filter',
                      'zero_filter symmetry',
                      'interpolates along each of x and y in one comprehension '
                      '(symmetric by construction)', loc,
                      fail_detail='interpolations found along %s' % sorted(dims))
        mean = [x for x in subterms(body) if x[0] == 'call' and isinstance(x[1], tuple)
                and x[1][0] == 'attr' and x[1][2] == 'mean']
        okm = bool(mean) and kw(mean[0], 'skipna') == TRUE
        check.require(okm, 'T4-zero-filter', 'zero_filter average',
                      'the two interpolations are averaged skipping NaN (an edge pixel '
                      'uses the one interpolation that exists)', loc)
    # the values handed back are that average itself: taken over the stacking
    # dimension only, and not converted afterwards (the neighbours' mean of an
    # integer image is not an integer)
    means = [x for x in subterms(body) if x[0] == 'call' and isinstance(x[1], tuple)
             and x[1][0] == 'attr' and x[1][2] == 'mean']
    cats = [x for x in subterms(body) if x[0] == 'call' and x[1] == 'xarray.concat']
    if means and cats:
        m = means[0]
        md = kw(m, 'dim') or (m[2][0] if m[2] else None)
        cd = kw(cats[0], 'dim') or (cats[0][2][1] if len(cats[0][2]) > 1 else None)
        check.require(md is not None and md == cd and md[0] == 'const' and
                      md[1] not in ('x', 'y', 'z'), 'T4-zero-filter',
                      'zero_filter average axis',
                      'the average runs over the dimension the two interpolations '
                      'were stacked along, and over nothing else', loc,
                      fail_detail='stacked along %s, averaged over %s' % (
                          show(cd) if cd else None, show(md) if md else 'every axis'))
        check.require(body == m, 'T4-zero-filter', 'zero_filter result',
                      'the returned values are the average of the interpolations, '
                      'unconverted', loc,
                      fail_detail='returns %s' % show(body)[:160])
        nan_on = [t for o in res.raises for t, pol in o.cond
                  if calls_in(t, 'numpy.isnan') and pol]
        check.require(bool(nan_on) and all(
            any(x == ('call', 'numpy.isnan', (m,), ()) for x in subterms(t))
            for t in nan_on), 'T4-zero-filter', 'zero_filter refusal subject',
            'the NaN test that refuses an image looks at the values that would be '
            'returned', loc)
    # refuses remaining NaN
    ok = any('BadImage' in show(o.value) and any(
        calls_in(t, 'numpy.isnan') and pol for t, pol in o.cond) for o in res.raises)
    check.require(ok, 'T4-zero-filter', 'zero_filter refusal',
                  'raises BadImage when NaNs remain (dead corners)', loc)


def center_priors(check, prog):
    q = 'holopy.core.prior.make_center_priors'
    fd = prog.func(q)
    loc = prog.loc(q, fd)
    for given in (True, False):
        def decide(t, given=given):
            if t == ('cmp', 'is not', sym('z_range_units'), NONE):
                return given
            return None
        it = Interp(prog, max_depth=1, decide=decide, opaque=[
            MD + 'get_extents', MD + 'get_spacing',
            'holopy.core.process.centerfinder.center_find'])
        res = it.analyze(q)

        def extents_spec(w, t):
            return ('dict', {'x': F(1), 'y': F(1), 'z': F(1)})

        def spacing_spec(w, t):
            return F(1)

        def centre_spec(w, t):
            return ZERO
        w = Weigher({'x': F(1), 'y': F(1), 'z': F(1)},
                    sym_seeds={'im': NA, 'z_range_extents': ZERO,
                               'xy_uncertainty_pixels': ZERO, 'z_range_units': F(1)},
                    opaque_specs={MD + 'get_extents': extents_spec,
                                  MD + 'get_spacing': spacing_spec,
                                  'holopy.core.process.centerfinder.center_find':
                                  centre_spec},
                    name='L', loops=it.loops)
        news = [x for x in subterms(res.ret) if x[0] == 'new']
        okall = bool(news)
        for nw in news:
            for k, v in nw[3]:
                if k in ('mu', 'sd', 'lower_bound', 'upper_bound'):
                    wv = w.uniform(w.w(v), v)
                    good = wv in (F(1), ANY)
                    if wv == UNK:
                        continue
                    check.require(good, 'T6-center-priors-dimension',
                                  'make_center_priors %s.%s [%s]' % (
                                      nw[1].rpartition('.')[2], k,
                                      'units' if given else 'extents'),
                                  'a length (pixels * spacing + origin)', loc,
                                  fail_detail='%s = %s has L-weight %s' % (
                                      k, show(v)[:100], wv))
        conflicts = [m for kk, m, t in w.problems if kk == 'conflict']
        check.require(not conflicts and okall, 'T6-center-priors-dimension',
                      'make_center_priors [%s]' % ('units' if given else 'extents'),
                      'sums and comparisons combine quantities of equal dimension', loc,
                      fail_detail='; '.join(conflicts)[:300])
    # centre = center_find(im) * spacing + [im.x[0], im.y[0]]
    it = Interp(prog, max_depth=1, opaque=[MD + 'get_extents', MD + 'get_spacing',
                                           'holopy.core.process.centerfinder.center_find'])
    res = it.analyze(q)
    c0 = Canon()
    cen = [x for x in subterms(res.ret) if x[0] == 'bin' and x[1] == '+' and
           calls_in(x, 'center_find')]
    want = expr_term(prog, 'cf * sp + [im.x[0], im.y[0]]', {
        'cf': intern(('call', 'holopy.core.process.centerfinder.center_find',
                      (sym('im'),), ())),
        'sp': intern(('call', MD + 'get_spacing', (sym('im'),), ())), 'im': sym('im')})
    ok = any(c0.equal(c, want) for c in cen)
    check.require(ok, 'T6-center-priors-dimension', 'make_center_priors centre',
                  'centre = center_find(im) * spacing + (x[0], y[0])', loc,
                  fail_detail='centre terms: %s' % [show(c)[:120] for c in cen])


def centre_pixel_sizes(check, prog):
    """T9c: the Hough vote knows the pixel sizes.  The Sobel derivatives are taken
    per pixel; each pixel votes along a line through it in the direction of the
    gradient.  For the fringes of a sphere (circles in space) these lines pass
    through the centre only if the direction is the *physical* gradient's, which in
    pixel units is (g_x / s_x**2, g_y / s_y**2): with s_x != s_y the per-pixel
    gradient points at the evolute of an ellipse, not at its centre (found 31
    pixels off at s_y = s_x / 2, silently, and `make_center_priors` centres a
    one-pixel-wide prior there).  Decided: the pair of derivative arrays handed to
    `hough` depends on both the x step and the y step of the image (a difference
    of its x coordinates and one of its y coordinates); the exact weighting is not
    checked beyond that."""
    q = 'holopy.core.process.centerfinder.center_find'
    fd = prog.func(q)
    loc = prog.loc(q, fd)
    it = Interp(prog, max_depth=1, opaque=[
        'holopy.core.process.centerfinder.image_gradient'])
    it.analyze(q)
    hs = [c for c in it.calls if c['name'].endswith('centerfinder.hough')]
    if len(hs) != 1:
        return                      # centre_plane reports the missing vote
    args = list(hs[0]['args'][:2])

    def steps(axis):
        out = []
        for a in args:
            for x in subterms(a):
                if x[0] == 'call' and x[1] in ('numpy.diff', 'numpy.gradient',
                                               'holopy.core.metadata.get_spacing',
                                               'holopy.core.process.fourier.get_spacing'):
                    if any(y[0] == 'attr' and y[2] == axis for y in subterms(x)) or \
                            x[1].endswith('get_spacing'):
                        out.append(x)
        return out
    ok = bool(steps('x')) and bool(steps('y'))
    if ok:
        # the weighting itself: relative to the y derivative, the x derivative
        # carries the factor (s_y / s_x)**2 (direction of the physical gradient
        # in pixel units), and is left alone when the pixels are square
        from hpstatic.logic import resolve
        from hpstatic.poly import Canon
        import operator
        OPS_ = {'<': operator.lt, '<=': operator.le, '>': operator.gt,
                '>=': operator.ge, '==': operator.eq, '!=': operator.ne}
        canon = Canon()

        def under(square):
            def hyp(t):
                if t[0] == 'call' and t[1] in ('numpy.isclose', 'numpy.allclose',
                                               'math.isclose'):
                    return square
                if t[0] == 'cmp' and t[1] in OPS_ and any(
                        x[0] == 'call' and x[1] == 'len' for x in (t[2], t[3])):
                    # an image has many rows and columns: evaluate the test
                    val = lambda x: 100 if x[0] == 'call' and x[1] == 'len' else (
                        x[1] if x[0] == 'num' else None)
                    a_, b_ = val(t[2]), val(t[3])
                    if a_ is None or b_ is None:
                        return None
                    return OPS_[t[1]](a_, b_)
                return None
            return [resolve(a, hyp) for a in args]
        sq, ns = under(True), under(False)
        sx = [x for x in steps('x')][0]
        sy = [x for x in steps('y')][0]
        sx, sy = intern(('idx', sx, num(0))), intern(('idx', sy, num(0)))
        good = False
        try:
            for num_, den_ in ((ns[0], ns[1]), ):
                # ns[0] / sq[0] is the weight of the x derivative, ns[1] / sq[1]
                # that of the y derivative
                wx = intern(('bin', '/', ns[0], sq[0]))
                wy = intern(('bin', '/', ns[1], sq[1]))
                want = intern(('bin', '**', ('bin', '/', sy, sx), num(2)))
                good = canon.equal(intern(('bin', '/', wx, wy)), want)
        except Exception:
            good = False
        plain = all(not any(y[0] == 'call' and y[1] == 'numpy.diff' for y in subterms(a))
                    for a in sq)
        check.require(good and plain, 'T9-centre-pixel-sizes',
                      'center_find weighting of the derivatives',
                      'x derivative : y derivative carries (s_y / s_x)**2 when the '
                      'steps differ, and nothing when they do not', loc,
                      fail_detail='with unequal steps hough gets (%s, %s)' % tuple(
                          show(a)[:70] for a in ns))
    check.require(ok, 'T9-centre-pixel-sizes', 'center_find -> hough derivatives',
                  'the voting directions are formed with the x and the y pixel size',
                  loc, fail_detail='hough(%s, %s): per-pixel derivatives as they come '
                  'from the Sobel operator; on non-square pixels the lines do not '
                  'pass through the centre' % tuple(show(a)[:50] for a in args))


def centre_plane(check, prog):
    """T9: the centre finder works on the x-y plane of the image it is given,
    whatever other axes the image has and wherever they sit.  calc_holo returns a
    multi-channel hologram as (illumination, x, y, z): a reduction to two axes by
    *position* (`deriv[:, :, 0]`) then votes on an (illumination, x) slab, and a
    blur of the whole value block mixes the channels.  Rule: (a) nothing between
    the image and the Hough vote drops an axis by a positional subscript;
    (b) the Gaussian blur is applied to values that have been reduced by axis
    name (or with one width per axis)."""
    q = 'holopy.core.process.centerfinder.center_find'
    fd = prog.func(q)
    loc = prog.loc(q, fd)
    it = Interp(prog, max_depth=1)
    it.analyze(q)
    hs = [c for c in it.calls if c['name'].endswith('centerfinder.hough')]
    check.need('Hough vote in center_find', len(hs), 1, 'T9-centre-plane-by-name',
               'center_find', 'the centre is voted on by hough(col_deriv, row_deriv, ...)',
               loc)
    image = sym(fd.args.args[0].arg)

    def positional(t):
        """positional subscripts (a tuple key with an integer, or a bare integer
        key) applied to something computed from the image"""
        out = []
        for x in subterms(t):
            if x[0] != 'idx':
                continue
            inner = set(subterms(x[1]))
            if image not in inner and not any(y[0] in ('phi', 'loop') for y in inner):
                continue
            if x[1][0] == 'call' and x[1][1] == 'numpy.diff' and any(
                    y[0] == 'attr' and y[2] in ('x', 'y') and y[1] != image
                    or y[0] == 'attr' and y[2] in ('x', 'y')
                    for y in subterms(x[1])):
                continue        # the first step of a coordinate axis, not a plane
            if x[1][0] == 'attr' and x[1][2] in ('dims', 'shape', 'coords', 'sizes'):
                continue        # image.dims[0]: a name, not a slab of values
            key = x[2]
            comps = key[1] if key[0] == 'tuple' else (key,)
            if any(is_num(c) for c in comps):
                out.append(x)
        return out
    for c in hs:
        bad = []
        for a in c['args'][:2]:
            bad += positional(a)
            bad += [x for x in subterms(a) if x[0] == 'loop']
        check.require(not bad, 'T9-centre-plane-by-name', 'center_find plane',
                      'the two gradient arrays reach the Hough vote without a '
                      'positional reduction of their axes', loc,
                      fail_detail='%s: extra axes are dropped by position, which takes '
                      'the first two axes for x and y -- a hologram computed for two '
                      'wavelengths has dims (illumination, x, y, z) and its centre '
                      'comes out as [0, 32] for [73, 41]' % show(bad[0])[:100]
                      if bad else '')
    gs = [c for c in it.calls if c['name'] == 'scipy.ndimage.gaussian_filter']
    # ... and no filter writes its result into the image (or a view of it: the
    # copy above is shallow, and isel / transpose give views): `output=` of the
    # SciPy filters names the array to overwrite
    for c in it.calls:
        if not c['name'].startswith('scipy.ndimage.'):
            continue
        out = dict(c['kwargs']).get('output')
        aliased = out is not None and any(x == image for x in subterms(out))
        check.require(not aliased, 'T9-centre-input-untouched',
                      'center_find %s' % c['name'].rpartition('.')[2],
                      'the image handed to center_find keeps its pixel values', loc,
                      fail_detail='output=%s is the image\'s own storage: the hologram '
                      'is blurred in place, and the next call on it (make_center_priors '
                      'after center_find) finds another centre' % (
                          show(out)[:60] if out else ''))
    for c in gs:
        src = c['args'][0] if c['args'] else None
        sigma = c['args'][1] if len(c['args']) > 1 else dict(c['kwargs']).get('sigma')
        by_name = src is not None and any(
            x[0] == 'call' and isinstance(x[1], tuple) and x[1][0] == 'attr' and
            x[1][2] in ('isel', 'sel', 'squeeze', 'mean', 'sum')
            for x in subterms(src))
        per_axis = sigma is not None and sigma[0] in ('list', 'tuple', 'comp', 'call')
        check.require(by_name or per_axis, 'T9-centre-plane-by-name', 'center_find blur',
                      'the blur runs over x and y only (values reduced by axis name '
                      'first, or one width per axis)', loc,
                      fail_detail='gaussian_filter(%s, %s) smooths along every axis of '
                      'the image with the same width: the channels of a colour '
                      'hologram are mixed before the first one is taken' % (
                          show(src)[:60] if src else None,
                          show(sigma)[:30] if sigma else None))


def subimage(check, prog):
    q = IP + 'subimage'
    fd = prog.func(q)
    loc = prog.loc(q, fd)
    it = Interp(prog, max_depth=1, opaque=[MD + 'copy_metadata'])
    res = it.analyze(q)
    v = res.ret
    ok = v[0] == 'call' and v[1] == MD + 'copy_metadata' and len(v[2]) >= 2
    if ok:
        body = v[2][1]
        ok = body[0] == 'call' and body[1] == ('attr', sym('arr'), 'isel') and \
            set(dict(body[3])) == {'x', 'y'}
        if ok:
            ex, ey = dict(body[3])['x'], dict(body[3])['y']
            ok = ex[0] == 'idx' and ey[0] == 'idx' and ex[2] == num(0) and \
                ey[2] == num(1) and ex[1] == ey[1]
    check.require(ok, 'T7-subimage', 'subimage',
                  'arr.isel(x=extent[0], y=extent[1]): retained pixels keep their values '
                  '(and xarray keeps their coordinates)', loc,
                  fail_detail='returns %s' % show(v)[:200])
    # the extents: for axis i the half-open pixel range
    # [round(c_i - s_i/2), round(c_i + s_i/2)) with c the rounded centre
    arr_, cen_, shp_ = [sym(a.arg) for a in fd.args.args[:3]]
    c0 = Canon()
    ok2 = False
    detail = ''
    if ok:
        from .common import list_builder
        built = list_builder(ex[1])
        ok2 = built is not None and built[0][0] == 'call' and \
            built[0][1] == 'slice' and len(built[0][2]) == 2
        if ok2:
            elt_, z, lid = built
            if lid is None:
                ids_ = {x[2] for x in subterms(elt_) if x[0] == 'elem'}
                lid = sorted(ids_, key=str)[0] if ids_ else None
            cterm = intern(('call', ('attr', ('call', 'numpy.round', (cen_,), ()),
                                     'astype'), (('extref', 'int'),), ()))
            okz = z[0] == 'call' and z[1] == 'zip' and len(z[2]) == 2 and \
                z[2][0] == cterm and any(x == shp_ for x in subterms(z[2][1]))
            c_i = intern(('elem', z[2][0], lid)) if okz else None
            s_i = intern(('elem', z[2][1], lid)) if okz else None
            lo, hi = elt_[2]

            def rounded_int(t):
                if t[0] == 'call' and t[1] == 'int' and len(t[2]) == 1 and \
                        t[2][0][0] == 'call' and t[2][0][1] == 'numpy.round':
                    return t[2][0][2][0]
                return None
            lo_i, hi_i = rounded_int(lo), rounded_int(hi)
            ok2 = okz and lo_i is not None and hi_i is not None and \
                c0.equal(lo_i, intern(('bin', '-', c_i, ('bin', '/', s_i, num(2))))) and \
                c0.equal(hi_i, intern(('bin', '+', c_i, ('bin', '/', s_i, num(2)))))
            detail = 'slice(%s, %s)' % (show(lo)[:80], show(hi)[:80])
    check.require(ok2, 'T7-subimage', 'subimage extents',
                  'axis i keeps pixels [round(c_i - s_i/2), round(c_i + s_i/2)) with c '
                  'the rounded centre and (c_i, s_i) paired axis by axis', loc,
                  fail_detail=detail)


def subimage_shapes(check, prog):
    """T7b: the documented forms of `shape` -- an int, or an (int, int) pair for x
    and y -- are both accepted for an ordinary image, which has three dimensions
    (z, x, y).  The refusal must not compare the length of the pair with the
    number of dimensions of the image."""
    from hpstatic.logic import eval3
    q = IP + 'subimage'
    fd = prog.func(q)
    loc = prog.loc(q, fd)
    arr_, cen_, shp_ = [sym(a.arg) for a in fd.args.args[:3]]
    bad = []
    for scalar in (True, False):
        def decide(t, scalar=scalar):
            if t[0] == 'call' and t[1] == 'numpy.isscalar' and t[2] == (shp_,):
                return scalar
            return None
        it = Interp(prog, max_depth=1, decide=decide, opaque=[MD + 'copy_metadata'])
        res = it.analyze(q)
        ndim = intern(('attr', arr_, 'ndim'))

        def val(t, scalar=scalar):
            # an ordinary image: ndim == 3; the pair has length 2; a repeated
            # scalar has the length it was repeated to
            if t[0] == 'cmp' and t[1] in ('==', '!=', '<', '<=', '>', '>='):
                def num_of(x):
                    if is_num(x):
                        return float(x[1])
                    if x == ndim:
                        return 3.0
                    if x == ('call', 'len', (shp_,), ()):
                        return 2.0
                    if x[0] == 'call' and x[1] == 'len' and x[2] and \
                            x[2][0][0] == 'call' and x[2][0][1] == 'numpy.repeat' and \
                            x[2][0][2][0] == shp_:
                        return num_of(x[2][0][2][1])
                    return None
                a, b = num_of(t[2]), num_of(t[3])
                if a is None or b is None:
                    return None
                import operator as op_
                return {'==': op_.eq, '!=': op_.ne, '<': op_.lt, '<=': op_.le,
                        '>': op_.gt, '>=': op_.ge}[t[1]](a, b)
            return None
        from hpstatic.logic import cond3
        for o in res.raises:
            if cond3(o.cond, val) is True:
                bad.append('%s shape: refused under %s' % (
                    'int' if scalar else '(int, int)',
                    ' and '.join(('' if p else 'not ') + show(t)[:60] for t, p in o.cond)))
    check.require(not bad, 'T7-subimage', 'subimage shape forms',
                  'an int and an (int, int) pair are both accepted for a (z, x, y) image',
                  loc, fail_detail='; '.join(bad) + ': the documented pair can never pass '
                  'for an image, which always has the three dimensions z, x, y')


def center_priors_structure(check, prog):
    """make_center_priors: x and y get Gaussians centred on the found centre
    (mean <- centre_i, width <- pixel uncertainty * spacing_i), z a Uniform over
    the requested range."""
    q = 'holopy.core.prior.make_center_priors'
    fd = prog.func(q)
    loc = prog.loc(q, fd)
    P = {a.arg: sym(a.arg) for a in fd.args.args}
    it = Interp(prog, max_depth=1, inline_new=False, opaque=[
        MD + 'get_extents', MD + 'get_spacing',
        'holopy.core.process.centerfinder.center_find'])
    v = it.analyze(q).ret
    c0 = Canon()
    ok = v[0] == 'bin' and v[1] == '+' and v[3][0] == 'list' and len(v[3][1]) == 1
    detail = 'returns %s' % show(v)[:160]
    if ok:
        xy, zp = v[2], v[3][1][0]
        if xy[0] == 'call' and xy[1] == 'list' and len(xy[2]) == 1:
            xy = xy[2][0]
        ok = xy[0] == 'comp' and xy[2][0] == 'new' and xy[2][1].endswith('Gaussian')
        if ok:
            g = dict(xy[2][3])
            mu, sd = g.get('mu'), g.get('sd')
            sp = intern(('call', MD + 'get_spacing', (P['im'],), ()))
            ok = mu is not None and sd is not None and mu[0] == 'elem' and \
                sd[0] == 'elem' and mu[2] == sd[2] and \
                bool(calls_in(mu[1], 'center_find')) and \
                c0.equal(sd[1], intern(('bin', '*', P['xy_uncertainty_pixels'], sp)))
            detail = 'Gaussian(mu=%s, sd=%s)' % (show(mu)[:60] if mu else None,
                                                 show(sd)[:60] if sd else None)
        if ok:
            okz = zp[0] == 'new' and zp[1].endswith('Uniform') and zp[2] and \
                zp[2][0][0] == 'star'
            if okz:
                rng = zp[2][0][1]
                zu = P['z_range_units']
                ext = intern(('call', MD + 'get_extents', (P['im'],), ()))
                mx = intern(('call', 'max', (('idx', ext, ('const', 'x')),
                                             ('idx', ext, ('const', 'y'))), ()))
                auto = None
                if rng[0] == 'ite' and rng[1] == ('cmp', 'is not', zu, NONE) and \
                        rng[2] == zu:
                    auto = rng[3]
                elif rng[0] == 'ite' and rng[1] == ('cmp', 'is', zu, NONE) and \
                        rng[3] == zu:
                    auto = rng[2]
                okz = auto is not None and auto[0] == 'tuple' and len(auto[1]) == 2 and \
                    auto[1][0] == num(0) and (
                        c0.equal(auto[1][1], intern(('bin', '*', mx, P['z_range_extents'])))
                        or c0.equal(auto[1][1], intern(('bin', '*', (
                            'call', 'max', (mx[2][1], mx[2][0]), ()),
                            P['z_range_extents']))))
            ok = okz
            detail = 'z prior %s' % show(zp)[:160]
    check.require(ok, 'T6-center-priors-structure', 'make_center_priors',
                  'x, y: Gaussian(mean = found centre_i, sd = uncertainty * spacing_i); '
                  'z: Uniform over z_range_units if given, else (0, larger image extent '
                  '* z_range_extents)', loc, fail_detail=detail)


def _rebase_noise(t, raw):
    """update_metadata(x, noise_sd=<view of bg>.noise_sd) -> ... bg.noise_sd"""
    if t[0] == 'call' and t[3]:
        return intern((t[0], t[1], t[2], tuple(
            (k, _unview(val, raw)) for k, val in t[3])))
    return t


def bg_correct_guards(check, prog):
    """bg_correct refuses exactly the mismatched inputs and fills in only a
    missing noise level."""
    from .common import norm_cond
    q = IP + 'bg_correct'
    fd = prog.func(q)
    loc = prog.loc(q, fd)
    raw, bg, df = [sym(a.arg) for a in fd.args.args[:3]]
    def decide(t):
        # (the default dark field is a copy of raw: same axes, shape and spacing)
        if t == ('cmp', 'is', df, NONE):
            return False
        return None
    it = Interp(prog, max_depth=1, decide=decide, opaque=[
        MD + 'copy_metadata', IP + 'zero_filter', MD + 'update_metadata',
        MD + 'get_spacing'])
    res = it.analyze(q)
    ok = bool(res.raises) and all('BadImage' in show(o.value) for o in res.raises)
    atoms = None
    if ok:
        # the refusals, taken together, say: refused <=> one of the agreement
        # tests fails -- decided as a truth table over those tests, however the
        # conditions are spelled (not (A and B), not A or not B, several
        # statements, a loop over the non-pixel axes).  Agreement tests: equality
        # of the shapes, equality or closeness *without an absolute tolerance* of
        # the pixel sizes (a crop's pixel size is a difference of coordinates:
        # exact equality refuses crops taken at different positions, an absolute
        # tolerance makes the refusal depend on the unit of length), equality of
        # the axis names, equality of the label sets of an axis other than x, y, z
        import itertools
        from hpstatic.logic import eval3
        atoms = []
        for o in res.raises:
            for t, _ in o.cond:
                for x in subterms(t):
                    if x[0] == 'cmp' and x[1] in ('==', '!='):
                        atoms.append(x)
                    elif x[0] == 'call' and x[1] in ('numpy.allclose', 'numpy.isclose',
                                                     'numpy.array_equal'):
                        atoms.append(x)
        atoms = list(dict.fromkeys(atoms))

        def is_shape(x):
            return x[0] == 'cmp' and any(y[0] == 'attr' and y[2] == 'shape'
                                         for y in (x[2], x[3]))

        def is_spacing(x):
            return bool(calls_in(x, MD + 'get_spacing'))

        def is_axes(x):
            return x[0] == 'cmp' and all(
                y[0] == 'call' and y[1] == 'set' and len(y[2]) == 1 and
                y[2][0][0] == 'attr' and y[2][0][2] == 'dims' for y in (x[2], x[3]))

        def is_labels(x):
            return x[0] == 'cmp' and all(
                y[0] == 'call' and y[1] == 'set' and len(y[2]) == 1 and
                y[2][0][0] == 'attr' and y[2][0][2] in ('values', 'data') and
                y[2][0][1][0] == 'idx' for y in (x[2], x[3]))
        shapes = [x for x in atoms if is_shape(x)]
        spac = [x for x in atoms if is_spacing(x)]
        other = [x for x in atoms if not (is_shape(x) or is_spacing(x) or is_axes(x)
                                          or is_labels(x))]
        # an absolute tolerance on a length makes the verdict unit dependent
        tol_ok = all(x[0] == 'cmp' or (x[1] != 'numpy.array_equal' and
                                       dict(x[3]).get('atol') in (num(0), ('num', 0)))
                     or x[1] == 'numpy.array_equal' for x in spac)
        ok = len(shapes) == 2 and len(spac) == 2 and not other and tol_ok and \
            len(atoms) <= 10
        if not tol_ok:
            detail_tol = 'the pixel sizes are compared with an absolute tolerance'
        for vals in itertools.product((True, False), repeat=len(atoms)) if ok else ():
            env = dict(zip(atoms, vals))

            def holds(t, env=env):
                return env[t] if (t[0] == 'call' or t[1] == '==') else not env[t]

            def atom(t, env=env):
                if t in env:
                    return env[t]
                if t[0] == 'cmp' and t[1] in ('in', 'not in') and \
                        t[2][0] == 'elem' and t[3][0] in ('tuple', 'list'):
                    # "this axis is not a pixel axis": the label test below it
                    # speaks about such an axis
                    return t[1] == 'not in'
                return None
            refused = False
            for o in res.raises:
                cs_ = [(t, p) for t, p in o.cond if t[0] != 'loop-iter']
                vs = [eval3(t, atom) for t, p in cs_]
                if all(v is not None for v in vs) and all(
                        v == p for v, (t, p) in zip(vs, cs_)):
                    refused = True
            agree_all = all(holds(t) for t in atoms)
            if refused == agree_all:
                ok = False
                break
    if atoms is not None:
        exact = [x for x in spac if x[0] == 'cmp']
        check.require(not exact, 'T3-bg-correct-crops-accepted', 'bg_correct pixel sizes',
                      'the pixel sizes are compared up to rounding (a relative '
                      'tolerance, no absolute one)', loc,
                      fail_detail='the pixel sizes are compared with %s: get_spacing is '
                      'a difference of coordinates, 0.1, 0.10000000000000009 or '
                      '0.10000000000000053 depending on where a crop starts, so a raw '
                      'image and a background cropped at different positions (same '
                      'shape, same pixel size) are refused -- 96 of 117 crop positions '
                      'of a 100 x 100 image at spacing 0.1' % (
                          show(exact[0])[:80] if exact else ''))
        labels = [x for x in atoms if is_labels(x)]
        check.require(bool(labels), 'T3-bg-correct-channels-by-label',
                      'bg_correct channel labels',
                      'images whose channel labels differ are refused (labelled '
                      'arithmetic keeps only the labels they share)', loc,
                      fail_detail='no refusal compares the labels of the non-pixel '
                      'axes: raw with channels [red, green] and a background with '
                      '[red, blue] give a result with the single channel red, labels '
                      '[0, 1] an empty image, silently')
    check.require(ok, 'T3-bg-correct', 'bg_correct refusal',
                  'BadImage iff the three images do not all share shape, pixel size '
                  '(compared without an absolute tolerance) and, beyond those, axis '
                  'names and channel labels',
                  loc, fail_detail='raises under %s' % [
                      [(show(t)[:100], p) for t, p in o.cond] for o in res.raises])
    v = res.ret
    # if a: (if b: X) is if a and b: X
    while v[0] == 'ite' and v[2][0] == 'ite' and v[2][3] == v[3]:
        inner = v[2]
        outer_c = v[1][2] if v[1][0] == 'bool' and v[1][1] == 'and' else (v[1],)
        inner_c = inner[1][2] if inner[1][0] == 'bool' and inner[1][1] == 'and' \
            else (inner[1],)
        v = intern(('ite', ('bool', 'and', tuple(outer_c) + tuple(inner_c)),
                    inner[2], v[3]))
    ok = v[0] == 'ite' and v[1][0] == 'bool' and v[1][1] == 'and'
    if ok:
        # (attributes are the same through a view of the background)
        v = intern(('ite', ('bool', 'and', tuple(
            ('call', 'hasattr', (_unview(c[2][0], raw), c[2][1]), ())
            if c[0] == 'call' and c[1] == 'hasattr' and c[2] and c[2][0] != v[3]
            else c for c in v[1][2])), _rebase_noise(v[2], raw), v[3]))
        plain = v[3]
        filled = v[2]
        conds = set(v[1][2])
        want = {intern(('call', 'hasattr', (plain, ('const', 'noise_sd')), ())),
                intern(('call', 'hasattr', (bg, ('const', 'noise_sd')), ())),
                intern(('cmp', 'is', ('attr', plain, 'noise_sd'), NONE))}
        ok = conds == want and plain[0] == 'call' and plain[1] == MD + 'copy_metadata' \
            and plain[2][0] == raw and filled == (
                'call', MD + 'update_metadata', (plain,),
                (('noise_sd', ('attr', bg, 'noise_sd')),))
    check.require(ok, 'T3-bg-correct', 'bg_correct noise level',
                  'the corrected image carries raw\'s metadata; only a missing noise '
                  'level is taken over from the background', loc,
                  fail_detail='returns %s' % show(v)[:200])
