"""C05  Covariance under in-plane shift, axial rotation and mirroring.

  T  in-plane shift, every theory: affine-charge typing (x -> x + a for detector
     x and scatterer center[0]; same for y): every solver call receives only
     charge-0 arguments, the result has charge 0 -- so the opaque solvers only
     ever see shift-invariant inputs, whatever they compute.
  R  rotation about the optical axis, lens theories (whose rotation handling is
     Python code): substitution phi -> phi + delta, pol_angle -> pol_angle + delta
     (pupil variable re-based likewise) followed by trigonometric normalisation:
     the azimuth handed to the x-polarised calculator is invariant and the
     returned (x, y) field rotates as a vector.
  P  mirror y -> -y, lens theories: phi -> -phi, pol_angle -> -pol_angle: x
     component even, y component odd.
  V  no theory pins the polarisation to a lab direction (a polarisation vector
     compared with a literal).
Not decided: rotation / mirror inside compiled code (mieangfuncs incfield,
fieldstocart; SCSMFO; ampld).
"""
import ast
from fractions import Fraction as F

from hpstatic.interp import Interp, expr_term
from hpstatic.loader import AnalysisError
from hpstatic.poly import Canon
from hpstatic.terms import (sym, intern, show, subterms, calls_in, kw, num, is_num,
                            NONE, T, atoms_of)
from hpstatic.weights import Weigher, ANY, NA, UNK, ZERO
from .theories import all_configs, run_config, sink_calls, IFQ, TH
from .common import THEORY

MUTATION_TARGETS = {'holopy/scattering/imageformation.py': ['_transform_to_desired_coordinates', '_get_field_from'], 'holopy/scattering/theory/mielens.py': ['raw_fields'], 'holopy/scattering/theory/lens.py': ['raw_fields', '_integrand_prefactor', '_integrand_prll', '_integrand_perp', '_transform_integral_from_lr_to_xyz', 'pts_wts_for_phi_integrals'], 'holopy/scattering/theory/mielensfunctions.py': ['_calculate_small_krho_scattered_field'], 'holopy/scattering/theory/multisphere.py': ['_scsmfo_setup']}

LEVEL = 'other'
META = dict(
    claimed=True,
    technique='affine-charge typing (translation) of every theory hand-off; '
              'substitution + trigonometric normal form (rotation, mirror) of the '
              'lens theories\' Python code; literal-comparison rule on '
              'polarisation vectors',
    level_text='Static, for all inputs: T is a typing proof that every solver only '
               'sees detector-minus-centre differences (so a joint in-plane shift '
               'changes nothing, for every theory at once); R and P are symbolic '
               'identities of the MieLens / AberratedMieLens / Lens recombination '
               'code; V enumerates comparisons of polarisation with literals.  '
               'Does not decide rotation/mirror covariance implemented inside the '
               'Fortran solvers.',
    level_note='Trusted: opaque solvers are pure; the Lens azimuthal quadrature is '
               'a uniform full-period rule (checked structurally) so the pupil '
               'variable may be re-based; scattering-matrix elements S3, S4 are '
               'odd under mirroring for a mirrored scatterer.',
)

MIELENS = TH + 'mielens.MieLens'
LENS = TH + 'lens.Lens'
CALC = TH + 'mielensfunctions.MieLensCalculator'


def run(check, prog):
    check.explanation = (
        'T: every configuration of the theory hand-off is typed with additive '
        'shift charges.  R/P: the lens theories\' methods are evaluated into terms; '
        'the symmetry is applied by substitution and both sides are compared in a '
        'canonical form with angle-sum and parity rules.')
    check.trusted += ['purity of opaque solvers',
                      'uniform full-period azimuthal quadrature (checked)']
    translation(check, prog)
    canon = Canon(trig_expand=True)
    mielens_rotation(check, prog, canon)
    lens_rotation(check, prog, canon)
    calculator_parity(check, prog, canon)
    phi_quadrature(check, prog)
    polarization_pins(check, prog)
    pin_exact(check, prog)
    # the Lens pupil integral sees the azimuthal dependence of the wrapped theory
    from . import c08 as _c08, c09 as _c09
    _c08.lens_nodes(check, prog)
    # ... and the theory chosen by default must not change when the configuration is
    # turned: the choice rests on counts, radii and pairwise distances only
    _c09.cluster(check, prog)
    # a theory object reused for a moved / turned / mirrored configuration must
    # not answer from what it kept of the previous one (rule shared with C01)
    from . import c01 as _c01
    _c01.f5_state(check, prog)
    f2py_coordinate_roles(check, prog)
    # the polarisation angle reaches the integrands and the recombination with
    # one and the same sign (rule shared with C08)
    from . import c08
    c08.lens_wiring(check, prog)
    # the lens wrapper turns with the configuration only if what the wrapped
    # theory returns per point is the matrix relative to the scattering plane
    # (then A'(theta, phi + a) = A(theta, phi) for the turned particle); a
    # laboratory-frame matrix is referred to the fixed x, y axes instead.  For the
    # T-matrix theory this is rule E8's first obligation (shared with C10)
    from . import c10
    c10.sphere_limit(check, prog, fields=False)
    # the shift clause is about positions relative to the particle: the hand-off
    # gives every theory x - x_c, y - y_c, z_c - z of each detector point, in
    # floating point (rule shared with C07)
    from . import c07
    c07.coordinates(check, prog)


def pin_exact(check, prog):
    """A theory that works for one polarisation only must refuse every other one:
    its guard has to be the exact comparison of the transverse components with the
    pinned vector.  A looser test (a tolerance, an absolute value, one component)
    lets through polarisations for which the theory then returns the field of the
    pinned one -- e.g. (-1, 0) would get the field of (1, 0), the negative of the
    right answer, which is neither linear in the polarisation nor the sphere
    limit."""
    from hpstatic.interp import Interp
    n = 0
    for cq in prog.subclasses(THEORY):
        c = prog.classes[cq]
        for mname in ('raw_fields', 'raw_scat_matrs', 'raw_cross_sections'):
            fd = c.methods.get(mname)
            if fd is None:
                continue
            params = [a.arg for a in fd.args.args]
            pol = [a for a in params if a in ('illum_polarization', 'pol', 'einc')]
            if not pol:
                continue
            n += 1
            P = sym(pol[0])
            q = cq + '.' + mname
            loc = prog.loc(cq, fd)
            it = Interp(prog, max_depth=0)
            res = it.analyze(q)
            for o in res.raises:
                for t, polarity in o.cond:
                    if P not in atoms_of(t):
                        continue
                    lits = [x for x in subterms(t) if x[0] in ('list', 'tuple') and x[1]
                            and all(y[0] == 'num' for y in x[1])]
                    # (a refusal that depends on the polarisation without naming
                    # the pinned vector -- one component tested, a tolerance --
                    # is not the exact comparison either; a test on something
                    # *computed from* the polarisation, e.g. on the returned
                    # fields, is not a guard on the polarisation)
                    TESTS = ('numpy.array', 'numpy.asarray', 'numpy.isclose',
                             'numpy.allclose', 'numpy.array_equal', 'numpy.all',
                             'numpy.any', 'numpy.abs', 'abs', 'all', 'any',
                             'numpy.equal', 'numpy.not_equal', 'list', 'tuple')

                    def about(x):
                        # does P reach x through tests / views only?
                        if x == P:
                            return True
                        if x[0] in ('cmp', 'bool', 'un', 'bin', 'idx', 'attr', 'list',
                                    'tuple', 'slice'):
                            return any(about(y) for y in x[1:] if isinstance(y, tuple)
                                       and y and isinstance(y[0], str)) or any(
                                about(z) for y in x[1:] if isinstance(y, tuple)
                                for z in y if isinstance(z, tuple) and z and
                                isinstance(z[0], str))
                        if x[0] == 'call':
                            f = x[1]
                            recv = f[1] if isinstance(f, tuple) and f[0] == 'attr' and \
                                f[2] in ('all', 'any', 'values') else None
                            if recv is not None:
                                return about(recv)
                            if f in TESTS:
                                return any(about(y) for y in x[2])
                        return False
                    if not lits and not about(t):
                        continue

                    def plain(x):
                        # the polarisation's leading components, unconverted
                        while True:
                            if x[0] == 'call' and x[1] in ('numpy.array', 'numpy.asarray') \
                                    and len(x[2]) == 1:
                                x = x[2][0]
                            elif x[0] == 'attr' and x[2] == 'values':
                                x = x[1]
                            elif x[0] == 'idx' and x[2][0] == 'slice':
                                x = x[1]
                            else:
                                return x

                    def lit(x):
                        if x[0] == 'call' and x[1] in ('numpy.array', 'numpy.asarray') \
                                and len(x[2]) == 1:
                            x = x[2][0]
                        return x in lits
                    inner = t
                    if inner[0] == 'call' and isinstance(inner[1], tuple) and \
                            inner[1][0] == 'attr' and inner[1][2] == 'all' and not inner[2]:
                        inner = inner[1][1]
                    elif inner[0] == 'call' and inner[1] in ('numpy.all', 'all') and \
                            len(inner[2]) == 1:
                        inner = inner[2][0]
                    exact = False
                    if inner[0] == 'cmp' and inner[1] == '==':
                        a, b = inner[2], inner[3]
                        exact = (plain(a) == P and lit(b)) or (plain(b) == P and lit(a))
                    elif inner[0] == 'call' and inner[1] == 'numpy.array_equal' and \
                            len(inner[2]) == 2:
                        a, b = inner[2]
                        exact = (plain(a) == P and lit(b)) or (plain(b) == P and lit(a))
                    check.require(exact and polarity is False, 'V-pin-exact',
                                  '%s.%s' % (cq.rpartition('.')[2], mname),
                                  'every polarisation other than the one the theory is '
                                  'written for is refused', loc,
                                  fail_detail='accepted when %s%s: a polarisation that '
                                  'passes without being the pinned one gets the pinned '
                                  'one\'s field' % ('' if not polarity else 'not ',
                                                    show(t)[:120]))
    check.floor('theory methods that take a polarisation', n, 4)


# ----------------------------------------------------------------------
def translation(check, prog):
    n = 0
    for theory, inner, scat, entry, det in all_configs():
        if entry == 'calculate_cross_sections' or det != 'cartesian':
            continue
        n += 1
        label = '%s%s x %s x %s' % (theory, '(%s)' % inner if inner else '', scat, entry)
        it, res = run_config(prog, theory, inner, scat, entry, det)
        fd = prog.func(IFQ + '.' + entry)
        loc = prog.loc(IFQ, fd)
        for axis, vec in (('Tx', (F(1), ZERO, ZERO)), ('Ty', (ZERO, F(1), ZERO))):
            seeds = {'x': vec[0], 'y': vec[1], 'z': ZERO,
                     'center': ('seq', vec),
                     'centers': ('T', ('seq', vec))}
            w = Weigher(seeds, sym_seeds={'schema': NA, 'scatterer': NA, 'self': NA},
                        name=axis, loops=it.loops, mode='affine')
            rw = w.w(res.ret)
            sinks = sink_calls(it)
            for c in it.calls:
                for a in list(c['args']) + [v for k, v in c['kwargs']]:
                    if a[0] != 'sym':
                        w.w(a)
            # guards (including those of raising paths in inlined callees): a
            # test on a shifted quantity makes the outcome position dependent
            seen_c = set()
            for conds in [o.cond for o in res.outcomes] + \
                    [e['cond'] for e in it.effects] + [c['cond'] for c in it.calls]:
                for ct, pol in conds:
                    if ct[0] not in ('loop-iter', 'exc') and id(ct) not in seen_c:
                        seen_c.add(id(ct))
                        w.w(ct)
            conflicts = [(m, t) for k, m, t in w.problems if k == 'conflict']
            unknowns = [(m, t) for k, m, t in w.problems if k == 'unknown']
            seen = set()
            for m, t in conflicts:
                if m[:150] in seen:
                    continue
                seen.add(m[:150])
                check.bad('T-shift-charge', '%s [%s]: %s' % (label, axis, m[:120]), m, loc)
            if conflicts:
                continue
            bad_sink = False
            for c in sinks:
                for a in list(c['args']) + [v for k, v in c['kwargs']]:
                    wa = w.w(a)
                    if wa == UNK:
                        bad_sink = True
                        check.error('%s [%s]: cannot type argument of %s: %s (%s)' % (
                            label, axis, c['name'], show(a)[:100],
                            '; '.join(m[:120] for m, t in unknowns[:2])))
            if bad_sink:
                continue
            if rw == UNK:
                check.error('%s [%s]: result charge undetermined: %s' % (
                    label, axis, '; '.join(m[:160] for m, t in unknowns[:2])))
                continue
            check.require(w.uniform(rw, res.ret) in (ZERO, ANY), 'T-shift-charge',
                          '%s [%s]' % (label, axis),
                          '%d solver calls receive only shift-invariant arguments; '
                          'result invariant' % len(sinks), loc,
                          fail_detail='result has %s-charge %s' % (axis, rw))
    check.floor('configurations typed for translation', n, 12)


# ----------------------------------------------------------------------
def subst(t, mapping):
    memo = {}

    def go(x):
        if not isinstance(x, tuple) or not x:
            return x
        if type(x) is T and x in mapping:
            return mapping[x]
        k = id(x)
        if k in memo:
            return memo[k]
        if isinstance(x[0], str):
            r = intern(tuple(go(y) if isinstance(y, tuple) else y for y in x))
        else:
            r = tuple(go(y) if isinstance(y, tuple) else y for y in x)
        memo[k] = r
        return r
    return go(intern(t))


def row_value(t, i):
    """Symbolic value of row i of a (k, N) array term built by zeros + stores."""
    k = t[0]
    if k == 'upd' and t[2] == 'item':
        key, val = t[3], t[4]
        row = key[1][0] if key[0] == 'tuple' and key[1] else key
        if is_num(row):
            if int(row[1]) != i:
                return row_value(t[1], i)
            # val = old_row + X   (augmented assignment) or a plain value
            if val[0] == 'bin' and val[1] == '+':
                old = val[2]
                if old[0] == 'idx':
                    return intern(('bin', '+', row_value(t[1], i), val[3]))
            return val
        raise AnalysisError('row store with a non-constant row index')
    if k == 'bin' and t[1] in ('*', '/'):
        return intern(('bin', t[1], row_value(t[2], i), t[3]))
    if k == 'call' and t[1] in ('numpy.zeros', 'numpy.zeros_like'):
        return num(0)
    if k == 'ite':
        a, b = row_value(t[2], i), row_value(t[3], i)
        return a if a == b else intern(('ite', t[1], a, b))
    raise AnalysisError('cannot take row %d of %s' % (i, show(t)[:120]))


def drop_zero_reads(t):
    """x = zeros(...); x[i] += v  reads zeros(...)[i] == 0"""
    m = {}
    for x in subterms(t):
        if x[0] == 'idx' and x[1][0] == 'call' and x[1][1] in (
                'numpy.zeros', 'numpy.zeros_like'):
            m[x] = num(0)
    return subst(t, m) if m else t


def check_vector_rotation(check, canon, rule, construct, loc, e0, e1, A, extra_odd=()):
    """(e0, e1) built from angle atom A must rotate as a vector / mirror."""
    e0, e1 = drop_zero_reads(e0), drop_zero_reads(e1)
    d = sym('delta')
    rot = {A: intern(('bin', '+', A, d))}
    e0r, e1r = subst(e0, rot), subst(e1, rot)
    cd = intern(('call', 'cos', (d,), ()))
    sd = intern(('call', 'sin', (d,), ()))
    want0 = intern(('bin', '-', ('bin', '*', cd, e0), ('bin', '*', sd, e1)))
    want1 = intern(('bin', '+', ('bin', '*', sd, e0), ('bin', '*', cd, e1)))
    ok = canon.equal(e0r, want0) and canon.equal(e1r, want1)
    check.require(ok, rule + '-rotation', construct,
                  'the (x, y) field rotates by delta when the polarisation angle '
                  'does', loc,
                  fail_detail='E(pol_angle + delta) is not R(delta) E(pol_angle): '
                  'Ex = %s, Ey = %s' % (canon.show(e0)[:200], canon.show(e1)[:200]))
    mir = {A: intern(('un', '-', A))}
    for o in extra_odd:
        mir[o] = intern(('un', '-', o))
    e0m, e1m = subst(e0, mir), subst(e1, mir)
    ok = canon.equal(e0m, e0) and canon.equal(e1m, intern(('un', '-', e1)))
    check.require(ok, rule + '-mirror', construct,
                  'under y -> -y the x component is even and the y component odd', loc,
                  fail_detail='mirror image: Ex -> %s, Ey -> %s' % (
                      canon.show(e0m)[:200], canon.show(e1m)[:200]))


def mielens_rotation(check, prog, canon):
    for cls in ('MieLens', 'AberratedMieLens'):
        cq = TH + 'mielens.' + cls
        hit = prog.lookup(cq, 'raw_fields')
        owner = hit[1]
        fd = hit[2]
        loc = prog.loc(owner, fd)
        it = Interp(prog, max_depth=2, opaque=[
            CALC + '.calculate_scattered_field', CALC + '._calculate_incident_field',
            CALC + '.__init__', TH + 'mielensfunctions.AberratedMieLensCalculator.__init__',
            MIELENS + '._create_calculator',
            TH + 'mielens.AberratedMieLens._create_calculator'])
        RHO, PHI, Z = sym('RHO'), sym('PHI'), sym('Z')
        pos = intern(('list', (RHO, PHI, Z)))
        res = it.analyze(owner + '.raw_fields', args={'positions': pos}, selfcls=cq)
        construct = cls + '.raw_fields'
        calls = [c for c in it.calls if c['name'].endswith('calculate_scattered_field')]
        if len(calls) != 1:
            check.bad('R-azimuth', construct, 'expected one call of the x-polarised '
                      'calculator, found %d' % len(calls), loc)
            continue
        args = [a for a in calls[0]['args'] if a[0] not in ('call', 'new') or
                a[1] != MIELENS + '._create_calculator']
        args = list(calls[0]['args'])[-2:]
        rho_arg, phi_arg = args
        ats = [c for c in calls_in(phi_arg, 'numpy.arctan2')]
        if not ats:
            check.bad('R-azimuth', construct,
                      'the azimuth handed to the calculator does not involve the '
                      'polarisation angle: %s' % show(phi_arg)[:160], loc)
            continue
        A = ats[0]
        polok = A[2][0][0] == 'idx' and A[2][1][0] == 'idx' and \
            A[2][0][2] == num(1) and A[2][1][2] == num(0) and \
            sym('illum_polarization') in (x for x in subterms(A))
        check.require(polok, 'R-polarisation-angle', construct,
                      'pol_angle = arctan2(polarisation[1], polarisation[0])', loc,
                      fail_detail='pol_angle = %s' % show(A)[:160])
        d = sym('delta')
        rot = {PHI: intern(('bin', '+', PHI, d)), A: intern(('bin', '+', A, d))}
        check.require(canon.equal(subst(phi_arg, rot), phi_arg), 'R-azimuth', construct,
                      'the azimuth handed to the x-polarised calculator is measured '
                      'from the polarisation direction (invariant under a joint '
                      'rotation)', loc,
                      fail_detail='azimuth %s changes when detector and polarisation '
                      'rotate together: the hologram is not rotation covariant '
                      '(invisible at 0 and 90 degrees)' % canon.show(phi_arg)[:200])
        check.require(canon.equal(subst(rho_arg, rot), rho_arg), 'R-azimuth',
                      construct + ' radius', 'radial coordinate invariant', loc)
        # mirror: phi -> -phi, A -> -A must negate the relative azimuth (mod 2 pi)
        mir = {PHI: intern(('un', '-', PHI)), A: intern(('un', '-', A))}
        pm = subst(phi_arg, mir)
        okm = False
        if phi_arg[0] == 'bin' and phi_arg[1] == '%' and pm[0] == 'bin' and pm[1] == '%':
            okm = canon.equal(pm[2], intern(('un', '-', phi_arg[2]))) and \
                canon.equal(pm[3], phi_arg[3])
        else:
            okm = canon.equal(pm, intern(('un', '-', phi_arg)))
        check.require(okm, 'P-azimuth', construct,
                      'mirroring negates the relative azimuth', loc)
        # returned field rows
        ret = res.ret
        try:
            e0, e1 = row_value(ret, 0), row_value(ret, 1)
        except AnalysisError as e:
            check.error('%s: %s' % (construct, e))
            continue
        fp = [x for x in subterms(e0) if x[0] == 'idx' and x[1][0] == 'call'
              and isinstance(x[1][1], tuple) and x[1][1][2] == 'calculate_scattered_field']
        fpll = [x for x in fp if x[2] == num(0)]
        fprp = [x for x in fp if x[2] == num(1)]
        if not fpll or not fprp:
            check.bad('R-recombination', construct,
                      'the returned x component does not combine both calculator '
                      'outputs: %s' % canon.show(e0)[:200], loc)
            continue
        # the calculator outputs are invariant (their arguments are, see above):
        # abstract them before applying the symmetry to the recombination
        abstract = {fpll[0]: sym('F_PLL'), fprp[0]: sym('F_PRP')}
        e0, e1 = subst(e0, abstract), subst(e1, abstract)
        check_vector_rotation(check, canon, 'R-recombination', construct, loc, e0, e1, A,
                              extra_odd=(sym('F_PRP'),))
        # the z row stays zero
        try:
            e2 = row_value(ret, 2)
            check.require(canon.is_zero(e2), 'R-recombination', construct + ' z row',
                          'no z component is produced', loc)
        except AnalysisError:
            pass


def lens_rotation(check, prog, canon):
    d = sym('delta')
    pts = intern(('attr', sym('self'), '_phi_pts'))
    # prefactor: depends on the pupil azimuth only relative to the detector azimuth
    q = LENS + '._integrand_prefactor'
    fd = prog.func(q)
    loc = prog.loc(q, fd)
    for use_ne in (True, False):
        def decide(t, use_ne=use_ne):
            if t == intern(('attr', sym('self'), 'use_numexpr')):
                return use_ne
            return None
        it = Interp(prog, max_depth=2, decide=decide)
        res = it.analyze(q)
        ret = res.ret
        phi_p = sym('phi_p')
        rot = {pts: intern(('bin', '+', pts, d)), phi_p: intern(('bin', '+', phi_p, d))}
        construct = 'Lens._integrand_prefactor [%s]' % ('numexpr' if use_ne else 'numpy')
        check.require(canon.equal(subst(ret, rot), ret), 'R-lens-prefactor', construct,
                      'depends on the azimuths only through phi_pupil - phi_detector',
                      loc, fail_detail='prefactor %s is not invariant' %
                      canon.show(ret)[:200])
        mir = {pts: intern(('un', '-', pts)), phi_p: intern(('un', '-', phi_p))}
        check.require(canon.equal(subst(ret, mir), ret), 'P-lens-prefactor', construct,
                      'even under mirroring', loc)
    # parallel / perpendicular integrands
    S = {k: sym(k) for k in ('S1', 'S2', 'S3', 'S4')}
    vals = {}
    for name in ('_integrand_prll', '_integrand_perp'):
        q = LENS + '.' + name
        fd = prog.func(q)
        loc = prog.loc(q, fd)
        for use_ne in (True, False):
            def decide(t, use_ne=use_ne):
                if t == intern(('attr', sym('self'), 'use_numexpr')):
                    return use_ne
                return None
            it = Interp(prog, max_depth=2, decide=decide)
            res = it.analyze(q)
            ret = res.ret
            vals[(name, use_ne)] = ret
            pa = sym('pol_angle')
            rot = {pts: intern(('bin', '+', pts, d)), pa: intern(('bin', '+', pa, d))}
            construct = 'Lens.%s [%s]' % (name, 'numexpr' if use_ne else 'numpy')
            check.require(canon.equal(subst(ret, rot), ret), 'R-lens-integrand',
                          construct, 'depends on the pupil azimuth only relative to the '
                          'polarisation angle', loc,
                          fail_detail='%s changes under a joint rotation' %
                          canon.show(ret)[:200])
            mir = {pts: intern(('un', '-', pts)), pa: intern(('un', '-', pa)),
                   S['S3']: intern(('un', '-', S['S3'])),
                   S['S4']: intern(('un', '-', S['S4']))}
            m = subst(ret, mir)
            want = ret if name.endswith('prll') else intern(('un', '-', ret))
            check.require(canon.equal(m, want), 'P-lens-integrand', construct,
                          'parallel integrand even, perpendicular odd under mirroring',
                          loc)
    # recombination
    q = LENS + '._transform_integral_from_lr_to_xyz'
    fd = prog.func(q)
    loc = prog.loc(q, fd)
    it = Interp(prog, max_depth=2)
    res = it.analyze(q)
    try:
        e0, e1 = row_value(res.ret, 0), row_value(res.ret, 1)
        check_vector_rotation(check, canon, 'R-recombination',
                              'Lens._transform_integral_from_lr_to_xyz', loc, e0, e1,
                              sym('pol_angle'), extra_odd=(sym('perp_component'),))
    except AnalysisError as e:
        check.error('Lens._transform_integral_from_lr_to_xyz: %s' % e)
    # raw_fields: one polarisation angle feeds integrand and recombination
    q = LENS + '.raw_fields'
    fd = prog.func(q)
    loc = prog.loc(q, fd)
    it = Interp(prog, max_depth=1, opaque=[
        LENS + '._compute_integral', LENS + '._transform_integral_from_lr_to_xyz',
        LENS + '._compute_field_phase'])
    res = it.analyze(q)
    ci = [c for c in it.calls if c['name'].endswith('_compute_integral')]
    tr = [c for c in it.calls if c['name'].endswith('_transform_integral_from_lr_to_xyz')]
    ok = len(ci) == 1 and len(tr) == 1
    if ok:
        a1 = ci[0]['args'][-1]
        a2 = tr[0]['args'][-1]
        ok = a1 == a2 and a1[0] == 'call' and a1[1] == 'numpy.arctan2' and \
            a1[2][0][2] == num(1) and a1[2][1][2] == num(0)
    check.require(ok, 'R-polarisation-angle', 'Lens.raw_fields',
                  'pol_angle = arctan2(pol[1], pol[0]) feeds both the integrand and '
                  'the recombination', loc)


def calculator_parity(check, prog, canon):
    q = CALC + '._calculate_small_krho_scattered_field'
    fd = prog.func(q)
    loc = prog.loc(q, fd)
    it = Interp(prog, max_depth=1, opaque=[CALC + '._eval_mielens_i_n'])
    res = it.analyze(q)
    ret = res.ret
    if ret[0] != 'tuple' or len(ret[1]) != 2:
        check.bad('P-calculator', 'MieLensCalculator small-rho field',
                  'does not return (Ex, Ey)', loc)
        return
    ex, ey = ret[1]
    phi = sym('phi')
    shp = {intern(('attr', phi, 'shape')): sym('SHAPE')}
    ex, ey = subst(ex, shp), subst(ey, shp)
    mir = {phi: intern(('un', '-', phi))}
    # np.reshape(x, shape) with shape = phi.shape is insensitive to the sign
    check.require(canon.equal(subst(ex, mir), ex) and
                  canon.equal(subst(ey, mir), intern(('un', '-', ey))),
                  'P-calculator', 'MieLensCalculator._calculate_small_krho_scattered_field',
                  'x-polarised response: Ex even, Ey odd in the relative azimuth', loc,
                  fail_detail='Ex = %s, Ey = %s' % (canon.show(ex)[:160],
                                                    canon.show(ey)[:160]))
    # pi-periodicity: only cos / sin of 2 phi appear
    trig = [x for x in subterms(ret) if x[0] == 'call' and x[1] in ('numpy.cos', 'numpy.sin')]
    ok = bool(trig) and all(canon.equal(x[2][0], intern(('bin', '*', num(2), phi)))
                            for x in trig)
    check.require(ok, 'P-calculator', 'MieLensCalculator azimuthal harmonics',
                  'the response contains only the 0th and 2nd azimuthal harmonics',
                  loc, fail_detail='trigonometric factors: %s' % [show(x)[:40] for x in trig])


def phi_quadrature(check, prog):
    q = TH + 'lens.pts_wts_for_phi_integrals'
    fd = prog.func(q)
    loc = prog.loc(q, fd)
    it = Interp(prog, max_depth=1)
    res = it.analyze(q)
    ret = res.ret
    if ret[0] != 'tuple' or len(ret[1]) != 2:
        check.error('pts_wts_for_phi_integrals does not return (pts, wts)')
        return
    pts, wts = ret[1]
    canon = Canon()
    n = sym('npts')
    twopi = expr_term(prog, '2*np.pi', {})
    # strip .copy()
    p = pts
    while p[0] == 'call' and isinstance(p[1], tuple) and p[1][0] == 'attr' and \
            p[1][2] == 'copy':
        p = p[1][1]
    verdict = None
    if p[0] == 'idx' and p[1][0] == 'call' and p[1][1] == 'numpy.linspace' and \
            p[2] == ('slice', NONE, num(-1), NONE):
        a = p[1][2]
        if len(a) >= 3 and canon.is_zero(a[0]) and canon.equal(a[1], twopi) and \
                canon.equal(a[2], intern(('bin', '+', n, num(1)))):
            verdict = True
        else:
            verdict = False
    elif p[0] == 'call' and p[1] == 'numpy.linspace':
        a = p[2]
        ep = kw(p, 'endpoint')
        if len(a) >= 3 and canon.is_zero(a[0]) and canon.equal(a[1], twopi) and \
                canon.equal(a[2], n) and ep == ('const', False):
            verdict = True
        else:
            verdict = False
    elif p[0] == 'bin' and calls_in(p, 'numpy.arange'):
        want = expr_term(prog, 'np.arange(npts) * (2*np.pi) / npts', {'npts': n})
        verdict = canon.equal(p, want)
    if verdict is None:
        check.error('unrecognised construction of the azimuthal quadrature points: %s'
                    % show(pts)[:160])
        return
    check.require(verdict, 'R-uniform-periodic-quadrature', 'pts_wts_for_phi_integrals',
                  'npts equally spaced azimuths on [0, 2 pi) (full period, no '
                  'duplicated end point): the pupil variable can be re-based, so the '
                  'lens integral is rotation covariant', loc,
                  fail_detail='azimuthal points are %s: not a uniform full-period '
                  'rule (the end point 2*pi duplicates 0), which breaks rotation and '
                  'mirror covariance of the Lens theory' % show(pts)[:160])
    w = wts
    ok = w[0] == 'call' and w[1] in ('numpy.full_like', 'numpy.full') and len(w[2]) >= 2
    if ok:
        size = intern(('attr', pts, 'size'))
        okv = canon.equal(w[2][1], intern(('bin', '/', twopi, size))) or \
            canon.equal(w[2][1], intern(('bin', '/', twopi, n)))
        ok = okv
    check.require(ok, 'R-uniform-periodic-quadrature', 'pts_wts_for_phi_integrals weights',
                  'equal weights 2 pi / npts', loc,
                  fail_detail='weights are %s' % show(wts)[:160])


def polarization_pins(check, prog):
    """A polarisation vector compared with a literal pins the lab frame."""
    n = 0
    for cq in prog.subclasses(THEORY):
        c = prog.classes[cq]
        for mname in ('raw_fields', 'raw_scat_matrs', 'raw_cross_sections'):
            fd = c.methods.get(mname)
            if fd is None:
                continue
            n += 1
            short = cq.rpartition('.')[2]
            loc = prog.loc(cq, fd)
            pinned = []
            for node in ast.walk(fd):
                if isinstance(node, ast.Compare):
                    sides = [node.left] + list(node.comparators)
                    src = [ast.unparse(s) for s in sides]
                    has_pol = any('illum_polarization' in s or s in ('pol', 'einc')
                                  for s in src)
                    has_lit = any(isinstance(s, (ast.List, ast.Tuple, ast.Constant)) or
                                  (isinstance(s, ast.Call) and
                                   ast.unparse(s.func) in ('np.array', 'numpy.array')
                                   and s.args and isinstance(s.args[0], (ast.List, ast.Tuple)))
                                  for s in sides)
                    none_cmp = any(isinstance(s, ast.Constant) and s.value is None
                                   for s in sides)
                    if has_pol and has_lit and not none_cmp:
                        pinned.append(' '.join(ast.unparse(node).split()))
                if isinstance(node, ast.Call) and \
                        ast.unparse(node.func).split('.')[-1] in (
                            'allclose', 'isclose', 'array_equal', 'array_equiv') and \
                        len(node.args) >= 2:
                    src = [ast.unparse(a_) for a_ in node.args[:2]]
                    has_pol = any('illum_polarization' in s_ or s_ in ('pol', 'einc')
                                  for s_ in src)
                    has_lit = any(isinstance(a_, (ast.List, ast.Tuple)) or
                                  (isinstance(a_, ast.Call) and a_.args and
                                   isinstance(a_.args[0], (ast.List, ast.Tuple)))
                                  for a_ in node.args[:2])
                    if has_pol and has_lit:
                        pinned.append(' '.join(ast.unparse(node).split()))
            construct = '%s.%s' % (short, mname)
            if pinned:
                check.bad('V-polarisation-pinned', construct,
                          'compares the polarisation with a literal (%s): the theory '
                          'only works in one lab orientation, so a joint rotation of '
                          'scatterer, polarisation and detector is rejected' % pinned[0],
                          loc)
            else:
                check.ok('V-polarisation-pinned', construct, '', loc)
    check.floor('theory methods scanned for pinned polarisation', n, 10)


# ----------------------------------------------------------------------
def f2py_coordinate_roles(check, prog):
    """At every call of a compiled routine from theory code that unpacks a row of
    the (r, theta, phi) position array, a coordinate lands in the dummy argument
    the Fortran source names for it: the component taken at index 1 (polar angle)
    never goes to a dummy called PHI, etc.  The Python positional order is derived
    from the Fortran header by f2py's rules (intent(out) dummies are results,
    integer extents of input arrays are optional and moved last)."""
    import os
    from hpstatic.fortran import f2py_signatures
    TH = 'holopy.scattering.theory.'
    ROLE = {0: {'KR', 'R', 'RHO', 'KRHO'}, 1: {'THETA'}, 2: {'PHI'}}
    ALLROLES = set().union(*ROLE.values())
    sigs = {}
    for rel in ('holopy/scattering/theory/mie_f/mieangfuncs.f90',
                'holopy/scattering/theory/mie_f/uts_scsmfo.for'):
        p = os.path.join(prog.root, rel)
        if not os.path.exists(p):
            raise AnalysisError('Fortran source %s not found' % rel)
        mod = os.path.basename(rel).split('.')[0]
        for name, args in f2py_signatures(p).items():
            sigs[(mod, name)] = args
    sites = 0
    for q in (TH + 'scatteringtheory.ScatteringTheory.raw_fields',
              TH + 'tmatrix.Tmatrix.raw_fields', TH + 'mie.Mie.raw_scat_matrs'):
        fd = prog.func(q)
        loc = prog.loc(q, fd)
        cq = q.rpartition('.')[0]
        hit = prog.lookup(cq, 'desired_coordinate_system')
        system = None
        if hit and hit[0] == 'classattr':
            v = Interp(prog).eval_classattr(hit[1], hit[2])
            system = v[1] if v[0] == 'const' else None
        if system != 'spherical':
            # the role table below is for (r, theta, phi) rows only
            raise AnalysisError('%s: positions are not spherical (%r)' % (cq, system))
        it = Interp(prog, max_depth=1, opaque=[
            TH + 'mie.Mie._scat_coeffs', cq + '.raw_scat_matrs'])
        it.analyze(q)
        for c in it.calls:
            nm = c['name']
            parts = nm.split('.')
            if len(parts) < 2 or parts[-2] not in ('mieangfuncs', 'uts_scsmfo'):
                continue
            mod, rname = parts[-2], parts[-1].upper()
            sig = sigs.get((mod, rname))
            for i, a in enumerate(c['args']):
                if not (a[0] == 'idx' and a[2][0] == 'num' and a[1][0] == 'elem' and
                        a[1][1][0] == 'attr' and a[1][1][2] == 'T'):
                    continue
                k = int(a[2][1])
                if k not in ROLE:
                    continue
                sites += 1
                if sig is None or i >= len(sig):
                    raise AnalysisError('no Fortran signature for %s argument %d'
                                        % (nm, i + 1))
                dummy = sig[i]
                if dummy not in ALLROLES:
                    continue        # a dummy with another name: no statement
                short = q.split('.')[-2] + '.' + q.split('.')[-1]
                check.require(
                    dummy in ROLE[k], 'A-coordinate-slots',
                    '%s -> %s argument %d' % (short, rname.lower(), i + 1),
                    'position component %d (%s) is received by dummy %s' % (
                        k, sorted(ROLE[k])[-1].lower(), dummy), loc,
                    fail_detail='component %d of the (r, theta, phi) row is passed '
                    'where %s(%s) expects %s' % (k, rname.lower(),
                                                 ', '.join(x.lower() for x in sig),
                                                 dummy.lower()))
    check.floor('coordinates handed to compiled routines', sites, 7)
