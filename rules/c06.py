"""C06  Superposition, polarisation linearity, multi-channel = stacked channels.

Decides from the source:
  S1  the field of a collection is the sum over *all* members: the
      superposition starts at member 0, iterates members [1:], accumulates by
      '+', on the same schema; get_component_list flattens nested composites
      recursively and keeps every leaf; the single-colour dispatcher uses the
      superposition exactly for composites the theory cannot handle itself;
  S2  per-channel result: inside the channel loop the schema's wavelength and
      polarisation and the scatterer are all selected by the loop's *label*
      (.sel(illumination=label) / val[label]); the stack is concatenated along
      the schema's illumination coordinate, in loop order;
  S3  reference / normalisation: to_vector returns a unit vector and
      dict_to_array keeps labels and values paired (shared with C01).
Not decided: linearity of the field in the polarisation inside the solvers;
numerical equality of the channels.
"""
import ast

from hpstatic.interp import Interp
from hpstatic.poly import Canon
from hpstatic.terms import (sym, intern, show, subterms, calls_in, NONE, num, kw,
                            atoms_of)
from . import c01
from hpstatic.loader import AnalysisError
from .common import init_of, init_params, call_args, term_args

MUTATION_TARGETS = {'holopy/scattering/imageformation.py': ['_calculate_scattered_field_from_superposition', '_calculate_multiple_color_scattered_field', '_calculate_single_color_scattered_field', 'select_scatterer_by_illumination'], 'holopy/scattering/scatterer/composite.py': ['get_component_list'], 'holopy/core/metadata.py': ['to_vector', 'dict_to_array'], 'holopy/scattering/interface.py': ['prep_schema']}

LEVEL = 'other'
META = dict(
    claimed=True,
    technique='recurrence-term inspection of the superposition loop, dependence '
              'of every per-channel quantity on the loop label, recursion '
              'structure of get_component_list, canonical-form check of the '
              'polarisation normalisation'
              "; truth table of prep_schema's channel pairing; pairing rule of labell"
              'ed-array parameters in the parameter map'
              '; iteration order of the key-matching loop of dict_to_array decided by evaluating its sort key on constants; scalar hand-on of a selected channel; filter of scalar coordinates',
    level_text='Static: decides S1-S3, i.e. that the Python layer sums all members, '
               'selects every per-channel quantity by label and normalises the '
               'reference -- necessary conditions of the three clauses that hold '
               'for every collection and every channel layout.  Linearity of the '
               'compiled solvers in the polarisation is not decided.',
    level_note='Trusted: xarray .sel selects by label; xr.concat preserves order.',
)

IFM = 'holopy.scattering.imageformation.'
IF = IFM + 'ImageFormation.'
MD = 'holopy.core.metadata.'
SINGLE = IF + '_calculate_single_color_scattered_field'


def run(check, prog):
    check.explanation = (
        'The superposition and channel loops are summarised as recurrences; the '
        'rule inspects the initial value, the step and the dependence of each '
        'per-iteration quantity on the loop element.')
    superposition(check, prog)
    channels(check, prog)
    tables(check, prog)
    channel_axis_first(check, prog)
    illumination_preparation(check, prog)
    default_theory_per_channel(check, prog)
    # per-channel scatterer properties given as labelled arrays pass through the
    # parameter map on every calculation: each value must stay with its label
    from . import c11
    c11.xarray_map(check, prog)
    canon = Canon()
    c01.f3_vectors(check, prog, canon)
    # the field of a member must not depend on which members were computed
    # before it: no state may be carried between member calculations
    c01.f5_state(check, prog)
    # polarisation linearity on the Python side: the lens theories rebuild the
    # field from components along / across the polarisation; E(-p) = -E(p) is the
    # delta = pi instance of the rotation rules (shared with C05)
    from . import c05
    tc = Canon(trig_expand=True)
    c05.mielens_rotation(check, prog, tc)
    c05.lens_rotation(check, prog, tc)
    # linearity in the polarisation: a theory written for one polarisation must
    # refuse the others, not answer them with the pinned field
    c05.pin_exact(check, prog)


def superposition(check, prog):
    q = IF + '_calculate_scattered_field_from_superposition'
    fd = prog.func(q)
    loc = prog.loc(q, fd)
    it = Interp(prog, max_depth=1, opaque=[SINGLE])
    res = it.analyze(q)
    v = res.ret
    s = sym('self')

    def single(x):
        return intern(('call', ('attr', s, '_calculate_single_color_scattered_field'),
                       (x, sym('schema')), ()))
    ok = v[0] == 'loop'
    if ok:
        init, step, itr = v[3], v[4], v[5]
        sc = sym('scatterers')
        ok_init = init == single(intern(('idx', sc, num(0))))
        ok_iter = itr == ('idx', sc, ('slice', num(1), NONE, NONE))
        e = [x for x in subterms(step) if x[0] == 'elem']
        ok_step = step[0] == 'bin' and step[1] == '+' and step[2][0] == 'phi' and \
            bool(e) and step[3] == single(e[0])
        check.require(ok_init, 'S1-superposition', 'superposition first term',
                      'starts with the field of member 0', loc,
                      fail_detail='initial field is %s' % show(init)[:120])
        check.require(ok_iter, 'S1-superposition', 'superposition range',
                      'then visits members [1:] -- every member exactly once', loc,
                      fail_detail='iterates over %s' % show(itr)[:120])
        check.require(ok_step, 'S1-superposition', 'superposition step',
                      'each further member\'s field (same schema) is added', loc,
                      fail_detail='step is %s' % show(step)[:160])
    else:
        check.bad('S1-superposition', 'superposition',
                  'not an accumulation loop: %s' % show(v)[:160], loc)
    # get_component_list
    q = 'holopy.scattering.scatterer.composite.Scatterers.get_component_list'
    fd = prog.func(q)
    loc = prog.loc(q, fd)
    it = Interp(prog, max_depth=1)
    res = it.analyze(q)
    v = res.ret
    ok = v[0] == 'loop' and v[3] == ('list', ()) and \
        v[5] == ('attr', sym('self'), 'scatterers')
    if ok:
        step = v[4]
        ok = step[0] == 'ite' and step[1][0] == 'call' and step[1][1] == 'isinstance'
        if ok:
            e = step[1][2][0]
            rec, leaf = step[2], step[3]
            ok_rec = rec[0] == 'bin' and rec[1] == '+' and rec[2][0] == 'phi' and \
                rec[3] == ('call', ('attr', e, 'get_component_list'), (), ())
            ok_leaf = leaf[0] == 'mut' and leaf[2] == 'append' and leaf[3] == (e,) and \
                leaf[1][0] == 'phi'
            ok = ok_rec and ok_leaf
    check.require(ok, 'S1-component-list', 'Scatterers.get_component_list',
                  'nested composites are flattened recursively (+=) and every other '
                  'member is appended', loc, fail_detail='loop is %s' % show(v)[:240])
    # dispatcher
    q = SINGLE
    fd = prog.func(q)
    loc = prog.loc(q, fd)
    it = Interp(prog, max_depth=1, opaque=[
        IF + '_get_field_from', IF + '_calculate_scattered_field_from_superposition',
        IF + '_pack_field_into_xarray'])
    res = it.analyze(q)
    rets = res.returns
    s = sym('self')
    can = intern(('call', ('attr', ('attr', s, 'scattering_theory'), 'can_handle'),
                  (sym('scatterer'),), ()))
    ok = False
    for o in rets:
        for x in subterms(o.value):
            if x[0] == 'ite' and x[1] == can:
                direct, other = x[2], x[3]
                okd = direct == ('call', ('attr', s, '_get_field_from'),
                                 (sym('scatterer'), sym('schema')), ())
                sp = calls_in(other, '_calculate_scattered_field_from_superposition')
                oks = bool(sp) and sp[0][2] == (
                    ('call', ('attr', sym('scatterer'), 'get_component_list'), (), ()),
                    sym('schema'))
                ok = okd and oks
        if any(t == can for t, pol in o.cond):
            # path-split form
            pass
    if not ok:
        direct = [o for o in rets if any(t == can and pol for t, pol in o.cond)]
        sup = [o for o in rets if any(t == can and not pol for t, pol in o.cond)]
        ok = len(direct) == 1 and bool(calls_in(direct[0].value, '_get_field_from')) \
            and len(sup) == 1 and bool(calls_in(
                sup[0].value, '_calculate_scattered_field_from_superposition'))
    check.require(ok, 'S1-dispatch', '_calculate_single_color_scattered_field',
                  'theory handles the scatterer -> direct field; otherwise a composite '
                  'is superposed over get_component_list()', loc,
                  fail_detail='returns: %s' % [show(o.value)[:100] for o in rets])
    check.require(len(res.raises) >= 1, 'S1-dispatch',
                  '_calculate_single_color_scattered_field error',
                  'anything else raises TheoryNotCompatibleError', loc)


def channels(check, prog):
    q = IF + '_calculate_multiple_color_scattered_field'
    fd = prog.func(q)
    loc = prog.loc(q, fd)
    it = Interp(prog, max_depth=1, opaque=[
        SINGLE, MD + 'update_metadata', IFM + 'select_scatterer_by_illumination',
        MD + 'clean_concat', 'holopy.core.utils.ensure_array'])
    res = it.analyze(q)
    v = res.ret
    loops = [l for l in it.loops.values() if l['func'] == q]
    check.need('channel loops', len(loops), 1, 'S2-channel-loop', 'channel loop',
               'the multi-colour calculation iterates over the channels', loc)
    if not loops:
        return
    lp = loops[0]
    sch = sym('schema')
    labels = intern(('attr', ('attr', ('attr', sch, 'illum_wavelen'), 'illumination'),
                     'values'))
    check.require(lp['iter'] == labels, 'S2-channel-loop', 'channel loop range',
                  'iterates over the illumination labels of the schema', loc,
                  fail_detail='iterates over %s' % show(lp['iter'])[:120])
    e = None
    for n, (i0, st) in lp['vars'].items():
        if st is not None:
            for x in subterms(st):
                if x[0] == 'elem' and x[1] == lp['iter']:
                    e = x
    if e is None:
        check.bad('S2-by-label', 'channel loop', 'nothing depends on the loop label', loc)
        return

    def sel_of(attr):
        return intern(('attr', ('call', ('attr', ('attr', sch, attr), 'sel'), (),
                                (('illumination', e),)), 'values'))
    # the per-channel quantities are identified by their role: the field that
    # is appended to the stack is single_colour(<channel scatterer>, <channel
    # schema>)
    tf = tsc = ts = None
    if v[0] == 'call' and v[2] and v[2][0][0] == 'loop':
        st0 = v[2][0][4]
        if st0[0] == 'mut' and st0[2] == 'append' and len(st0[3]) == 1:
            tf = st0[3][0]
            if tf[0] == 'call' and len(tf[2]) == 2:
                tsc, ts = tf[2]
    um = [c for c in subterms(ts) if c[0] == 'call' and c[1] == MD + 'update_metadata'] \
        if ts is not None else []
    ok = bool(um) and term_args(prog, um[0]).get('a') == sch
    if ok:
        kws = term_args(prog, um[0])
        for key in ('illum_wavelen', 'illum_polarization'):
            val = kws.get(key)
            good = val is not None and any(x == sel_of(key) for x in subterms(val))
            check.require(good, 'S2-by-label', 'channel schema ' + key,
                          "this channel's %s is selected by the channel label" % key,
                          loc, fail_detail='%s = %s' % (key, show(val)[:160] if val
                                                       else None))
    check.require(ok, 'S2-by-label', 'channel schema',
                  'per-channel schema = update_metadata(schema, ...)', loc)
    ok = tsc is not None and tsc[0] == 'call' and \
        tsc[1] == IFM + 'select_scatterer_by_illumination' and \
        tsc[2][:2] == (sym('scatterer'), e) and not tsc[3] and all(
            # (further arguments: this channel's own values, nothing else)
            a_ == ('attr', ts, 'illum_wavelen') or
            a_ == ('attr', ts, 'illum_polarization') or (
                any(x == sel_of('illum_wavelen') for x in subterms(a_)) and not any(
                    x[0] == 'call' and isinstance(x[1], tuple) and x[1][2:] == ('sel',)
                    and x != sel_of('illum_wavelen')[1] for x in subterms(a_)))
            for a_ in tsc[2][2:])
    check.require(ok, 'S2-by-label', 'channel scatterer',
                  "this channel's scatterer values are selected by the channel label",
                  loc, fail_detail='scatterer = %s' % (show(tsc)[:160] if tsc else None))
    ok = tf is not None and tf[0] == 'call' and tf[2] == (tsc, ts) and \
        isinstance(tf[1], tuple) and tf[1][0] == 'attr' and \
        tf[1][2] == '_calculate_single_color_scattered_field'
    check.require(ok, 'S2-by-label', 'channel field',
                  'field computed from this channel\'s scatterer and schema', loc)
    # stacking
    ok = v[0] == 'call' and v[1] == MD + 'clean_concat' and v[2] and \
        v[2][0][0] == 'loop' and v[2][0][3] == ('list', ()) and \
        term_args(prog, v).get('dim') == (
            'attr', ('attr', sch, 'illum_wavelen'), 'illumination')
    if ok:
        st = v[2][0][4]
        ok = st[0] == 'mut' and st[2] == 'append' and st[3] == (tf,)
    check.require(ok, 'S2-stacking', 'channel stacking',
                  'fields are appended in loop order and concatenated along the '
                  'schema\'s illumination coordinate', loc,
                  fail_detail='returns %s' % show(v)[:200])
    # select_scatterer_by_illumination
    q = IFM + 'select_scatterer_by_illumination'
    fd = prog.func(q)
    loc = prog.loc(q, fd)
    it = Interp(prog, max_depth=1)
    res = it.analyze(q)
    st = [e2 for e2 in it.effects if e2['kind'] == 'setitem' and
          e2['target_src'].startswith('select_parameters')]
    ok = len(st) == 1
    if ok:
        val = st[0]['value']
        illum = sym('illum')
        item = [x for x in subterms(val) if x[0] == 'elem']
        ok = bool(item)
        if ok:
            pv = intern(('idx', item[0], num(1)))
            by_key = any(x == ('idx', pv, illum) for x in subterms(val))
            by_sel = any(x[0] == 'call' and isinstance(x[1], tuple) and
                         x[1] == ('attr', pv, 'sel') and
                         dict(x[3]).get('illumination') == illum for x in subterms(val))
            passthrough = any(x == pv for x in subterms(val))
            ok = by_key and by_sel and passthrough
            key = st[0]['key']
            ok = ok and key == ('idx', item[0], num(0))
    check.require(ok, 'S2-select-scatterer', 'select_scatterer_by_illumination',
                  'dict values by key, labelled arrays by .sel(illumination=label), '
                  'plain values unchanged, stored under the same parameter name', loc)
    if ok:
        # one channel of a labelled array of numbers is a number, as it is when
        # the values come in a dictionary: the theories (and the default-theory
        # table) tell a uniform sphere from a layered one with np.isscalar, which
        # a 0-d array fails
        sels = [x for x in subterms(val) if x[0] == 'attr' and x[2] in ('values', 'data')
                and x[1][0] == 'call' and x[1][1] == ('attr', pv, 'sel')]
        scal = [x for x in subterms(val) for S in sels if
                (x[0] == 'call' and x[1] in (('attr', S, 'item'), ('attr', S, 'tolist')))
                or (x[0] == 'call' and x[1] in ('float', 'complex', 'numpy.asscalar')
                    and x[2] == (S,))
                or (x[0] == 'idx' and x[1] == S and x[2] == ('tuple', ()))]
        scal += [x for x in subterms(val) if x[0] == 'call' and isinstance(x[1], tuple)
                 and x[1][0] == 'attr' and x[1][2] == 'item' and
                 x[1][1][0] == 'call' and x[1][1][1] == ('attr', pv, 'sel')]
        # ... exactly when it is a single number: a test on the rank of the
        # selection picks the conversion for rank 0 and leaves rank 1 (the
        # layers of a coated sphere) an array
        import operator
        OPS = {'==': operator.eq, '!=': operator.ne, '<': operator.lt,
               '<=': operator.le, '>': operator.gt, '>=': operator.ge}

        def has_conv(t):
            return any(x in scal for x in subterms(t))
        for x in subterms(val):
            if scal and x[0] == 'ite' and x[1][0] == 'cmp' and x[1][1] in OPS and \
                    x[1][2][0] == 'attr' and x[1][2][2] == 'ndim' and \
                    x[1][3][0] == 'num' and has_conv(x[2]) != has_conv(x[3]):
                k_ = x[1][3][1]
                for rank in (0, 1):
                    taken = x[2] if OPS[x[1][1]](rank, k_) else x[3]
                    if has_conv(taken) != (rank == 0):
                        scal = []
        check.require(bool(scal), 'S2-select-scalar',
                      'select_scatterer_by_illumination labelled array',
                      'a single selected number is handed on as a scalar', loc,
                      fail_detail='the selection %s is stored as it is: for an index '
                      'given per channel as a labelled array it is a 0-d array, which '
                      'np.isscalar rejects -- Multisphere (and the default theory of a '
                      'sphere collection) take the sphere for a layered one and raise '
                      'TheoryNotCompatibleError, while the same values in a dictionary '
                      'work' % (show(sels[0])[:80] if sels else '?'))
    v = res.ret
    ok = v[0] == 'call' and v[1] == ('attr', sym('scatterer'), 'from_parameters')
    check.require(ok, 'S2-select-scatterer', 'select_scatterer_by_illumination return',
                  'rebuilds the scatterer from the selected values', loc)


def tables(check, prog):
    """dispatch / selection functions as truth tables over their guard atoms"""
    import itertools
    from hpstatic.logic import select
    from .common import norm_cond
    # ---- single-colour dispatch
    q = SINGLE
    fd = prog.func(q)
    loc = prog.loc(q, fd)
    me, sc, schema = [sym(a.arg) for a in fd.args.args[:3]]
    it = Interp(prog, max_depth=1, opaque=[
        IF + '_get_field_from', IF + '_calculate_scattered_field_from_superposition',
        IF + '_pack_field_into_xarray'])
    v = it.analyze(q).ret_with_raises
    can = intern(('call', ('attr', ('attr', me, 'scattering_theory'), 'can_handle'),
                  (sc,), ()))
    isc = intern(('call', 'isinstance', (
        sc, ('classref', 'holopy.scattering.scatterer.composite.Scatterers')), ()))
    direct = intern(('call', ('attr', me, '_get_field_from'), (sc, schema), ()))
    sup = intern(('call', ('attr', me, '_calculate_scattered_field_from_superposition'),
                  (('call', ('attr', sc, 'get_component_list'), (), ()), schema), ()))

    def pack(x):
        return intern(('call', ('attr', me, '_pack_field_into_xarray'), (x, schema), ()))
    ok = True
    detail = ''
    for c, k in itertools.product((True, False), repeat=2):
        asg = {can: c, isc: k}
        leaf = select(v, lambda t: asg.get(t))
        if leaf is not None and leaf[0] == 'call' and leaf[2] and leaf[2][0][0] == 'ite':
            inner = select(leaf[2][0], lambda t: asg.get(t))
            leaf = intern(('call', leaf[1], (inner,) + tuple(leaf[2][1:]), leaf[3])) \
                if inner is not None else None
        want = pack(direct) if c else (pack(sup) if k else None)
        good = (leaf == want) if want is not None else (
            leaf is not None and leaf[0] == 'raise' and
            'TheoryNotCompatibleError' in show(leaf))
        if not good:
            ok = False
            detail = 'theory can handle it=%s, composite=%s: %s' % (
                c, k, show(leaf)[:120] if leaf else 'undecided')
    check.require(ok, 'S1-dispatch', '_calculate_single_color_scattered_field table',
                  'can_handle -> the theory\'s own field; else a composite -> '
                  'superposition over its component list; else '
                  'TheoryNotCompatibleError; the field is packed with the schema', loc,
                  fail_detail=detail)
    # ---- select_scatterer_by_illumination
    q = IFM + 'select_scatterer_by_illumination'
    fd = prog.func(q)
    loc = prog.loc(q, fd)
    scat, illum = [sym(a.arg) for a in fd.args.args[:2]]
    it = Interp(prog, max_depth=1)
    it.analyze(q)
    st = [e for e in it.effects if e['kind'] == 'setitem']
    ok = len(st) == 1 and st[0]['key'][0] == 'idx' and st[0]['key'][2] == num(0) and \
        st[0]['key'][1][0] == 'elem'
    detail = '%d stores' % len(st)
    if ok:
        item = st[0]['key'][1]
        val = intern(('idx', item, num(1)))
        D = intern(('call', 'isinstance', (val, ('extref', 'dict')), ()))
        K = intern(('cmp', 'in', illum, ('call', ('attr', val, 'keys'), (), ())))
        X = intern(('call', 'isinstance', (val, ('extref', 'xarray.DataArray')), ()))
        by_key = intern(('idx', val, illum))
        by_sel = intern(('attr', ('call', ('attr', val, 'sel'), (),
                                  (('illumination', illum),)), 'values'))
        sv = st[0]['value']
        for d, k, x in itertools.product((True, False), repeat=3):
            if (k and not d) or (d and x):
                continue
            asg = {D: d, K: k, X: x}
            leaf = select(sv, lambda t: asg.get(t))
            # the labelled-array branch is wrapped in try/except: either outcome
            if leaf is not None and leaf[0] == 'ite' and leaf[1] == ('const', True):
                leaf = leaf[2]
            want = by_key if (d and k) else (by_sel if x else val)
            if leaf != want:
                ok = False
                detail = 'dict=%s has label=%s labelled array=%s: %s' % (
                    d, k, x, show(leaf)[:100] if leaf else 'undecided')
    check.require(ok, 'S2-select-scatterer', 'select_scatterer_by_illumination table',
                  'a dict holding the label -> its entry; a labelled array -> '
                  '.sel(illumination=label).values; anything else unchanged; stored '
                  'under the parameter\'s own name', loc, fail_detail=detail)
    # ---- dict_to_array
    q = MD + 'dict_to_array'
    fd = prog.func(q)
    loc = prog.loc(q, fd)
    schema, inval = [sym(a.arg) for a in fd.args.args[:2]]
    it = Interp(prog, max_depth=1)
    res = it.analyze(q)
    isd = intern(('call', 'isinstance', (inval, ('extref', 'dict')), ()))
    plain = [o for o in res.returns if o.value == inval]
    ok = len(plain) == 1 and norm_cond(plain[0].cond) == [(isd, False)]
    conv = [o for o in res.returns if o.value != inval]
    ok = ok and len(conv) == 2
    for o in conv if ok else []:
        cs = [(t, p) for t, p in norm_cond(o.cond) if t[0] != 'loop-iter']
        match = [t for t, p in cs if t[0] == 'cmp' and t[1] == '==' and p]
        ok = ok and cs[0] == (isd, True) and len(match) == 1 and \
            any(x == ('call', ('attr', inval, 'keys'), (), ()) for x in subterms(match[0]))
    ok = ok and len(res.raises) == 1 and norm_cond(res.raises[0].cond) == [(isd, True)]
    check.require(ok, 'S3-dict-to-array', 'dict_to_array table',
                  'anything but a dict is returned as is; a dict becomes an array along '
                  'the schema dimension whose coordinates equal its keys; no such '
                  'dimension -> ValueError', loc, fail_detail='returns under %s' % [
                      [(show(t)[:50], p) for t, p in o.cond] for o in res.returns])


def channel_axis_first(check, prog):
    """S3: a dictionary of per-channel values is bound to the illumination axis,
    also when its keys coincide with the labels of a pixel axis (integer channel
    labels 0, 1 on a two-row image with unit spacing): dict_to_array tries the
    illumination coordinate before any other."""
    from hpstatic.interp import Frame
    q = MD + 'dict_to_array'
    fd = prog.func(q)
    loc = prog.loc(q, fd)
    schema, inval = [sym(a.arg) for a in fd.args.args[:2]]
    it = Interp(prog, max_depth=1)
    res = it.analyze(q)
    keys = intern(('call', ('attr', inval, 'keys'), (), ()))
    ILL = ('const', 'illumination')
    verdicts = []
    for o in res.returns:
        if o.value == inval:
            continue
        match = [t for t, p in o.cond if t[0] == 'cmp' and t[1] == '==' and p and
                 any(x == keys for x in subterms(t))]
        if not match:
            continue
        in_loop = any(t[0] == 'loop-iter' for t, p in o.cond)
        if not in_loop:
            # a match tried outside the loop: fine when it is the illumination axis
            verdicts.append((any(x == ILL for x in subterms(match[0])),
                             'matched outside the loop against %s' % show(match[0])[:80]))
            continue
        iters = {x[1] for x in subterms(match[0]) if x[0] == 'elem' and
                 x[1] != ('attr', schema, 'coords')}
        good, why = False, 'iterates over %s' % [show(i)[:80] for i in iters]
        for itb in iters:
            if itb[0] == 'call' and itb[1] == 'sorted' and dict(itb[3]).get('key') \
                    and dict(itb[3])['key'][0] == 'closure' and \
                    dict(itb[3]).get('reverse') in (None, ('const', False)):
                node_c, cenv, cframe = it.closures[dict(itb[3])['key'][1]]
                fr = Frame(cframe.module, cframe.owner, cframe.selfcls,
                           cframe.selfname, 0, q + '.<key>')

                def rank(c):
                    v = it.inline_closure(node_c, cenv, cframe, [('const', c)], {},
                                          fr, ())
                    return v[1] if v[0] in ('const', 'num') else None
                r0 = rank('illumination')
                others = [rank(c) for c in ('x', 'y', 'z', 'flat', 'point', 'vector')]
                good = r0 is not None and all(r is not None and r0 < r for r in others)
                why = 'sorted with key ranks: illumination %r, others %r' % (r0, others)
            elif itb[0] in ('list', 'tuple') and itb[1] and itb[1][0] == ILL:
                good = True
            elif itb[0] == 'bin' and itb[1] == '+' and itb[2][0] in ('list', 'tuple') \
                    and itb[2][1] and itb[2][1][0] == ILL:
                good = True
        verdicts.append((good, why))
    # the candidate axes: coordinates that label an axis.  A scalar coordinate
    # (the z of one plane taken from a stack) has no values to iterate over
    comps = {x for o in res.returns for t, p in o.cond for x in subterms(t)
             if x[0] == 'comp' and x[1] == 'dict' and len(x[3]) == 1}
    for cpr in sorted(comps, key=str):
        target, iterable, conds = cpr[3][0]
        if iterable == ('attr', schema, 'coords'):
            guarded = any(any(y[0] == 'attr' and y[2] in ('ndim', 'shape', 'size', 'dims')
                              for y in subterms(cd)) for cd in conds)
            check.require(guarded, 'S3-scalar-coordinates', 'dict_to_array candidate axes',
                          'only coordinates with an axis are candidates', loc,
                          fail_detail='every coordinate of the schema is listed with '
                          'sorted(list(coordinate.values)): an image with a scalar '
                          'coordinate -- one plane of a colour stack, img.isel(z=0) -- '
                          'raises TypeError (iteration over a 0-d array) in '
                          'update_metadata and calc_holo as soon as a per-channel '
                          'dictionary is given')
    check.need('dict_to_array matches of keys against a coordinate', len(verdicts), 1,
               'S3-dict-to-array', 'dict_to_array matches',
               'a dict becomes an array along the dimension whose coordinates equal '
               'its keys', loc)
    early = any(g for g, w in verdicts if w.startswith('matched outside'))
    ok = early or all(g for g, w in verdicts)
    check.require(ok, 'S3-channel-axis-first', 'dict_to_array search order',
                  'the illumination coordinate is tried before the pixel axes', loc,
                  fail_detail='%s: the coordinates are tried in the schema\'s own '
                  'order (z, x, y, illumination), so per-channel values keyed 0, 1 on '
                  'a detector whose x labels are 0, 1 are bound to x -- noise_sd '
                  'becomes per-row, illum_wavelen loses its illumination axis' % (
                      '; '.join(w for g, w in verdicts if not g),))


def illumination_preparation(check, prog):
    """S4: prep_schema pairs wavelength k with polarisation k.

    The channel loop (S3) computes channel k from schema.illum_wavelen.sel(k) and
    schema.illum_polarization.sel(k); that equals "the single-colour calculation
    with that channel's wavelength and polarisation" only if prep_schema labelled
    the wavelengths with the polarisations' channel labels in the same order (or
    broadcast one polarisation over the wavelengths).  Read as a truth table over
    the guard atoms, so that the arrangement of the branches does not matter."""
    import itertools
    from hpstatic.logic import select, resolve
    q = 'holopy.scattering.interface.prep_schema'
    fd = prog.func(q)
    loc = prog.loc(q, fd)
    UM = 'holopy.core.metadata.update_metadata'
    EA = 'holopy.core.utils.ensure_array'
    it = Interp(prog, max_depth=1, opaque=[UM, EA])
    v = it.analyze(q).ret
    ums = [c for c in calls_in(v, UM) if not calls_in(c[2][0], UM) and
           c[2] and c[2][0] == sym(fd.args.args[0].arg)]
    if not ums:
        check.bad('S4-channel-pairing', 'prep_schema',
                  'the detector is not passed through update_metadata first', loc)
        return
    D = ums[0]
    umfd = prog.func(UM)
    umnames = [a.arg for a in umfd.args.args]

    def slots(c):
        out = dict(zip(umnames, c[2]))
        out.update(dict(c[3]))
        return out
    s0 = slots(D)
    ok = all(s0.get(a.arg) == sym(a.arg) for a in fd.args.args[1:])
    check.require(ok, 'S4-channel-pairing', 'prep_schema first update_metadata',
                  'medium index, wavelength and polarisation arguments reach the '
                  'slots of the same name', loc,
                  fail_detail='update_metadata(%s)' % ', '.join(
                      '%s=%s' % (k, show(x)[:30]) for k, x in s0.items()))
    wl = intern(('call', EA, (('attr', D, 'illum_wavelen'),), ()))
    pol = intern(('attr', D, 'illum_polarization'))
    ILL = ('const', 'illumination')
    a_many = intern(('cmp', '<', num(1), ('call', 'len', (wl,), ())))
    a_2d = intern(('cmp', '==', ('attr', ('call', EA, (pol,), ()), 'ndim'), num(2)))
    a_pol = intern(('cmp', 'in', ILL, ('attr', pol, 'dims')))
    a_da = intern(('call', 'isinstance', (wl, ('extref', 'xarray.DataArray')), ()))
    a_one = intern(('cmp', '==', ('call', 'len', (wl,), ()), num(1)))
    a_det = intern(('cmp', 'in', ILL, ('attr', D, 'dims')))
    a_same = intern(('cmp', '==', ('call', 'len', (('attr', D, 'illumination'),), ()),
                     ('call', 'len', (wl,), ())))
    from hpstatic.logic import cmp_is

    def match(t, atom):
        if t == atom:
            return True
        return atom[0] == 'cmp' and atom[1] in ('<', '==') and \
            cmp_is(t, atom[1], atom[2], atom[3])

    def is_dims(t):
        return t == ILL or (t[0] in ('list', 'tuple') and t[1] == (ILL,))

    def labelled(t, data_ok, labels):
        """xr.DataArray(<data>, dims=illumination, coords={illumination: labels})"""
        if not (t[0] == 'call' and t[1] == 'xarray.DataArray' and len(t[2]) >= 1):
            return False
        k = dict(t[3])
        dims = k.get('dims', t[2][2] if len(t[2]) > 2 else None)
        coords = k.get('coords', t[2][1] if len(t[2]) > 1 else None)
        return data_ok(t[2][0]) and dims is not None and is_dims(dims) and \
            coords is not None and coords[0] == 'dict' and \
            tuple(coords[1]) == ((ILL, labels),)

    nchan = intern(('call', 'len', (('attr', pol, 'illumination'),), ()))

    def repeated(t):
        return t == ('call', ('attr', wl, 'repeat'), (nchan,), ()) or \
            t == ('call', 'numpy.repeat', (wl, nchan), ()) or \
            t == ('call', 'numpy.tile', (wl, nchan), ())
    bad = []
    rows = 0
    dl = intern(('attr', D, 'illumination'))

    def by_wavelength(t):
        # a test that the detector's channel labels are these wavelengths
        # themselves (a comparison or all / any / set expression over both)
        return t[0] in ('call', 'cmp') and not any(match(t, a) for a in (
            a_many, a_2d, a_pol, a_da, a_one, a_det, a_same)) and \
            any(x == wl for x in subterms(t)) and any(x == dl for x in subterms(t)) \
            and not any(x[0] == 'call' and x[1] == 'len' for x in subterms(t)
                        if x is not t)
    pl = intern(('attr', pol, 'illumination'))

    def by_polarisation(t):
        # a test that the detector's channels are the polarisation's channels
        # (same number, same labels): any test over both label sets and nothing
        # else of the schema
        return t[0] in ('call', 'cmp') and not any(match(t, a) for a in (
            a_many, a_2d, a_pol, a_da, a_one, a_det, a_same)) and \
            any(x == pl for x in subterms(t)) and any(x == dl for x in subterms(t)) \
            and not any(x == wl for x in subterms(t))
    for many, twod, inpol, isda, one, indet, same, own, perm in itertools.product(
            (True, False), repeat=9):
        if many and one:
            continue                      # len > 1 and len == 1 cannot both hold
        if same and not indet:
            continue                      # no channels to be as many as
        if own and not same:
            continue                      # the same labels are as many
        if perm and not (indet and inpol):
            continue                      # two label sets to compare
        if perm and not isda and not one and not same:
            continue                      # (as many wavelengths as polarisations)
        val = {a_many: many, a_2d: twod, a_pol: inpol, a_da: isda, a_one: one,
               a_det: indet, a_same: same}

        def base(t):
            for a, b in val.items():
                if match(t, a):
                    return b
            return None

        def hyp(t, own=own):
            # (a test may mention a value that is itself conditional -- the
            # wavelengths after the single one has been repeated: settle that first)
            if any(x[0] == 'ite' for x in subterms(t)):
                t = resolve(t, base)
            for a, b in val.items():
                if match(t, a):
                    return b
            if by_wavelength(t):
                return own
            if by_polarisation(t):
                # (a comparison of the two numbers of channels: equal when the
                # label sets are; anything else about both sets: the hypothesis)
                if t[0] == 'cmp' and all(x[0] == 'call' and x[1] == 'len'
                                         for x in (t[2], t[3])):
                    if t[1] == '==':
                        return True if perm else None
                    if t[1] == '!=':
                        return False if perm else None
                    return None
                return perm
            return None
        row = 'len(wavelen)>1=%s, polarization 2-d=%s, polarization has channels=%s, ' \
            'wavelen is labelled=%s, len(wavelen)==1=%s, detector has channels=%s, ' \
            'as many as wavelengths=%s, labelled by them=%s, polarisations name ' \
            'the detector\'s channels=%s' % (
                many, twod, inpol, isda, one, indet, same, own, perm)
        leaf = select(v, hyp)
        rows += 1
        if leaf is None:
            bad.append(row + ': undecided')
            continue
        if not many and not twod:
            if leaf != D:
                bad.append(row + ': a single-channel schema is changed: ' + show(leaf)[:80])
            continue
        if not (leaf[0] == 'call' and leaf[1] == UM):
            bad.append(row + ': result is not update_metadata(...)')
            continue
        s = slots(leaf)
        X = resolve(s.get('a', NONE), hyp)
        W = resolve(s.get('illum_wavelen', NONE), hyp)
        P = resolve(s.get('illum_polarization', NONE), hyp)
        if any(x[0] == 'ite' for y in (X, W, P) for x in subterms(y)) or \
                set(s) - {'a', 'illum_wavelen', 'illum_polarization'}:
            bad.append(row + ': undecided arguments')
            continue
        first = intern(('idx', ('attr', D, 'illumination'), num(0)))
        if indet:
            kx = dict(X[3]) if X[0] == 'call' else {}
            okx = X[0] == 'call' and X[1] in (('attr', D, 'sel'), ('attr', D, 'isel')) \
                and not X[2] and set(kx) == {'illumination', 'drop'} and \
                kx['drop'] == ('const', True) and \
                kx['illumination'] == (first if X[1][2] == 'sel' else num(0))
        else:
            okx = X == D
        if not okx:
            bad.append(row + ': detector handed on as ' + show(X)[:80])
        if isda:
            okw = W == wl
        elif inpol and perm and same and own and not one:
            # ... whose channels are labelled by these very wavelengths: by value
            okw = labelled(W, lambda t: t == wl, wl)
        elif inpol and perm and not one:
            # the polarisations name the detector's channels: positional
            # wavelengths follow the detector's order, not the order in which
            # the polarisations happen to be stored (a dictionary's comes back
            # sorted by key)
            okw = labelled(W, repeated if one else (lambda t: t == wl), dl) or \
                labelled(W, repeated if one else (lambda t: t == wl),
                         intern(('attr', dl, 'values')))
        elif inpol:
            okw = labelled(W, repeated if one else (lambda t: t == wl), pl) or \
                labelled(W, repeated if one else (lambda t: t == wl),
                         intern(('attr', pl, 'values')))
            if one and perm and not okw:
                # (one wavelength for all channels: whose order labels the
                # copies does not matter)
                okw = labelled(W, repeated, dl) or \
                    labelled(W, repeated, intern(('attr', dl, 'values')))
        elif indet and same and not own:
            # positional wavelengths for a detector that has as many channels: the
            # result has to lie on the detector's channel labels, or nothing that
            # is aligned with the data by label (residuals, per-channel scaling
            # and noise) finds its channel
            okw = labelled(W, lambda t: t == wl, dl) or \
                labelled(W, lambda t: t == wl, intern(('attr', dl, 'values')))
        else:
            okw = labelled(W, lambda t: t == wl, wl)
        if not okw:
            bad.append(row + ': wavelengths become ' + show(W)[:100])
        if inpol:
            okp = P == pol
        else:
            okp = P[0] == 'idx' and P[2] == num(0) and P[1][0] == 'call' and \
                P[1][1] == 'xarray.broadcast' and P[1][2] == (pol, W) and \
                dict(P[1][3]).get('exclude') in (
                    ('list', (('const', 'vector'),)), ('tuple', (('const', 'vector'),)))
        if not okp:
            bad.append(row + ': polarizations become ' + show(P)[:100])
    check.floor('rows of the illumination-preparation table', rows, 60)
    check.require(not bad, 'S4-channel-pairing', 'prep_schema',
                  'a single-channel schema passes unchanged; otherwise wavelength k '
                  'carries the channel label of polarisation k (a single wavelength is '
                  'repeated per channel), or one polarisation is broadcast over the '
                  'wavelengths; a detector that already has channels contributes its '
                  'first one, and its channel labels to as many unlabelled wavelengths '
                  '(%d rows)' % rows, loc, fail_detail='; '.join(bad[:3]))



def default_theory_per_channel(check, prog):
    """S5: a channel's result is the single-channel result also when the theory is
    left to the library.  The channel loop hands each channel the scatterer
    selected for that channel; the default theory, however, is decided before
    the loop.  That commutes with channel selection only if the decision looks
    at nothing that selection can change: selection rebuilds the scatterer from
    its `parameters`, so the class (and the number of members) stays, every
    constructor argument may change."""
    mod = prog.module('holopy.scattering.interface')
    rel = mod.relpath
    funcs = dict((n.name, n) for n in mod.tree.body if isinstance(n, ast.FunctionDef))
    root = 'determine_default_theory_for'
    if root not in funcs or 'interpret_theory' not in funcs:
        raise AnalysisError('interface.py: default-theory functions not found')
    # closure of the decision inside this module
    seen, todo = [], [root]
    while todo:
        f = todo.pop()
        if f in seen:
            continue
        seen.append(f)
        for n in ast.walk(funcs[f]):
            if isinstance(n, ast.Call) and isinstance(n.func, ast.Name) and \
                    n.func.id in funcs:
                todo.append(n.func.id)
    # constructor arguments of the sphere classes: what selection may change
    selectable = set()
    for cq in ('holopy.scattering.scatterer.sphere.Sphere',
               'holopy.scattering.scatterer.sphere.LayeredSphere'):
        selectable |= set(init_params(init_of(prog, cq)[1]))
    check.floor('channel-selectable sphere arguments', len(selectable), 3)
    # is the decision taken per channel instead?  (a call of the decision whose
    # argument comes from select_scatterer_by_illumination, anywhere)
    per_channel = False
    for m in prog.modules.values():
        if '/tests/' in m.relpath:
            continue
        for fn in ast.walk(m.tree):
            if not isinstance(fn, (ast.FunctionDef, ast.AsyncFunctionDef)):
                continue
            selected = set()
            for n in ast.walk(fn):
                if isinstance(n, ast.Assign) and isinstance(n.value, ast.Call) and \
                        ast.unparse(n.value.func).endswith(
                            'select_scatterer_by_illumination'):
                    selected |= set(t.id for t in n.targets if isinstance(t, ast.Name))
            for n in ast.walk(fn):
                if isinstance(n, ast.Call) and ast.unparse(n.func).split('.')[-1] in (
                        'interpret_theory', root) and n.args and \
                        isinstance(n.args[0], ast.Name) and n.args[0].id in selected:
                    per_channel = True
    sites = 0
    allreads = {}
    for f in seen:
        reads = set()
        for n in ast.walk(funcs[f]):
            if isinstance(n, ast.Attribute) and isinstance(n.ctx, ast.Load) and \
                    n.attr in selectable:
                reads.add(n.attr)
            if isinstance(n, ast.Call) and isinstance(n.func, ast.Name) and \
                    n.func.id == 'getattr' and len(n.args) >= 2:
                names = []
                a = n.args[1]
                if isinstance(a, ast.Constant):
                    names = [a.value]
                elif isinstance(a, ast.Name):
                    # the name ranges over a literal list in an enclosing loop
                    for g in ast.walk(funcs[f]):
                        if isinstance(g, (ast.comprehension, ast.For)) and \
                                isinstance(g.target, ast.Name) and \
                                g.target.id == a.id and \
                                isinstance(g.iter, (ast.List, ast.Tuple)):
                            names += [e.value for e in g.iter.elts
                                      if isinstance(e, ast.Constant)]
                reads |= set(x for x in names if x in selectable)
        sites += 1
        if reads:
            allreads[f] = sorted(reads)
    # one obligation for the decision as a whole (however it is split into helpers)
    check.require(per_channel or not allreads, 'S5-default-theory-per-channel',
                  'default theory of a sphere collection',
                  'the default theory is decided from what channel selection '
                  'cannot change (the class of the scatterer), or on the '
                  'scatterer selected for the channel',
                  '%s:%d' % (rel, funcs[root].lineno),
                  fail_detail='decided once, before the channel loop, from the '
                  'members\' %s (read in %s) -- which may be per-channel dictionaries '
                  'or labelled arrays: the multi-channel calculation then uses '
                  'another theory than each single-channel one' % (
                      sorted(set(x for v in allreads.values() for x in v)),
                      ', '.join(sorted(allreads))))
    check.floor('functions of the default-theory decision', sites, 2)
