"""C07  Pixel value depends only on position: grids, points, crops, subsets.

Decides from the source:
  D1  none of the detector / metadata operations or calc_* entry points
      modifies its inputs (effect analysis: every store goes to a fresh object);
  D2  subset selection: indices drawn without replacement, the reseeding call
      runs exactly when a seed is given (`seed is not None`), selection is
      flat(data).isel(flat=selection), the result passes through
      copy_metadata(data, .) and remembers the original axes; a fit result
      rebuilds the full detector on those remembered axes;
  D3  one coordinate path: the positions handed to a theory are, element by
      element, k*(x - x0), k*(y - y0), k*(z0 - z) of the flattened detector
      (or (k r, theta, phi) for angular points) -- no dependence on shape,
      order or a particular element.
Not decided: numerical equality of the values (solver numerics).
"""
import ast

from hpstatic.effects import writes
from hpstatic.interp import Interp, expr_term
from hpstatic.poly import Canon
from hpstatic.terms import (is_num, sym, intern, show, subterms, calls_in, NONE, num, kw,
                            FALSE)
from hpstatic.xrnorm import atom_rewrite
from .theories import detector_decide, IFQ

MUTATION_TARGETS = {'holopy/core/metadata.py': ['make_subset_data', 'flat', 'from_flat', 'update_metadata', 'copy_metadata', 'detector_points', 'detector_grid', 'data_grid'], 'holopy/scattering/imageformation.py': ['_transform_to_desired_coordinates'], 'holopy/inference/result.py': ['forward']}

LEVEL = 'other'
META = dict(
    claimed=True,
    technique='effect analysis (argument mutation) of the detector/metadata API '
              'and calc_*; dominance / path-condition check of the reseeding call; '
              'canonical-form equality of the coordinate hand-off; return-shape '
              'agreement of make_subset_data with its return_selection flag on '
              'every path',
    level_text='Static: D1 holds for all inputs (no store reaches storage owned by '
               'an argument); D2/D3 are the structural conditions under which '
               'selecting pixels commutes with the forward calculation at the '
               'Python layer.  Does not decide numerical equality.',
    level_note='Trusted: DataArray.copy()/np.array create new storage; '
               'numpy.random.choice(replace=False) draws distinct indices.',
)

MD = 'holopy.core.metadata.'
I = 'holopy.scattering.interface.'


def run(check, prog):
    check.explanation = (
        'Every store seen while evaluating the detector API is attributed to the '
        'object that owns the storage; make_subset_data and the coordinate hand-off '
        'are compared with their documented form.')
    purity(check, prog)
    subset(check, prog)
    coordinates(check, prog)
    # "values, coordinates and metadata are kept" rests on copy_metadata
    from . import c01
    c01.f6_copy_metadata(check, prog)
    # a result on explicit points says where each value is (shared with C01)
    c01.f9_point_coordinates(check, prog)
    # the value at a point does not depend on which point was computed before it:
    # a failed Bessel evaluation is not read back as the previous point's values
    # (rule on the Fortran sources, shared with C02)
    from . import c02 as _c02f
    _c02f.status_examined(check, prog)
    constructors(check, prog)
    # a pixel's value must not depend on which other pixels are computed in the
    # same call: the interpolation windows of the radial integrals sit on a fixed
    # grid (rule shared with C08)
    from . import c08, c13
    c08.interpolation_windows(check, prog)
    # the seed given to a strategy reaches the subset draw (rule shared with C13)
    c13.wiring(check, prog)
    c13.seeded_subset(check, prog)
    point_independence(check, prog)
    # where a pixel sits: make_coords / data_grid put pixel (i, j) at
    # (i * spacing_x, j * spacing_y) for scalar and per-axis spacings, which the
    # grid / points / crop comparison presupposes (rule shared with C16)
    from . import c16
    c16.grid(check, prog)


def purity(check, prog):
    targets = [MD + n for n in ('detector_grid', 'detector_points', 'data_grid',
                                'update_metadata', 'copy_metadata', 'make_subset_data',
                                'flat', 'from_flat', 'clean_concat', 'to_vector',
                                'dict_to_array')]
    targets += ['holopy.core.process.img_proc.subimage']
    targets += [I + n for n in ('calc_holo', 'calc_field', 'calc_intensity',
                                'calc_scat_matrix', 'calc_cross_sections',
                                'prep_schema', 'finalize')]
    for q in targets:
        fd = prog.func(q)
        loc = prog.loc(q, fd)
        short = q.rpartition('.')[2]
        it = Interp(prog, max_depth=4, opaque=[
            'holopy.scattering.imageformation.ImageFormation.calculate_scattered_field',
            'holopy.scattering.imageformation.ImageFormation.calculate_scattering_matrix',
            'holopy.scattering.imageformation.ImageFormation.calculate_cross_sections',
            I + 'determine_default_theory_for'])
        res = it.analyze(q)
        params = {a.arg for a in fd.args.args + fd.args.kwonlyargs}
        bad = []
        n = 0
        for e, st, rs in writes(it):
            n += 1
            hit = [r for r in rs if r[0] == 'param' and r[1] in params]
            if hit and ('maybe-fresh',) not in rs:
                bad.append((e, hit[0][1]))
        for e, p in bad:
            check.bad('D1-inputs-not-modified', '%s mutates %s' % (short, p),
                      '%s %s at %s:%d writes into storage of the argument %r' % (
                          e['kind'], e.get('target_src') or e.get('method'),
                          e['module'], e['lineno'], p), loc)
        if not bad:
            check.ok('D1-inputs-not-modified', short,
                     '%d stores, all into objects created by the call' % n, loc)


def subset(check, prog):
    q = MD + 'make_subset_data'
    fd = prog.func(q)
    loc = prog.loc(q, fd)
    it = Interp(prog, max_depth=1, opaque=[MD + 'flat', MD + 'copy_metadata'])
    res = it.analyze(q)
    seed_ = sym(fd.args.args[3].arg) if len(fd.args.args) > 3 else sym('seed')
    notnone = [(('cmp', 'is not', seed_, NONE), True)]
    isnone_f = [(('cmp', 'is', seed_, NONE), False)]
    pix_none = intern(('cmp', 'is', sym(fd.args.args[1].arg), NONE))
    seedcalls = [c for c in it.calls if c['name'] == 'numpy.random.seed']
    # the draw: numpy.random.choice / .permutation, or the same method of a
    # private generator object
    draws = []
    for c in it.calls:
        if c['name'] in ('numpy.random.choice', 'numpy.random.permutation'):
            draws.append((c, c['name'].rpartition('.')[2], None, list(c['args'])))
        elif c['name'] in ('.choice', '.permutation') and c['args']:
            draws.append((c, c['name'][1:], c['args'][0], list(c['args'][1:])))
        elif c['name'].startswith('numpy.random.') and c['name'].rpartition('.')[2] not in (
                'seed', 'RandomState', 'default_rng', 'Generator', 'SeedSequence'):
            draws.append((c, c['name'].rpartition('.')[2], None, list(c['args'])))
    GEN = ('numpy.random.RandomState', 'numpy.random.default_rng')

    def seeded(g):
        """True / False / None(undecidable): does generator term g depend on the seed
        for every seed that is not None?"""
        if g[0] == 'call' and g[1] in GEN:
            a0 = list(g[2]) + [v for k, v in g[3]]
            return a0 == [seed_]
        if g[0] == 'ite':
            c = g[1]
            if c == ('cmp', 'is not', seed_, NONE):
                return seeded(g[2])
            if c == ('cmp', 'is', seed_, NONE):
                return seeded(g[3])
            return False      # e.g. truthiness of the seed: seed 0 goes unseeded
        return False
    from .common import norm_cond
    isnone_t = intern(('cmp', 'is', seed_, NONE))
    ok = bool(draws)
    why = 'found %d reseeding calls and %d draws' % (len(seedcalls), len(draws))
    for c, meth, recv, args in draws:
        cond = [(t, pol) for t, pol in norm_cond(c['cond']) if t != pix_none]
        only_unseeded = (isnone_t, True) in cond or \
            (('cmp', 'is not', seed_, NONE), False) in cond
        if recv is None or recv == ('extref', 'numpy.random'):
            if only_unseeded:
                continue            # the global generator serves seed=None only
            good = len(seedcalls) == 1 and seedcalls[0]['args'] == (seed_,)
            if good:
                sc = [(t, pol) for t, pol in seedcalls[0]['cond'] if t != pix_none]
                good = sc in (notnone, isnone_f) and \
                    it.calls.index(seedcalls[0]) < it.calls.index(c)
                why = 'global generator reseeded under %s' % [(show(t), p) for t, p in sc]
            ok = ok and good
        else:
            good = seeded(recv) is True
            if not good:
                why = 'draws from %s under %s' % (show(recv)[:80],
                                                  [(show(t)[:40], p) for t, p in cond])
            ok = ok and good
    # ... and some draw must serve the seeded case
    ok = ok and any(not ((isnone_t, True) in norm_cond(c['cond'])) for c, _, _, _ in draws)
    check.require(ok, 'D2-reproducible', 'make_subset_data reseeding',
                  'for every seed that is not None the draw comes from a generator '
                  'seeded with it (np.random.seed(seed) before the draw, or a private '
                  'RandomState(seed) / default_rng(seed))', loc,
                  fail_detail='%s: a falsy seed such as 0 does not seed the draw, so '
                  'the subset is not reproducible' % (why,))
    okd = bool(draws)
    draw_terms = set()
    for c, meth, recv, args in draws:
        if meth == 'choice':
            good = dict(c['kwargs']).get('replace') == FALSE or (
                len(args) > 2 and args[2] == FALSE)
        else:
            good = meth == 'permutation'
        okd = okd and good
        kwt = tuple(c['kwargs'])
        draw_terms.add(intern(('call', c['name'], tuple(args), kwt)) if recv is None else
                       intern(('call', ('attr', recv, meth), tuple(args), kwt)))
    # all draws are the same request (population, count) on different generators
    okd = okd and len({(tuple(a), tuple(c['kwargs'])) for c, _, _, a in draws}) == 1
    check.require(okd, 'D2-distinct-pixels', 'make_subset_data draw',
                  'indices drawn without replacement', loc,
                  fail_detail='draws: %s' % [(c['name'], [(k, show(v)) for k, v in
                                                           c['kwargs']])
                                             for c, _, _, _ in draws])

    def is_draw(t):
        """the selection is one of the draws (possibly chosen by a condition)"""
        if t[0] == 'ite':
            return is_draw(t[2]) and is_draw(t[3])
        return t in draw_terms
    if okd:
        c, meth, recv, args = draws[0]
        n = args[0]
        canon = Canon()
        # the indices select along the flattened pixel axis, so they are drawn from
        # exactly that many values: the length of the axis `isel(flat=...)` indexes
        # (x * y * z for a grid -- not x * y, which reaches only the first 1/nz of a
        # z stack and is n**2 for data that are already flat)
        F = intern(('call', MD + 'flat', (sym('data'),), ()))
        env = {'F': F, 'data': sym('data')}
        wants = [expr_term(prog, e_, env) for e_ in (
            "F.sizes['flat']", "len(F.flat)", "len(F['flat'])", "F.flat.size",
            "len(data.x) * len(data.y) * len(data.z)")]
        okp = any(canon.equal(n, w_) for w_ in wants)
        count = args[1] if len(args) > 1 else dict(c['kwargs']).get('size')
        check.require(okp and count == sym('pixels'), 'D2-distinct-pixels',
                      'make_subset_data population',
                      '`pixels` indices out of the length of the flattened pixel axis',
                      loc,
                      fail_detail='draws %s from %s, but the indices select along the '
                      'flattened (x, y, z) axis' % (
                          show(count)[:40] if count is not None else None,
                          show(n)[:80]))
    def payload(o):
        return o.value[1][0] if o.value[0] == 'tuple' and o.value[1] else o.value
    rets = [o for o in res.returns if payload(o) != sym('data')]
    first = [o for o in res.returns if payload(o) == sym('data')]
    check.require(bool(first) and all(
        (('cmp', 'is', sym('pixels'), NONE), True) in norm_cond(o.cond) for o in first) and
        any(o.value == sym('data') for o in first),
                  'D2-no-subset', 'make_subset_data(pixels=None)',
                  'returns the data itself when no subset is requested', loc)
    # The caller that asked for the selection unpacks two values, whatever the
    # number of pixels: a return that ignores `return_selection` hands
    # `subset, selection = make_subset_data(image, return_selection=True)` the
    # image's first two rows (or a ValueError for any other number of rows)
    flag = sym('return_selection')
    if any(a.arg == 'return_selection' for a in fd.args.args + fd.args.kwonlyargs):
        for o in res.returns:
            pol = [p_ for t_, p_ in norm_cond(o.cond) if t_ == flag]
            pair = o.value[0] == 'tuple' and len(o.value[1]) == 2
            if o.value[0] == 'ite' and o.value[1] == flag:
                good = o.value[2][0] == 'tuple' and len(o.value[2][1]) == 2 and \
                    o.value[3][0] != 'tuple'
            elif pol:
                good = pair == pol[0]
            else:
                good = False
            check.require(good, 'D2-selection-returned',
                          'make_subset_data return under %s' % (
                              ' and '.join('%s%s' % ('' if p_ else 'not ', show(t_)[:40])
                                           for t_, p_ in norm_cond(o.cond)) or 'always'),
                          'with return_selection the result is (subset, selection), '
                          'without it the subset alone -- for every number of pixels, '
                          'None (the whole image) included', loc,
                          fail_detail='returns %s whatever return_selection says' % (
                              show(o.value)[:80],) if not pol else
                          'returns %s' % show(o.value)[:80])
    # What is returned, for an image (grid) and for data that are already a flat
    # subset (what every strategy with `npixels` hands over when the user's data
    # are a subset).  copy_metadata re-indexes a flat result like a flat donor
    # (its branch for finalize()): applied here it blows the selection back up
    # to the donor's pixels, NaN-filled -- so on the flat path the selection must
    # not go through it; isel keeps name and attrs by itself.
    data = sym('data')
    FL = intern(('call', MD + 'flat', (data,), ()))
    for kind in ('grid', 'flat subset'):
        def decide_k(t, kind=kind):
            if t[0] == 'call' and t[1] == 'hasattr' and len(t[2]) == 2 and \
                    t[2][0] == data and t[2][1] == ('const', 'flat'):
                return kind != 'grid'
            if t[0] == 'cmp' and t[1] in ('in', 'not in') and \
                    t[2] == ('const', 'original_dims') and kind != 'grid':
                # a subset carries the record of the image's axes; an image may
                # or may not (attrs travel: the hologram of a subset fit, a
                # calculation on a subset put back on its grid), so for a grid
                # the test stays undecided
                return t[1] == 'in'
            if t == pix_none:
                return False
            return None
        itk = Interp(prog, max_depth=1, decide=decide_k,
                     opaque=[MD + 'copy_metadata', MD + 'flat'])
        resk = itk.analyze(q)
        for o in resk.returns:
            v = o.value[1][0] if o.value[0] == 'tuple' else o.value
            stores = []
            t = v
            while t[0] == 'upd' or (t[0] == 'ite' and any(
                    y == ('const', 'original_dims') for y in subterms(t[1]))):
                # (with or without the record of the axes: the same pixels)
                if t[0] == 'ite':
                    t = t[3] if t[3][0] != 'upd' else t[2]
                    continue
                stores.append(t)
                t = t[1]
            # strip attribute bookkeeping: x{.attrs := ...}, x.attrs{#k := v}
            core = t
            wrapped = False
            if core[0] == 'call' and core[1] == MD + 'copy_metadata' and \
                    len(core[2]) >= 2 and core[2][0] == data:
                wrapped = True
                core = core[2][1]
            sel = core
            ok = sel[0] == 'call' and sel[1] == ('attr', FL, 'isel') and \
                dict(sel[3]).get('flat') is not None and bool(draw_terms) and \
                is_draw(dict(sel[3])['flat'])
            detail = 'returns %s' % show(v)[:200]
            if ok and wrapped and kind != 'grid':
                ok = False
                detail = 'for data that are already flat the selection is passed ' \
                    'through copy_metadata(data, ...), which re-indexes it like ' \
                    '`data`: make_subset_data(subset_of_20, pixels=5) comes back with ' \
                    '20 entries, 15 of them NaN'
            check.require(ok, 'D2-selection', 'make_subset_data result [%s]' % kind,
                          'the selected pixels of flat(data), with the metadata of '
                          'data: values, coordinates and metadata of exactly the '
                          'selected pixels', loc, fail_detail=detail)
            od = [x for x in subterms(v) if x[0] == 'upd' and
                  x[3] == ('const', 'original_dims')]
            if kind == 'grid':
                okd = len(od) >= 1
                if okd:
                    d = od[0][4]
                    okd = d[0] == 'comp' and d[1] == 'dict' and \
                        d[3][0][1] == ('attr', data, 'dims')
                    if okd:
                        e = d[3][0][0]
                        okd = d[2] == ('tuple', (e, ('attr', ('idx', data, e), 'values')))
                stale = [x for x in subterms(v) if x[0] == 'ite' and any(
                    y == ('const', 'original_dims') for y in subterms(x[1]))]
                check.require(okd and not stale, 'D2-original-axes',
                              'make_subset_data original_dims [grid]',
                              "attrs['original_dims'] = {dim: data[dim].values for "
                              "every dim}, whatever record the image's metadata "
                              'carried', loc,
                              fail_detail='the record is written only when %s: an '
                              'image that carries an older record (the hologram of a '
                              'subset fit, cropped) keeps the axes of the old image '
                              'and FitResult.forward rebuilds the wrong grid' % (
                                  show(stale[0][1])[:80],) if stale else
                              'no record of the image\'s axes is written')
            else:
                keep = all(x[4] in (intern(('idx', ('attr', data, 'attrs'),
                                            ('const', 'original_dims'))),
                                    intern(('attr', data, 'original_dims')))
                           for x in od)
                check.require(keep, 'D2-original-axes',
                              'make_subset_data original_dims [flat subset]',
                              'a subset of a subset keeps the record of the image\'s '
                              'axes it was given', loc,
                              fail_detail="attrs['original_dims'] is overwritten with "
                              '%s: the x / y / z axes remembered by the first subset '
                              'are lost' % (show(od[0][4])[:100] if od else ''))
            if o.value[0] == 'tuple':
                check.require(ok and o.value[1][1] == dict(sel[3])['flat'],
                              'D2-selection',
                              'make_subset_data return_selection [%s]' % kind,
                              'the selection returned is the one applied', loc)
    # FitResult.forward rebuilds the full grid on the remembered axes
    q = 'holopy.inference.result.FitResult.forward'
    fd = prog.func(q)
    loc = prog.loc(q, fd)
    it = Interp(prog, max_depth=1, opaque=[MD + 'detector_grid', MD + 'copy_metadata',
                                           'holopy.core.utils.dict_without'])
    res = it.analyze(q)
    od = intern(('attr', ('attr', sym('self'), 'data'), 'original_dims'))
    stores = {e['key']: e['value'] for e in it.effects if e['kind'] == 'setitem' and
              e['target_src'].startswith('schema')}
    conds = {e['key']: e['cond'] for e in it.effects if e['kind'] == 'setitem' and
             e['target_src'].startswith('schema')}
    for ax in ('x', 'y', 'z'):
        want = intern(('idx', od, ('const', ax)))
        got = stores.get(('const', ax))
        # ... on the paths on which the record has that axis (a test whether it
        # has must not be turned round)
        for t_, pol in conds.get(('const', ax), ()):
            if t_ == ('cmp', 'in', ('const', ax), od) and not pol:
                got = None
        if ax == 'z' and got is not None and got[0] == 'ite' and \
                got[1] == ('cmp', 'in', ('const', 'z'), od):
            got = got[2]        # (a record without z leaves the plane alone)
        check.require(got == want, 'D2-original-axes', 'FitResult.forward ' + ax,
                      'the rebuilt detector takes its %s axis from original_dims' % ax,
                      loc, fail_detail='schema[%r] is %s: for a cropped / shifted image '
                      '(or a detector plane away from z = 0) the rebuilt grid starts '
                      'at 0 instead of the original origin, and the hologram of a '
                      'subset fit is not the forward model on the data\'s pixels' % (
                          ax, 'never assigned' if got is None else show(got)[:80]))
    dg = [c for c in it.calls if c['name'] == MD + 'detector_grid']
    ok = len(dg) == 1
    if ok:
        shape, spacing = dg[0]['args'][0], dg[0]['args'][1]
        x, y = intern(('idx', od, ('const', 'x'))), intern(('idx', od, ('const', 'y')))
        def step(t, ax):
            # the first difference of the axis -- where there is one: an axis of a
            # single pixel (1 x N images are in the quantifier) has none, and any
            # constant will do there, since x and y are assigned afterwards
            d0 = ('idx', ('call', 'numpy.diff', (ax,), ()), num(0))
            if t == d0:
                return 'bare'
            n_ = ('call', 'len', (ax,), ())
            if t[0] == 'ite' and t[2] == d0 and t[3][0] in ('num', 'const') and \
                    t[1][0] == 'cmp' and (
                        (t[1][1] == '<' and t[1][2] == num(1) and t[1][3] == n_) or
                        (t[1][1] == '>' and t[1][2] == n_ and t[1][3] == num(1)) or
                        (t[1][1] == '<=' and t[1][2] == num(2) and t[1][3] == n_)):
                return 'guarded'
            return None
        kinds = [step(t, ax) for t, ax in zip(spacing[1], (x, y))] \
            if spacing[0] == 'tuple' and len(spacing[1]) == 2 else [None, None]
        ok = shape == ('tuple', (('call', 'len', (x,), ()), ('call', 'len', (y,), ()))) \
            and all(kinds)
        check.require(not ok or all(k == 'guarded' for k in kinds), 'D2-original-axes',
                      'FitResult.forward one-pixel axes',
                      'the grid is rebuilt for 1 x N and N x 1 images as well', loc,
                      fail_detail='np.diff(axis)[0] is taken unconditionally: a subset '
                      'of a one-row image has no first difference (IndexError from '
                      'result.hologram)')
    check.require(ok, 'D2-original-axes', 'FitResult.forward grid',
                  'grid shape and spacing come from the remembered x / y axes', loc)
    # the grid is rebuilt only for data that *are* a flat subset: an image has
    # its own axes, and may carry the record of another image's (the hologram of a
    # subset fit keeps the attribute; cropped and fitted again without subsetting,
    # its best fit would be computed on the old grid)
    data_t = intern(('attr', sym('self'), 'data'))
    dims_t = intern(('attr', data_t, 'dims'))
    flat_tests = []
    if dg:
        from .common import norm_cond as _nc
        for t, p in _nc(dg[0]['cond']):
            for x in subterms(t):
                hit = (x[0] == 'cmp' and x[1] == 'in' and x[2] == ('const', 'flat') and
                       any(y in (dims_t, data_t) for y in subterms(x[3]))) or \
                    (x[0] == 'call' and x[1] == 'hasattr' and len(x[2]) == 2 and
                     x[2][0] == data_t and x[2][1] == ('const', 'flat'))
                # (the test itself, holding: not its negation, and not buried in
                # a larger expression that is assumed false)
                if hit and (p or x is not t) and (x is t or p):
                    flat_tests.append(x)
    check.require(bool(flat_tests), 'D2-original-axes', 'FitResult.forward subset test',
                  'the detector is rebuilt only when the data have the flat dimension',
                  loc, fail_detail='the grid is rebuilt whenever the data carry an '
                  'original_dims attribute: a full 14 x 18 crop of the hologram of an '
                  'earlier subset fit still has the attribute (20 x 22), so '
                  'NmpfitStrategy().fit(crop).hologram has shape (20, 22, 1), and '
                  'hp.save merges it with the data into a 20 x 22 array with 188 NaN '
                  'pixels')


def coordinates(check, prog):
    q = IFQ + '._transform_to_desired_coordinates'
    fd = prog.func(q)
    loc = prog.loc(q, fd)
    canon = Canon(atom_rewrite=atom_rewrite)
    def decide_for(kind):
        def decide(t):
            if t[0] == 'call' and t[1] == 'hasattr' and len(t[2]) == 2 and \
                    t[2][1][0] == 'const':
                name = t[2][1][1]
                if name in ('theta', 'phi'):
                    return kind.startswith('spherical') or kind == 'cartesian+angles'
                if name == 'r':
                    return kind in ('spherical-r', 'cartesian+angles')
                if name in ('x', 'y', 'z'):
                    return kind.startswith('cartesian')
                if name == 'flat':
                    return False
                if name == 'point':
                    return kind == 'cartesian-points'
            return None
        return decide
    # 'cartesian+angles': a grid that also carries r, theta, phi (what
    # calc_scat_matrix returns: the angles it was evaluated at, relative to
    # *that* scatterer) -- its pixel positions are what locates the points
    for kind in ('cartesian', 'cartesian-points', 'spherical-r', 'spherical',
                 'cartesian+angles'):
        it = Interp(prog, max_depth=2, decide=decide_for(kind), opaque=[
            'holopy.core.math.find_transformation_function'])
        res = it.analyze(q)
        v = res.ret
        ok = v[0] == 'call' and v[2] and v[2][0][0] == 'list' and len(v[2][0][1]) == 3
        if not ok:
            check.bad('D3-coordinate-path', 'hand-off [%s]' % kind,
                      'does not pass three coordinate arrays: %s' % show(v)[:160], loc)
            continue
        got = v[2][0][1]
        det, org, k = sym('detector'), sym('origin'), sym('wavevec')
        if kind in ('cartesian', 'cartesian+angles'):
            env = {'k': k, 'o': org,
                   'X': intern(('attr', ('attr', ('call', ('attr', det, 'stack'), (), (
                       ('flat', ('tuple', (('const', 'x'), ('const', 'y'), ('const', 'z')))),)),
                       'x'), 'values')),
                   }
            f = intern(('call', ('attr', det, 'stack'), (), (
                ('flat', ('tuple', (('const', 'x'), ('const', 'y'), ('const', 'z')))),)))
            env = {'k': k, 'o': org, 'f': f}
        if kind == 'cartesian-points':
            env = {'k': k, 'o': org, 'f': det}
        if kind.startswith('cartesian'):
            want = [expr_term(prog, s, env) for s in (
                'k * (f.x.values - o[0])', 'k * (f.y.values - o[1])',
                'k * (o[2] - f.z.values)')]
            names = ['x', 'y', 'z']
        else:
            env = {'k': k, 'd': det}
            r = 'd.r.values * k' if kind == 'spherical-r' else \
                'np.full(d.theta.values.shape, np.inf)'
            want = [expr_term(prog, s, env) for s in (r, 'd.theta.values', 'd.phi.values')]
            names = ['r', 'theta', 'phi']
        def plain(t):
            # value-preserving conversions: np.asarray(x[, dtype=float]), np.array(x)
            if not isinstance(t, tuple) or not t or not isinstance(t[0], str):
                return tuple(plain(x) if isinstance(x, tuple) else x for x in t) \
                    if isinstance(t, tuple) else t
            if t[0] == 'call' and t[1] in ('numpy.asarray', 'numpy.array',
                                           'numpy.asfarray') and len(t[2]) == 1:
                return plain(t[2][0])
            return tuple(plain(x) if isinstance(x, tuple) else x for x in t)
        for nm, g, w in zip(names, got, want):
            c0 = Canon()
            g = intern(plain(g))
            check.require(c0.equal(g, w), 'D3-coordinate-path',
                          'hand-off [%s] %s' % (kind, nm),
                          'every detector point contributes its own %s' % nm, loc,
                          fail_detail='%s coordinate handed to the theory is %s; the '
                          'position-only form is %s' % (nm, c0.show(g)[:160],
                                                        c0.show(w)[:160]))
        # ... and reading the coordinates leaves the detector as it was: a member
        # of a superposition is evaluated on the same schema as the one before it
        badw = [e for e, st, rs in writes(it) if
                (('param', 'detector') in rs or ('param', 'origin') in rs) and
                ('fresh',) not in rs]
        check.require(not badw, 'D3-handoff-does-not-modify', 'hand-off [%s]' % kind,
                      'the coordinates are read, not rescaled in place', loc,
                      fail_detail='stores into the detector: %s -- the next member of '
                      'a superposition (or the next call) sees coordinates already '
                      'multiplied by the wavevector' % [
                          (e.get('target_src') or e.get('method'), e['lineno'])
                          for e in badw][:2])
        # ... in floating point whatever the detector's coordinates are made of: a
        # value stored *into* an array takes that array's dtype, and an array built
        # from the detector's own (possibly integer) coordinates -- np.array([x, y]),
        # empty_like(x) -- truncates the offsets from a fractional centre
        LIKE = ('numpy.array', 'numpy.asarray', 'numpy.empty_like', 'numpy.zeros_like',
                'numpy.full_like', 'numpy.ones_like', 'numpy.stack', 'numpy.vstack')
        trunc = []
        for e in it.effects:
            if e['kind'] not in ('setitem', 'augassign'):
                continue
            b = e.get('base') if e['kind'] == 'setitem' else e.get('target')
            while b is not None and b[0] in ('upd', 'idx', 'mut', 'phi'):
                if b[0] == 'phi':
                    b = None
                    break
                b = b[1]
            if b is not None and b[0] == 'call' and b[1] in LIKE and \
                    not any(k_ == 'dtype' for k_, _ in b[3]) and \
                    any(y == det for y in subterms(b)):
                trunc.append((e, b))
        check.require(not trunc, 'D3-coordinates-in-floating-point', 'hand-off [%s]' % kind,
                      'no coordinate is stored into an array that inherits the dtype of '
                      'the detector\'s coordinates', loc,
                      fail_detail='%s is filled by item assignment: with integer pixel '
                      'coordinates (detector_grid(shape, spacing=1)) the array is int64 '
                      'and x - centre is truncated towards zero' % (
                          show(trunc[0][1])[:80] if trunc else ''))
        # the transformation is chosen from the coordinate systems only
        f = v[1]
        ok = f[0] == 'call' and f[1] == 'holopy.core.math.find_transformation_function' \
            and f[2][0] == ('const', 'cartesian' if kind.startswith('cartesian') else 'spherical')
        check.require(ok, 'D3-coordinate-path', 'hand-off [%s] transformation' % kind,
                      'converted from the detector\'s own coordinate system', loc)
    # flat(): grids are stacked over (x, y, z); points / flat views pass through
    q = MD + 'flat'
    it = Interp(prog, max_depth=1)
    res = it.analyze(q)
    rets = res.returns
    vals = {show(o.value) for o in rets}
    ok = any(o.value == sym('a') for o in rets) and any(
        o.value[0] == 'call' and o.value[1] == ('attr', sym('a'), 'stack') and
        dict(o.value[3]).get('flat') == ('tuple', (('const', 'x'), ('const', 'y'),
                                                    ('const', 'z'))) for o in rets)
    # ... with the right polarity: a is returned as is iff it is already flat /
    # a point list
    from .common import norm_cond
    a_ = sym('a')
    hf = intern(('call', 'hasattr', (a_, ('const', 'flat')), ()))
    hp = intern(('call', 'hasattr', (a_, ('const', 'point')), ()))
    same = [o for o in rets if o.value == a_]
    stk = [o for o in rets if o.value != a_]
    ok = ok and len(same) == 1 and len(stk) == 1 and \
        len(norm_cond(same[0].cond)) == 1 and norm_cond(same[0].cond)[0][1] is True and \
        norm_cond(same[0].cond)[0][0][0] == 'bool' and \
        norm_cond(same[0].cond)[0][0][1] == 'or' and \
        set(norm_cond(same[0].cond)[0][0][2]) == {hf, hp}
    check.require(ok, 'D3-coordinate-path', 'flat',
                  'grids are stacked over (x, y, z); point lists and already '
                  'flattened data pass through (and only those)',
                  prog.loc(q, prog.func(q)), fail_detail='flat returns %s' % sorted(vals))
    q = MD + 'from_flat'
    it = Interp(prog, max_depth=1)
    res = it.analyze(q)
    v = res.ret
    want = intern(('ite', hf, ('call', ('attr', a_, 'unstack'), (('const', 'flat'),), ()),
                   a_))
    check.require(v == want, 'D3-coordinate-path', 'from_flat',
                  'flattened data is unstacked along `flat`; anything else passes '
                  'through', prog.loc(q, prog.func(q)),
                  fail_detail='from_flat returns %s' % show(v)[:120])
    # make_subset_data: what is returned
    q = MD + 'make_subset_data'
    fd = prog.func(q)
    it = Interp(prog, max_depth=1, opaque=[MD + 'copy_metadata', MD + 'flat'])
    res = it.analyze(q)
    rs = sym(fd.args.args[2].arg)
    pair = [o for o in res.returns if o.value[0] == 'tuple' and not (
        o.value[1] and o.value[1][0] == sym(fd.args.args[0].arg))]
    single = [o for o in res.returns if o.value[0] != 'tuple' and
              o.value != sym(fd.args.args[0].arg)]
    ok = len(pair) == 1 and len(single) == 1 and \
        (rs, True) in norm_cond(pair[0].cond) and \
        (rs, False) in norm_cond(single[0].cond) and \
        len(pair[0].value[1]) == 2 and pair[0].value[1][0] == single[0].value and \
        any(x == pair[0].value[1][1] for x in subterms(single[0].value)) and \
        any(x[0] == 'call' and (
            x[1] in ('numpy.random.choice', 'numpy.random.permutation') or
            (isinstance(x[1], tuple) and x[1][0] == 'attr' and
             x[1][2] in ('choice', 'permutation')))
            for x in subterms(pair[0].value[1][1]))
    check.require(ok, 'D2-selection', 'make_subset_data return value',
                  'the subset, plus the drawn indices iff return_selection',
                  prog.loc(q, fd))


def constructors(check, prog):
    """detector_points / detector_grid place each coordinate where the caller
    put it (the locations a calculation is asked for)."""
    from .common import norm_cond
    q = MD + 'detector_points'
    fd = prog.func(q)
    loc = prog.loc(q, fd)
    P = {a.arg: sym(a.arg) for a in fd.args.args}
    it = Interp(prog, max_depth=1, opaque=['holopy.core.utils.updated',
                                           'holopy.core.utils.repeat_sing_dims'])
    res = it.analyze(q)
    names = ('x', 'y', 'z', 'r', 'theta', 'phi')
    upd0 = intern(('call', 'holopy.core.utils.updated', (
        P['coords'], ('dict', tuple((('const', n), P[n]) for n in names))), ()))

    def has(k):
        return intern(('cmp', 'in', ('const', k), upd0))
    xy = intern(('bool', 'and', (has('x'), has('y'))))
    tp = intern(('bool', 'and', (has('theta'), has('phi'))))

    def unset(k):
        return intern(('cmp', 'is', ('call', ('attr', upd0, 'get'), (('const', k),), ()),
                       NONE))
    st = {e['key'][1]: e for e in it.effects if e['kind'] == 'setitem' and
          e['key'][0] == 'const'}
    ok = set(st) == {'z', 'r'} and st['z']['value'] == num(0) and \
        st['r']['value'] == ('extref', 'numpy.inf') and \
        norm_cond(st['z']['cond']) == [(xy, True), (unset('z'), True)] and \
        norm_cond(st['r']['cond']) == [(xy, False), (tp, True), (unset('r'), True)]
    check.require(ok, 'D3-point-detectors', 'detector_points defaults',
                  'Cartesian points without z get z = 0, angular points without r get '
                  'r = inf -- the named arguments are merged into `coords` first', loc,
                  fail_detail='defaults: %s' % {
                      k: (show(e['value']), [(show(t)[:50], p) for t, p in e['cond']])
                      for k, e in st.items()})
    ok = len(res.raises) == 1 and norm_cond(res.raises[0].cond) == [(xy, False),
                                                                     (tp, False)]
    check.require(ok, 'D3-point-detectors', 'detector_points coordinate system',
                  'CoordSysError iff neither (x, y) nor (theta, phi) is given', loc)
    v = res.ret
    ok = v[0] == 'call' and v[1] == 'xarray.DataArray' and \
        kw(v, 'dims') == ('list', (('const', 'point'),))
    if ok:
        co = kw(v, 'coords')
        ok = co is not None and co[0] == 'call' and co[1] == 'holopy.core.utils.updated' \
            and len(co[2]) == 2
        if ok:
            rep, comp = co[2]
            ok = rep[0] == 'call' and rep[1] == 'holopy.core.utils.repeat_sing_dims' and \
                comp[0] == 'comp' and comp[1] == 'dict' and len(comp[3]) == 1
            if ok:
                keys = comp[3][0][1]
                e = comp[3][0][0]
                ok = keys == ('ite', xy, ('list', tuple(('const', k) for k in 'xyz')),
                              ('list', (('const', 'r'), ('const', 'theta'),
                                        ('const', 'phi')))) and \
                    rep[2][1] == keys and \
                    comp[2] == ('tuple', (e, ('tuple', (('const', 'point'),
                                                        ('idx', rep, e)))))
    check.require(ok, 'D3-point-detectors', 'detector_points result',
                  'every coordinate of the chosen system is laid along the single '
                  'dimension `point` (values broadcast to a common length)', loc,
                  fail_detail='returns %s' % show(v)[:200])
    q = MD + 'detector_grid'
    fd = prog.func(q)
    it = Interp(prog, max_depth=1, opaque=[MD + 'data_grid'])
    res = it.analyze(q)
    v = res.ret
    G = {a.arg: sym(a.arg) for a in fd.args.args}
    ok = v[0] == 'call' and v[1] == MD + 'data_grid'
    if ok:
        fdd = prog.func(MD + 'data_grid')
        nm = [a.arg for a in fdd.args.args]
        b = dict(zip(nm, v[2]))
        b.update(dict(v[3]))
        ok = b.get('spacing') == G['spacing'] and b.get('name') == G['name'] and \
            b.get('extra_dims') == G['extra_dims'] and b.get('arr') is not None and \
            b['arr'][0] == 'call' and b['arr'][1] == 'numpy.zeros' and \
            set(b) == {'arr', 'spacing', 'name', 'extra_dims'}
        if ok:
            shp = b['arr'][2][0]
            base = intern(('ite', ('call', 'numpy.isscalar', (G['shape'],), ()),
                           ('list', (G['shape'], G['shape'])),
                           ('call', 'list', (G['shape'],), ())))
            # the extended shape: base followed by the length of every extra
            # dimension, built by an appending loop or by concatenating a list
            lens_of = intern(('call', ('attr', G['extra_dims'], 'values'), (), ()))

            def extended(t):
                if t[0] == 'loop':
                    st = t[4]
                    return t[3] == base and t[5] == lens_of and st[0] == 'mut' and \
                        st[2] == 'append' and len(st[3]) == 1 and \
                        st[3][0] == ('call', 'len', (('elem', lens_of, t[2]),), ())
                if t[0] == 'bin' and t[1] == '+' and t[2] == base:
                    c = t[3]
                    if c[0] == 'call' and c[1] == 'list' and len(c[2]) == 1:
                        c = c[2][0]
                    return c[0] == 'comp' and len(c[3]) == 1 and c[3][0][1] == lens_of \
                        and c[2] == ('call', 'len', (c[3][0][0],), ())
                return False
            given = intern(('cmp', 'is not', G['extra_dims'], NONE))
            absent = intern(('cmp', 'is', G['extra_dims'], NONE))
            ok = shp[0] == 'ite' and (
                (shp[1] == given and shp[3] == base and extended(shp[2])) or
                (shp[1] == absent and shp[2] == base and extended(shp[3])))
    check.require(ok, 'D3-grid-detectors', 'detector_grid',
                  'zeros of shape (n, n) for a scalar / the given shape, extended by '
                  'the lengths of the extra dimensions, handed to data_grid with the '
                  'spacing, name and extra dimensions in their slots', prog.loc(q, fd),
                  fail_detail='returns %s' % show(v)[:200])


def point_independence(check, prog):
    """D4: a theory computes the value at a detector point from that point's own
    coordinates.  Reading the coordinate of one particular point (positions[k, 0])
    or an aggregate over all points (mean, min, max of a coordinate row) and using
    it for every point makes a pixel depend on which other pixels are in the call
    -- unless the theory first refuses detectors whose points do not share that
    coordinate (a raise on the spread of the same row)."""
    TH = 'holopy.scattering.theory.'
    theories = [TH + 'lens.Lens', TH + 'mielens.MieLens', TH + 'mie.Mie',
                TH + 'multisphere.Multisphere', TH + 'tmatrix.Tmatrix']
    AGG = {'mean', 'min', 'max', 'median', 'amin', 'amax', 'average', 'nanmean'}
    n = 0
    for T in theories:
        hit = prog.lookup(T, 'raw_fields')
        if not hit or hit[0] != 'method':
            continue
        q = hit[1] + '.raw_fields'
        fd = prog.func(q)
        loc = prog.loc(q, fd)
        pname = [a.arg for a in fd.args.args[1:] if a.arg.startswith('pos')]
        if not pname:
            continue
        P = sym(pname[0])
        n += 1
        it = Interp(prog, max_depth=0)
        it.types[sym(fd.args.args[0].arg)] = T
        res = it.analyze(q)
        terms = [o.value for o in res.returns if o.value is not None]
        for c in it.calls:
            terms += list(c['args']) + [v for k, v in c['kwargs']]
        rows = {}      # coordinate row term -> how it is reduced

        def row_of(t):
            """t denotes one coordinate row of the positions array?"""
            if t[0] == 'idx' and t[1] == P and is_num(t[2]):
                return t
            return None
        for t in terms:
            for x in subterms(t):
                # positions[k, j] with literal j / positions[k][j]
                if x[0] == 'idx' and x[1] == P and x[2][0] == 'tuple' and \
                        len(x[2][1]) == 2 and all(is_num(y) for y in x[2][1]):
                    rows.setdefault(intern(('idx', P, x[2][1][0])), set()).add(
                        'point %d' % int(x[2][1][1][1]))
                if x[0] == 'idx' and is_num(x[2]) and row_of(x[1]) is not None:
                    rows.setdefault(x[1], set()).add('point %d' % int(x[2][1]))
                if x[0] == 'call' and isinstance(x[1], str) and \
                        x[1].rpartition('.')[2] in AGG and x[2] and row_of(x[2][0]) is not None:
                    rows.setdefault(x[2][0], set()).add(x[1].rpartition('.')[2])
                if x[0] == 'call' and isinstance(x[1], tuple) and x[1][0] == 'attr' and \
                        x[1][2] in AGG and row_of(x[1][1]) is not None:
                    rows.setdefault(x[1][1], set()).add(x[1][2])
        short = T.rpartition('.')[2]
        for row, how in sorted(rows.items(), key=lambda kv: show(kv[0])):
            guarded = False
            for o in res.raises:
                for ct, pol in o.cond:
                    for x in subterms(ct):
                        if x[0] == 'call' and isinstance(x[1], str) and \
                                x[1].rpartition('.')[2] == 'ptp' and x[2] and x[2][0] == row:
                            guarded = True
                        if x[0] == 'call' and isinstance(x[1], tuple) and \
                                x[1][0] == 'attr' and x[1][2] == 'ptp' and x[1][1] == row:
                            guarded = True
            check.require(guarded, 'D4-point-independence',
                          '%s.raw_fields %s' % (short, show(row)),
                          'a coordinate shared by all points (%s of the row) is used '
                          'only after detectors with differing values are refused'
                          % ', '.join(sorted(how)), loc,
                          fail_detail='%s of %s is used for every point and nothing '
                          'refuses points that differ in it: the value at a point '
                          'depends on the other points of the call (and on their order)'
                          % (', '.join(sorted(how)), show(row)))
    check.floor('theories whose raw_fields was scanned for shared coordinates', n, 4)
