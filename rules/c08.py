"""C08  Analytic sphere-through-lens theory equals the numerical lens wrapper.

Decides from the source:
  V1  results do not depend on the optional acceleration library: in the Lens
      integrand methods the numexpr strings (evaluated in the method's scope) and
      the NumPy branch are the same expression (canonical forms);
  V2  zero aberration == unaberrated: AberratedMieLens / its calculator override
      only construction and the pupil phase; the added phase is a product with
      legval(., coefficients) where the coefficients are spherical_aberration up
      to reshaping -- linear in the coefficients, so it vanishes for 0, 0.0 or a
      zero list of any length; the aberrated theory hands its calculator every
      option the unaberrated one does;
  V3  refining the quadrature changes nothing structural: the large-radius
      cutoff of the analytic theory scales with the instance's quad_npts; the
      Lens wrapper unpacks the inner theory's scattering matrices in the order
      its meshgrid produced them (valid for n_theta != n_phi); the azimuthal
      rule is a uniform full-period rule (shared with C05);
  V4  azimuth handling and recombination of both lens theories agree with the
      polarisation direction (rotation / mirror rules shared with C05), and the
      field phase factors are exp(i k z) / incident and -exp(i k z).
  V5  the Lens integrands are the inner theory's 2x2 amplitude matrix A
      (as returned: A[i][j] = S[..., i, j]) applied to the unit vector
      e = (cos, sin) of the azimuth relative to the polarisation and projected
      on e and on e_perp = (sin, -cos):  l = P e.(A e),  r = P e_perp.(A e) --
      the layout every theory's raw_scat_matrs uses for S.E;
  V7  interpolating the radial integrals: every Chebyshev window has the
      configured width (breakpoints = window_size * consecutive integers) and
      the windows cover [min krho, max krho]; the interpolated function is
      the directly evaluated integral of the same order n;
Not decided: numerical convergence of Lens(Mie) to MieLens, interpolation on /
off agreement.
"""
import ast

from hpstatic.interp import Interp, expr_term
from hpstatic.loader import AnalysisError
from hpstatic.poly import Canon
from hpstatic.terms import (sym, intern, show, subterms, calls_in, NONE, num, kw)
from . import c05
from .common import call_args, term_args, canon_call, method_term_args

MUTATION_TARGETS = {'holopy/scattering/theory/lens.py': ['_integrand_prefactor', '_integrand_prll', '_integrand_perp', '_calc_scattering_matrix', '_compute_field_phase', 'raw_fields'], 'holopy/scattering/theory/mielens.py': ['raw_fields', '_create_calculator'], 'holopy/scattering/theory/mielensfunctions.py': ['calculate_scattered_field', '_calculate_phase', '_calculate_aberrated_phase', '_calculate_incident_field']}

LEVEL = 'other'
META = dict(
    claimed=True,
    technique='sibling agreement of the numexpr-string and NumPy branches '
              '(canonical forms); class-diff + linearity of the aberration phase; '
              'dependence of the cutoff on the instance quadrature; shape-order '
              'consistency between meshgrid and reshape; C05\'s rotation rules'
              '; constructor / factory parity of the aberrated and plain classes (arg'
              'uments forwarded unchanged); index-convention rule shared with C02',
    level_text='Static: V1, V2 are identities for all inputs; V3, V4 are structural '
               'necessary conditions of "refining the quadrature does not change the '
               'result" and of agreement at every polarisation.  Numerical agreement '
               'of the two theories is not decided.',
    level_note='Trusted: numexpr evaluates its string in the caller\'s scope with '
               'NumPy semantics; numpy.polynomial.legendre.legval is linear in its '
               'coefficients; numpy.meshgrid (default xy indexing) returns arrays of '
               'shape (len(second), len(first)); reshape is C-ordered.',
)

TH = 'holopy.scattering.theory.'
LENS = TH + 'lens.Lens'
MLF = TH + 'mielensfunctions.'


def run(check, prog):
    check.explanation = (
        'The Lens integrand methods are evaluated once per branch of use_numexpr and '
        'compared; the aberrated classes are diffed against their parents; cutoffs '
        'and reshapes are checked for dependence on the right quadrature sizes.')
    canon = Canon()
    numexpr_agreement(check, prog, canon)
    aberration(check, prog, canon)
    quadrature(check, prog, canon)
    tc = Canon(trig_expand=True)
    c05.mielens_rotation(check, prog, tc)
    c05.lens_rotation(check, prog, tc)
    c05.calculator_parity(check, prog, tc)
    c05.phi_quadrature(check, prog)
    phases(check, prog, canon)
    amplitude_matrix(check, prog)
    lens_wiring(check, prog)
    interpolation_windows(check, prog)
    # a second calculation with other options must not see values remembered
    # from the first (MieLens == Lens(Mie) for every acceptance angle, whatever
    # was computed before): shared with C01
    from . import c01
    c01.f5_state(check, prog)
    # MieLens == Lens(Mie) also for absorbing spheres: the analytic side's Mie
    # coefficients and the index convention they are evaluated in (shared with C02)
    from . import c02
    c02.albl(check, prog, canon)
    # MieLens == Lens(Mie) at every detector point: the analytic theory works at
    # one height, so it has to refuse points at several (the wrapper uses each
    # point's own): rule shared with C07
    from . import c07
    c07.point_independence(check, prog)


def numexpr_agreement(check, prog, canon):
    n = 0
    for m in ('_integrand_prefactor', '_integrand_prll', '_integrand_perp'):
        q = LENS + '.' + m
        fd = prog.func(q)
        loc = prog.loc(q, fd)
        vals = {}
        for use_ne in (True, False):
            def decide(t, use_ne=use_ne):
                if t == intern(('attr', sym('self'), 'use_numexpr')):
                    return use_ne
                return None
            it = Interp(prog, max_depth=2, decide=decide)
            res = it.analyze(q)
            vals[use_ne] = res.ret
        n += 1
        ne_calls = calls_in(vals[True], 'numexpr.evaluate')
        if ne_calls:
            check.error('Lens.%s: numexpr string could not be evaluated: %s' % (
                m, show(ne_calls[0])[:100]))
            continue
        check.require(canon.equal(vals[True], vals[False]), 'V1-numexpr-agrees',
                      'Lens.' + m, 'numexpr branch == NumPy branch', loc,
                      fail_detail='with numexpr: %s; without: %s' % (
                          canon.show(vals[True])[:240], canon.show(vals[False])[:240]))
        check.require(vals[True] != NONE and not any(
            x[0] == 'unk' for x in subterms(vals[True])), 'V1-numexpr-agrees',
            'Lens.%s names' % m, 'every name in the numexpr string is bound in the '
            'method scope', loc)
    check.floor('Lens integrand methods with two branches', n, 3)
    # use_numexpr is only switched off by the environment test
    q = LENS + '.__init__'
    it = Interp(prog, max_depth=1, opaque=[LENS + '._setup_quadrature'])
    res = it.analyze(q)
    st = [e for e in it.effects if e['kind'] == 'setattr' and e['attr'] == 'use_numexpr']
    ok = len(st) == 1 and any(x == sym('use_numexpr') for x in subterms(st[0]['value']))
    check.require(ok, 'V1-numexpr-agrees', 'Lens.__init__ use_numexpr',
                  'the stored flag is the argument (forced off only when numexpr is '
                  'missing)', prog.loc(q, prog.func(q)))


def aberration(check, prog, canon):
    # class diff
    A = TH + 'mielens.AberratedMieLens'
    AC = MLF + 'AberratedMieLensCalculator'
    for cq, allowed in ((A, {'__init__', '_create_calculator'}),
                        (AC, {'__init__', '_calculate_phase',
                              '_calculate_aberrated_phase'})):
        c = prog.classes[cq]
        extra = set(c.methods) - allowed
        props = set(c.properties) - {'_pupil_x_squared'}
        check.require(not extra and not props, 'V2-class-diff', c.name,
                      'overrides only %s' % sorted(allowed), prog.loc(cq, c.node),
                      fail_detail='%s additionally overrides %s: the zero-aberration '
                      'case may no longer reduce to the parent' % (
                          c.name, sorted(extra | props)))
    # the aberrated classes configure their parents with exactly what they were
    # given: no option (quadrature size, interpolation settings, acceptance angle)
    # may get another default on the aberrated side
    qi = AC + '.__init__'
    fdi = prog.func(qi)
    iti = Interp(prog, max_depth=1, opaque=[MLF + 'MieLensCalculator.__init__'])
    iti.analyze(qi)
    base = [c for c in iti.calls if c['name'] == MLF + 'MieLensCalculator.__init__']
    kwname = fdi.args.kwarg.arg if fdi.args.kwarg else None
    ok = len(base) == 1 and kwname is not None
    detail = 'no single call of the parent constructor'
    if ok:
        kws = dict(base[0]['kwargs'])
        fwd = kws.pop('**', None)
        named = {a.arg for a in fdi.args.args[1:]} - {'spherical_aberration'}
        ok = fwd in (sym('**' + kwname), sym(kwname))
        ok = ok and all(kws.get(k) == sym(k) for k in kws) and set(kws) <= named \
            and len(base[0]['args']) == 1
        detail = 'parent constructor receives %s' % (
            [(k, show(v)[:60]) for k, v in base[0]['kwargs']],)
    check.require(ok, 'V2-class-diff', 'AberratedMieLensCalculator.__init__',
                  'forwards its options to MieLensCalculator unchanged', prog.loc(qi, fdi),
                  fail_detail=detail + ': with all aberration coefficients zero the '
                  'calculator is configured differently from the unaberrated one')
    qa, qb = A + '.__init__', TH + 'mielens.MieLens.__init__'
    fda = prog.func(qa)
    ita = Interp(prog, max_depth=1, opaque=[qb])
    ita.analyze(qa)
    base = [c for c in ita.calls if c['name'] == qb]
    ok = len(base) == 1
    if ok:
        names_b = [a.arg for a in prog.func(qb).args.args[1:]]
        got = dict(zip(names_b, base[0]['args'][1:]))
        got.update(dict(base[0]['kwargs']))
        ok = all(v == sym(k) for k, v in got.items()) and \
            set(got) == set(names_b) & {a.arg for a in fda.args.args}
        # same defaults for the shared options
        da = dict(zip([a.arg for a in fda.args.args][-len(fda.args.defaults):],
                      [ast.dump(d) for d in fda.args.defaults]))
        fdb = prog.func(qb)
        db = dict(zip([a.arg for a in fdb.args.args][-len(fdb.args.defaults):],
                      [ast.dump(d) for d in fdb.args.defaults]))
        ok = ok and all(da.get(k) == db.get(k) for k in got)
    check.require(ok, 'V2-class-diff', 'AberratedMieLens.__init__',
                  'hands lens angle and accuracy options to MieLens unchanged, with the '
                  'same defaults', prog.loc(qa, fda))
    # ... and both theories build their calculator from the same arguments
    def calc_slots(cq, cls):
        qq = cq + '._create_calculator'
        itc = Interp(prog, max_depth=1, inline_new=False)
        r = itc.analyze(qq)
        new = [x for x in subterms(r.ret) if x[0] == 'new' and x[1] == cls]
        if len(new) != 1 or new[0][2]:
            return None
        return dict(new[0][3])
    sa = calc_slots(A, AC)
    sb = calc_slots(TH + 'mielens.MieLens', MLF + 'MieLensCalculator')
    ok = sa is not None and sb is not None
    if ok:
        extra = {k: v for k, v in sa.items() if k not in sb}
        ok = all(sa.get(k) == v for k, v in sb.items()) and \
            set(extra) == {'spherical_aberration'} and \
            extra['spherical_aberration'] == ('attr', sym('self'), 'spherical_aberration')
    check.require(ok, 'V2-class-diff', 'AberratedMieLens._create_calculator',
                  'same calculator arguments as MieLens plus the aberration coefficients',
                  prog.loc(A + '._create_calculator', prog.func(A + '._create_calculator')),
                  fail_detail='aberrated: %s; plain: %s' % (
                      sorted(sa) if sa else None, sorted(sb) if sb else None))
    q = AC + '._calculate_phase'
    fd = prog.func(q)
    loc = prog.loc(q, fd)
    it = Interp(prog, max_depth=1, opaque=[MLF + 'MieLensCalculator._calculate_phase',
                                           AC + '._calculate_aberrated_phase'])
    res = it.analyze(q)
    s = sym('self')
    want = intern(('bin', '+', ('call', ('attr', s, '_calculate_phase'), (), ()),
                   ('call', ('attr', s, '_calculate_aberrated_phase'), (), ())))
    v = res.ret
    ok = canon.equal(v, want) and any(c['name'] == MLF + 'MieLensCalculator._calculate_phase'
                                      for c in it.calls)
    check.require(ok, 'V2-phase-is-sum', 'AberratedMieLensCalculator._calculate_phase',
                  'phase = parent phase + aberration phase', loc,
                  fail_detail='phase = %s' % show(v)[:160])
    q = AC + '._calculate_aberrated_phase'
    fd = prog.func(q)
    loc = prog.loc(q, fd)
    it = Interp(prog, max_depth=2)
    res = it.analyze(q)
    v = res.ret
    r = canon.rat(v)
    ok = r.den == {(): 1} and len(r.num) >= 1
    lin = ok
    for mono, c in r.num.items():
        lv = [a for a, e in mono if a[0] == 'call' and a[1] ==
              'numpy.polynomial.legendre.legval' and e == 1]
        if len(lv) != 1:
            lin = False
            continue
        coeffs = lv[0][2][1] if len(lv[0][2]) > 1 else None
        t = coeffs
        while t is not None and t[0] == 'call' and t[1] in (
                'numpy.reshape', 'numpy.ravel', 'numpy.asarray', 'numpy.array',
                'numpy.atleast_1d'):
            t = t[2][0]
        lin = lin and t == ('attr', s, 'spherical_aberration')
    check.require(lin, 'V2-aberration-linear', '_calculate_aberrated_phase',
                  'every term carries exactly one factor legval(., reshape('
                  'spherical_aberration)): the added phase is linear in the '
                  'coefficients and vanishes when they are all zero', loc,
                  fail_detail='aberration phase = %s' % canon.show(v)[:240])
    # sibling agreement of _create_calculator
    kws = {}
    for cq, cls in ((TH + 'mielens.MieLens', MLF + 'MieLensCalculator'),
                    (A, AC)):
        q = cq + '._create_calculator'
        it = Interp(prog, max_depth=1, inline_new=False)
        res = it.analyze(q)
        v = res.ret
        ok = v[0] == 'new' and v[1] == cls
        kws[cq] = dict(v[3]) if ok else None
        check.require(ok, 'V2-calculator-options', cq.rpartition('.')[2] +
                      '._create_calculator', 'constructs %s' % cls.rpartition('.')[2],
                      prog.loc(q, prog.func(q)))
    base, ab = kws[TH + 'mielens.MieLens'], kws[A]
    if base is not None and ab is not None:
        missing = [k for k in base if k not in ab or ab[k] != base[k]]
        check.require(not missing and 'spherical_aberration' in ab,
                      'V2-calculator-options', 'AberratedMieLens._create_calculator',
                      'passes every option MieLens passes (%s) plus spherical_aberration'
                      % sorted(base), prog.loc(A + '._create_calculator',
                                               prog.func(A + '._create_calculator')),
                      fail_detail='AberratedMieLens does not forward %s to its '
                      'calculator: with non-default accuracy options the zero-'
                      'aberration result differs from MieLens' % missing)


def lens_prefactor_form(check, prog):
    """V8: the pupil integrand of the numerical lens theory, written out:
        (1 / 2 pi) * exp(i k rho sin(th) cos(phi' - phi)) * exp(i k z (1 - cos(th)))
                   * sqrt(cos(th)) * sin(th) * w_phi * w_th
    (the 1 / 2 pi turns the azimuthal sum into the average that MieLens performs in
    closed form as Bessel functions).  Both evaluation branches."""
    q = LENS + '._integrand_prefactor'
    fd = prog.func(q)
    loc = prog.loc(q, fd)
    me = sym('self')
    env = {'krho_p': sym('krho_p'), 'phi_p': sym('phi_p'), 'kz_p': sym('kz_p'),
           'st': intern(('attr', me, '_sintheta')), 'ct': intern(('attr', me, '_costheta')),
           'pts': intern(('attr', me, '_phi_pts')), 'wp': intern(('attr', me, '_phi_wts')),
           'wt': intern(('attr', me, '_theta_wts'))}
    want = expr_term(prog, 'np.exp(1j * krho_p * st * np.cos(pts - phi_p)) * '
                           'np.exp(1j * kz_p * (1 - ct)) * np.sqrt(ct) * st * wp * wt'
                           ' * 0.5 / np.pi', env)
    canon = Canon()
    for use_ne in (True, False):
        def decide(t, use_ne=use_ne):
            if t == intern(('attr', me, 'use_numexpr')):
                return use_ne
            return None
        it = Interp(prog, max_depth=2, decide=decide)
        ret = it.analyze(q).ret
        check.require(canon.equal(ret, want), 'V8-lens-prefactor-form',
                      'Lens._integrand_prefactor [%s]' % ('numexpr' if use_ne else 'numpy'),
                      'equals the documented pupil integrand including the 1 / 2 pi of '
                      'the azimuthal average', loc,
                      fail_detail='prefactor is %s; documented: %s' % (
                          canon.show(ret)[:160], canon.show(want)[:160]))


def mielens_inputs(check, prog):
    """V9: the closed-form lens theory is evaluated for the same sphere as the
    Lorenz-Mie theory inside the numerical one: relative index n / n_medium and
    size parameter k r, at the height of the detector plane (the mean of the
    points' k z, after the refusal of a non-planar detector)."""
    q = 'holopy.scattering.theory.mielens.MieLens.raw_fields'
    fd = prog.func(q)
    loc = prog.loc(q, fd)
    it = Interp(prog, max_depth=2, opaque=[
        'holopy.scattering.theory.mielens.MieLens._create_calculator'])
    it.analyze(q)
    cs = [c for c in it.calls if c['name'].split('.')[-1] == '_create_calculator']
    if len(cs) != 1:
        check.bad('V9-mielens-inputs', 'MieLens.raw_fields',
                  'no single call of _create_calculator', loc)
        return
    kws = call_args(prog, cs[0])
    sc, k, nm = sym('scatterer'), sym('medium_wavevec'), sym('medium_index')
    canon = Canon()
    want = {'index_ratio': intern(('bin', '/', ('attr', sc, 'n'), nm)),
            'size_parameter': intern(('bin', '*', k, ('attr', sc, 'r')))}
    for name, w in want.items():
        got = kws.get(name)
        check.require(got is not None and canon.equal(got, w), 'V9-mielens-inputs',
                      'MieLens.raw_fields ' + name,
                      'the calculator receives %s' % canon.show(w), loc,
                      fail_detail='receives %s' % (canon.show(got)[:100] if got else None))
    z = intern(('idx', sym('positions'), num(2)))
    got = kws.get('particle_kz')
    ok = got is not None and got[0] == 'call' and got[1] in ('numpy.mean',) and \
        got[2] == (z,)
    if not ok and got is not None and got[0] == 'call' and isinstance(got[1], tuple) \
            and got[1] == ('attr', z, 'mean') and not got[2]:
        ok = True
    check.require(ok, 'V9-mielens-inputs', 'MieLens.raw_fields particle_kz',
                  'the height handed to the calculator is the mean of the points\' '
                  'k z (third row of the positions)', loc,
                  fail_detail='receives %s' % (show(got)[:100] if got else None))


def lens_nodes(check, prog):
    """The pupil integral runs over both angles, and the wrapped theory's matrix
    depends on both for anything but a sphere: the positions it is asked at must
    be built from the polar nodes *and* the azimuthal nodes (shared with C05:
    rotating a non-spherical scatterer about the axis is a shift in azimuth)."""
    q = LENS + '._calc_scattering_matrix'
    fd = prog.func(q)
    loc = prog.loc(q, fd)
    it = Interp(prog, max_depth=1, inline_new=False)
    it.analyze(q)
    rs = [c for c in it.calls if c['name'].split('.')[-1] == 'raw_scat_matrs']
    if len(rs) != 1 or len(rs[0]['args']) < 3:
        check.bad('V3-matrix-at-every-node', 'Lens._calc_scattering_matrix',
                  'no single call of the wrapped theory\'s raw_scat_matrs', loc)
        return
    # method call records carry the receiver first: (self.theory, scatterer, pos, ..)
    pos = dict(rs[0]['kwargs']).get('pos', rs[0]['args'][2])
    me = sym('self')
    for nodes in ('_theta_pts', '_phi_pts'):
        dep = any(x == ('attr', me, nodes) for x in subterms(pos))
        check.require(dep, 'V3-matrix-at-every-node',
                      'Lens._calc_scattering_matrix positions / %s' % nodes,
                      'the positions handed to the wrapped theory are built from '
                      'self.%s' % nodes, loc,
                      fail_detail='positions are %s: the matrix is not evaluated at the '
                      '%s nodes, so its dependence on that angle never enters the '
                      'integral' % (show(pos)[:120],
                                    'azimuthal' if 'phi' in nodes else 'polar'))


QUAD_ATTRS = ('_theta_pts', '_theta_wts', '_costheta', '_sintheta', '_phi_pts',
              '_phi_wts')


LENSMOD = 'holopy.scattering.theory.lens.'


def lens_quadrature_current(check, prog):
    """V10: the lens wrapper integrates over the pupil of the lens angle (and with
    the numbers of nodes) it has when the field is asked for -- the values it
    shows, saves and is rebuilt from -- and it accepts a prior as its lens angle,
    as the analytic theory does (the model puts a number in its place before any
    field is computed)."""
    q = LENS + '.raw_fields'
    fd = prog.func(q)
    loc = prog.loc(q, fd)
    me = sym('self')
    # the whole calculation, every method of the class inlined (the wrapped
    # theory and the two node generators stay opaque): an attribute of self that
    # survives in a term is state the calculation *found* on the object; one that
    # was stored earlier in the same call has been replaced by the stored value
    it = Interp(prog, max_depth=6, opaque=[
        LENSMOD + 'gauss_legendre_pts_wts', LENSMOD + 'pts_wts_for_phi_integrals'])
    res = it.analyze(q)
    terms = [res.ret] + [a for c in it.calls for a in c['args']] + \
        [v for c in it.calls for k, v in c['kwargs']]
    left = {x[1][2] for t in terms for x in subterms(t) if x[0] == 'call' and
            isinstance(x[1], tuple) and x[1][0] == 'attr' and x[1][1] == me and
            prog.lookup(LENS, x[1][2])}
    if left:
        check.error('Lens.raw_fields: methods not inlined (%s): cannot tell which '
                    'state they read' % ', '.join(sorted(left)))
        return
    found = sorted({x[2] for t in terms for x in subterms(t)
                    if x[0] == 'attr' and x[1] == me and x[2] in QUAD_ATTRS})
    check.require(not found, 'V10-quadrature-current', 'Lens.raw_fields quadrature state',
                  'no node, weight or trigonometric table is read as the constructor '
                  'left it', loc,
                  fail_detail='the calculation reads self.%s as __init__ left it: '
                  'after lens.lens_angle = 0.4 the object shows, saves and reloads '
                  'as 0.4 and computes with the old pupil (hologram off by 0.3; the '
                  'saved-and-reloaded copy disagrees with the object it was saved '
                  'from)' % ', self.'.join(found))
    gl = [c for c in it.calls if c['name'] == LENSMOD + 'gauss_legendre_pts_wts']
    ph = [c for c in it.calls if c['name'] == LENSMOD + 'pts_wts_for_phi_integrals']
    from .common import call_args
    okn = bool(gl) and all(
        call_args(prog, c).get('b') == ('attr', me, 'lens_angle') and
        call_args(prog, c).get('npts') == ('attr', me, 'quad_npts_theta') for c in gl) \
        and bool(ph) and all(
            any(a == ('attr', me, 'quad_npts_phi') for a in c['args']) for c in ph)
    check.require(okn or bool(found), 'V10-quadrature-current', 'Lens.raw_fields nodes',
                  'the nodes are generated in the call from self.lens_angle, '
                  'self.quad_npts_theta and self.quad_npts_phi', loc,
                  fail_detail='node generators are called with %s' % [
                      [show(a)[:40] for a in c['args']] for c in gl + ph])
    # a prior as lens angle: nothing is computed from it at construction
    qi = LENS + '.__init__'
    fdi = prog.func(qi)

    def decide(t):
        if t[0] == 'call' and t[1] == 'isinstance' and len(t[2]) == 2 and \
                t[2][0] == sym('lens_angle') and 'Prior' in show(t[2][1]):
            return True
        return None
    iti = Interp(prog, max_depth=2, decide=decide, opaque=[
        LENSMOD + 'gauss_legendre_pts_wts', LENSMOD + 'pts_wts_for_phi_integrals'])
    iti.analyze(qi)
    used = [c for c in iti.calls if c['name'] == LENSMOD + 'gauss_legendre_pts_wts'
            and any(x in (sym('lens_angle'), ('attr', me, 'lens_angle'))
                    for a in list(c['args']) + [v for k, v in c['kwargs']]
                    for x in subterms(a))]
    check.require(not used, 'V10-prior-lens-angle', 'Lens.__init__',
                  'a lens angle given as a prior is stored, not computed with', 
                  prog.loc(qi, fdi),
                  fail_detail='Lens.__init__ builds the quadrature from lens_angle '
                  'whatever it is: Lens(lens_angle=Uniform(.5, 1.2), theory=Mie()) '
                  'raises AttributeError (TransformedPrior has no reshape), so a lens '
                  'angle cannot be fitted with the lens wrapper while it can with '
                  'MieLens')


def quadrature(check, prog, canon):
    q = MLF + 'MieLensCalculator.calculate_scattered_field'
    fd = prog.func(q)
    loc = prog.loc(q, fd)
    it = Interp(prog, max_depth=1, opaque=[
        MLF + 'MieLensCalculator._calculate_small_krho_scattered_field',
        MLF + 'MieLensCalculator._calculate_large_krho_scattered_field'])
    res = it.analyze(q)
    cut = None
    for c in it.calls:
        pass
    for e in it.effects:
        pass
    # rho_small = krho < CUTOFF
    cands = set()
    for o in res.outcomes:
        for t, pol in o.cond:
            for x in subterms(t):
                if x[0] == 'cmp' and x[1] in ('<', '<=', '>', '>=') and \
                        sym('krho') in (x[2], x[3]):
                    cands.add(x)
        if o.value is not None:
            for x in subterms(o.value):
                if x[0] == 'cmp' and x[1] in ('<', '<=', '>', '>=') and \
                        sym('krho') in (x[2], x[3]):
                    cands.add(x)
    for c in it.calls:
        for a in c['args']:
            for x in subterms(a):
                if x[0] == 'cmp' and x[1] in ('<', '<=', '>', '>=') and \
                        sym('krho') in (x[2], x[3]):
                    cands.add(x)
    check.floor('radius cutoffs in calculate_scattered_field', len(cands), 1)
    npts = intern(('attr', sym('self'), 'quad_npts'))
    for x in cands:
        other = x[3] if x[2] == sym('krho') else x[2]
        dep = any(y == npts for y in subterms(other))
        check.require(dep, 'V3-cutoff-scales-with-quadrature',
                      'MieLensCalculator large-radius cutoff',
                      'the radius beyond which the field is set to zero scales with '
                      'this instance\'s quad_npts', loc,
                      fail_detail='the cutoff %s does not depend on self.quad_npts: with '
                      'a refined quadrature the field is still zeroed at the default '
                      'radius' % show(other)[:80])
    # the quadrature nodes themselves come from quad_npts
    q = MLF + 'MieLensCalculator.__init__'
    it = Interp(prog, max_depth=1, opaque=[
        MLF + 'gauss_legendre_pts_wts', MLF + 'MieLensCalculator._check_parameters',
        MLF + 'MieLensCalculator._precompute_scattering_matrices'])
    res = it.analyze(q)
    gl = [c for c in it.calls if c['name'] == MLF + 'gauss_legendre_pts_wts']
    ok = len(gl) == 1 and call_args(prog, gl[0]).get('npts') == sym('quad_npts')
    check.require(ok, 'V3-cutoff-scales-with-quadrature', 'MieLensCalculator nodes',
                  'Gauss-Legendre nodes use quad_npts', prog.loc(q, prog.func(q)))
    # Lens: reshape order matches meshgrid order
    q = LENS + '._calc_scattering_matrix'
    fd = prog.func(q)
    loc = prog.loc(q, fd)
    lens_nodes(check, prog)
    lens_quadrature_current(check, prog)
    lens_prefactor_form(check, prog)
    mielens_inputs(check, prog)
    it = Interp(prog, max_depth=1, inline_new=False)
    res = it.analyze(q)
    mg = [c for c in it.calls if c['name'] == 'numpy.meshgrid']
    ok = len(mg) == 1 and len(mg[0]['args']) == 2 and not dict(mg[0]['kwargs']).get('indexing')
    if not ok:
        check.error('Lens._calc_scattering_matrix: meshgrid call not recognised')
        return

    def axis_name(t):
        s = show(t)
        return 'theta' if 'theta' in s else ('phi' if 'phi' in s else None)
    first, second = axis_name(mg[0]['args'][0]), axis_name(mg[0]['args'][1])
    rs = [c for c in it.calls if c['name'] == '.reshape' and len(c['args']) == 5
          and calls_in(c['args'][0], 'numpy.conj')]
    ok = len(rs) == 1
    if ok:
        d0, d1 = axis_name(rs[0]['args'][1]), axis_name(rs[0]['args'][2])
        ok = (d0, d1) == (second, first)
        why = 'meshgrid(%s, %s) has shape (n_%s, n_%s) but the flattened result is ' \
              'reshaped as (n_%s, n_%s, 2, 2)' % (first, second, second, first, d0, d1)
    else:
        why = 'reshape of the conjugated matrices not found'
    check.require(ok, 'V3-reshape-matches-meshgrid', 'Lens._calc_scattering_matrix',
                  'matrices are unpacked as (n_%s, n_%s, 2, 2), the order meshgrid '
                  'produced, before the axes are swapped' % (second, first), loc,
                  fail_detail=why + ': only correct when both quadratures have the same '
                  'number of nodes')
    sw = [c for c in it.calls if c['name'] == 'numpy.swapaxes']
    ok = len(sw) == 1 and sw[0]['args'][1:] == (num(0), num(1))
    check.require(ok, 'V3-reshape-matches-meshgrid', 'Lens._calc_scattering_matrix swap',
                  'then axes 0 and 1 are swapped to (n_theta, n_phi)', loc)
    v = res.ret
    ok = v[0] == 'tuple' and len(v[1]) == 4
    if ok:
        want = [(1, 1), (0, 0), (0, 1), (1, 0)]      # S1, S2, S3, S4
        got = []
        for x in v[1]:
            idx = [y for y in subterms(x) if y[0] == 'idx' and y[2][0] == 'tuple'
                   and len(y[2][1]) == 4]
            if idx:
                k = idx[0][2][1]
                got.append((int(k[2][1]) if k[2][0] == 'num' else None,
                            int(k[3][1]) if k[3][0] == 'num' else None))
        ok = got == want
    check.require(ok, 'V3-matrix-elements', 'Lens._calc_scattering_matrix elements',
                  'S1 = S[1,1] (perp-perp), S2 = S[0,0] (par-par), S3 = S[0,1], '
                  'S4 = S[1,0]', loc)


def phases(check, prog, canon):
    q = LENS + '._compute_field_phase'
    it = Interp(prog, max_depth=1)
    res = it.analyze(q)
    want = expr_term(prog, '-1. * np.exp(1j * particle_kz)', {'particle_kz': sym('particle_kz')})
    check.require(canon.equal(res.ret, want), 'V4-field-phase', 'Lens._compute_field_phase',
                  '-exp(i k z): beam phase at the particle times the Gouy sign',
                  prog.loc(q, prog.func(q)), fail_detail='returns %s' % canon.show(res.ret))
    q = MLF + 'MieLensCalculator._calculate_incident_field'
    it = Interp(prog, max_depth=1)
    res = it.analyze(q)
    check.require(res.ret == ('tuple', (num(-1), num(0))), 'V4-field-phase',
                  'MieLensCalculator._calculate_incident_field',
                  'incident field at the focus is (-1, 0): the same Gouy sign the Lens '
                  'wrapper uses', prog.loc(q, prog.func(q)))
    q = TH + 'mielens.MieLens.raw_fields'
    it = Interp(prog, max_depth=1, opaque=[
        MLF + 'MieLensCalculator.calculate_scattered_field',
        MLF + 'MieLensCalculator._calculate_incident_field',
        TH + 'mielens.MieLens._create_calculator'])
    RHO, PHI, Z = sym('RHO'), sym('PHI'), sym('Z')
    res = it.analyze(q, args={'positions': intern(('list', (RHO, PHI, Z)))})
    v = res.ret
    ok = v[0] == 'bin' and v[1] == '*'
    if ok:
        fac = v[3]
        kz = intern(('call', 'numpy.mean', (Z,), ()))
        inc = [x for x in subterms(fac) if x[0] == 'idx' and
               calls_in(x, '_calculate_incident_field') and x[2] == num(0)]
        ok = bool(inc) and canon.equal(fac, intern(
            ('bin', '/', ('call', 'numpy.exp', (('bin', '*', ('I',), kz),), ()), inc[0])))
    check.require(ok, 'V4-field-phase', 'MieLens.raw_fields phase',
                  'field * exp(i k z) / incident_x', prog.loc(q, prog.func(q)),
                  fail_detail='final factor is %s' % (show(v[3])[:160] if v[0] == 'bin'
                                                      else show(v)[:160]))
    # Lens.raw_fields uses the particle z of the positions and its own phase
    q = LENS + '.raw_fields'
    it = Interp(prog, max_depth=1, opaque=[
        LENS + '._compute_integral', LENS + '._transform_integral_from_lr_to_xyz',
        LENS + '._compute_field_phase'])
    res = it.analyze(q)
    ph = [c for c in it.calls if c['name'].endswith('_compute_field_phase')]
    ok = len(ph) == 1 and ph[0]['args'][-1] in _kz_forms(sym('positions'))
    check.require(ok, 'V4-field-phase', 'Lens.raw_fields phase',
                  'phase evaluated at the k z row of the positions (each point\'s own '
                  'height; whether one representative may stand for all is C07\'s D4)',
                  prog.loc(q, prog.func(q)))


def _kz_forms(P):
    """the k z row of a (3, N) positions array: per point, or one representative"""
    row = intern(('idx', P, num(2)))
    return {row, intern(('idx', P, ('tuple', (num(2), num(0))))),
            intern(('idx', row, num(0))),
            intern(('call', 'numpy.mean', (row,), ()))}


def amplitude_matrix(check, prog):
    q = LENS + '._compute_integrand'
    fd = prog.func(q)
    loc = prog.loc(q, fd)
    me = sym(fd.args.args[0].arg)

    def decide(t):
        if t == ('attr', me, 'use_numexpr'):
            return False
        return None
    it = Interp(prog, max_depth=2, decide=decide, opaque=[LENS + '._integrand_prefactor'])
    res = it.analyze(q)
    v = res.ret
    ok = v[0] == 'tuple' and len(v[1]) == 2
    if not ok:
        check.bad('V5-amplitude-matrix', 'Lens._compute_integrand',
                  'does not return (integrand_l, integrand_r): %s' % show(v)[:120], loc)
        return
    ent = {}
    for x in subterms(v):
        if x[0] == 'idx' and x[2][0] == 'tuple' and len(x[2][1]) == 4 and \
                x[2][1][0][0] == 'slice' and x[2][1][1][0] == 'slice' and \
                x[2][1][2][0] == 'num' and x[2][1][3][0] == 'num':
            ent[(int(x[2][1][2][1]), int(x[2][1][3][1]))] = x
    wrapped = {}
    for x in subterms(v):
        if x[0] == 'call' and isinstance(x[1], tuple) and x[1][0] == 'attr' and \
                x[1][2] == 'reshape' and x[1][1] in ent.values():
            for k, e in ent.items():
                if e == x[1][1]:
                    wrapped[k] = x
    P = [x for x in subterms(v) if x[0] == 'call' and isinstance(x[1], tuple) and
         x[1][0] == 'attr' and x[1][2] == '_integrand_prefactor']
    cs = [x for x in subterms(v) if x[0] == 'call' and x[1] == 'numpy.cos']
    sn = [x for x in subterms(v) if x[0] == 'call' and x[1] == 'numpy.sin']
    # one azimuth, however it is spelled: unify the spellings before comparing
    cz = Canon(trig=False)
    if cs and sn and all(len(x[2]) == 1 and cz.equal(x[2][0], cs[0][2][0])
                         for x in cs + sn):
        rep = {x: cs[0] for x in cs[1:]}
        rep.update({x: intern(('call', 'numpy.sin', cs[0][2], ())) for x in sn})
        v = c05.subst(v, rep)
        sn = [intern(('call', 'numpy.sin', cs[0][2], ()))]
        cs = cs[:1]
    if set(wrapped) != {(0, 0), (0, 1), (1, 0), (1, 1)} or len(P) != 1 or \
            len(cs) != 1 or len(sn) != 1 or cs[0][2] != sn[0][2]:
        check.bad('V5-amplitude-matrix', 'Lens._compute_integrand',
                  'cannot identify the four matrix entries / the prefactor / one '
                  'azimuth: entries %s' % sorted(wrapped), loc)
        return
    bases = {e[1] for e in ent.values()}
    env = {'P': P[0], 'c': cs[0], 's': sn[0]}
    for (i, j), x in wrapped.items():
        env['A%d%d' % (i, j)] = x
    wl = expr_term(prog, 'P * (c * (A00 * c + A01 * s) + s * (A10 * c + A11 * s))', env)
    wr = expr_term(prog, 'P * (s * (A00 * c + A01 * s) - c * (A10 * c + A11 * s))', env)
    c0 = Canon(trig=False)
    okl, okr = c0.equal(v[1][0], wl), c0.equal(v[1][1], wr)
    check.require(okl and okr and len(bases) == 1, 'V5-amplitude-matrix',
                  'Lens._compute_integrand',
                  'l = P e.(A e), r = P e_perp.(A e) with A the inner theory\'s 2x2 '
                  'matrices, e = (cos, sin), e_perp = (sin, -cos)', loc,
                  fail_detail='l %s the oracle, r %s the oracle: a matrix entry is read '
                  'from the wrong slot or an integrand mixes the components wrongly' % (
                      'equals' if okl else 'differs from',
                      'equals' if okr else 'differs from'))
    # the azimuth is measured from the polarisation direction
    ang = cs[0][2][0]
    from .common import as_difference
    df = as_difference(ang)
    okd = df is not None and df[0] == ('attr', me, '_phi_pts') and \
        df[1][0] == 'sym'
    check.require(okd, 'V5-amplitude-matrix', 'Lens integrand azimuth',
                  'azimuth = quadrature azimuth - polarisation angle', loc,
                  fail_detail='angle is %s' % show(ang)[:80])


def lens_wiring(check, prog):
    """Lens.raw_fields: every internal hand-off puts each value in the slot the
    callee declares (parallel integral -> parallel component, ...)."""
    def bind(q, args, kwargs):
        fdc = prog.func(q)
        nm = [a.arg for a in fdc.args.args][1:]
        b = dict(zip(nm, args))
        b.update(dict(kwargs))
        return b
    q = LENS + '.raw_fields'
    fd = prog.func(q)
    loc = prog.loc(q, fd)
    P = {a.arg: sym(a.arg) for a in fd.args.args}
    helpers = ['_compute_integral', '_transform_integral_from_lr_to_xyz',
               '_compute_field_phase']
    it = Interp(prog, max_depth=1, opaque=[LENS + '.' + h for h in helpers])
    res = it.analyze(q)
    pol = P['illum_polarization']
    ang = intern(('call', 'numpy.arctan2', (('idx', ('attr', pol, 'values'), num(1)),
                                            ('idx', ('attr', pol, 'values'), num(0))), ()))
    ci = [c for c in it.calls if c['name'] == LENS + '._compute_integral']
    tr = [c for c in it.calls if c['name'] == LENS + '._transform_integral_from_lr_to_xyz']
    ph = [c for c in it.calls if c['name'] == LENS + '._compute_field_phase']
    ok = len(ci) == 1 and len(tr) == 1 and len(ph) == 1
    detail = ''
    if ok:
        b = bind(LENS + '._compute_integral', ci[0]['args'][1:], ci[0]['kwargs'])
        ok = b == {'positions': P['positions'], 'scatterer': P['scatterer'],
                   'medium_wavevec': P['medium_wavevec'],
                   'medium_index': P['medium_index'], 'pol_angle': ang}
        detail = '_compute_integral(%s)' % ', '.join('%s=%s' % (k, show(x)[:30])
                                                     for k, x in b.items())
        if ok:
            # (the receiver as it is at the call: a refreshed quadrature shows)
            integ = intern(('call', ('attr', ci[0]['args'][0], '_compute_integral'),
                            tuple(ci[0]['args'][1:]), ()))
            b2 = bind(LENS + '._transform_integral_from_lr_to_xyz', tr[0]['args'][1:],
                      tr[0]['kwargs'])
            ok = b2 == {'prll_component': intern(('idx', integ, num(0))),
                        'perp_component': intern(('idx', integ, num(1))),
                        'pol_angle': ang}
            detail = '_transform_integral_from_lr_to_xyz(%s)' % ', '.join(
                '%s=%s' % (k, show(x)[:60]) for k, x in b2.items())
        if ok:
            b3 = bind(LENS + '._compute_field_phase', ph[0]['args'][1:], ph[0]['kwargs'])
            ok = set(b3) == {'particle_kz'} and \
                b3['particle_kz'] in _kz_forms(P['positions'])
            detail = '_compute_field_phase(%s)' % show(b3.get('particle_kz'))[:60]
    check.require(ok, 'V6-lens-wiring', 'Lens.raw_fields',
                  'polarisation angle = arctan2(p_y, p_x); the parallel / perpendicular '
                  'integrals go to the parallel / perpendicular slots of the '
                  'recombination; the phase uses the particle\'s kz', loc,
                  fail_detail=detail)
    q = LENS + '._compute_integral'
    fd = prog.func(q)
    it = Interp(prog, max_depth=1, opaque=[LENS + '._compute_integrand'])
    res = it.analyze(q)
    v = res.ret
    ig = [c for c in it.calls if c['name'] == LENS + '._compute_integrand']
    ok = len(ig) == 1 and v[0] == 'tuple' and len(v[1]) == 2
    if ok:
        P2 = [sym(a.arg) for a in fd.args.args]
        # (the receiver as it is at the call: a quadrature refreshed here shows)
        ok = tuple(ig[0]['args'][1:]) == tuple(P2[1:])
        call = intern(('call', ('attr', ig[0]['args'][0], '_compute_integrand'),
                       tuple(P2[1:]), ()))
        for i in (0, 1):
            x = v[1][i]
            ok = ok and x[0] == 'call' and x[1] == 'numpy.sum' and \
                x[2] == (('idx', call, num(i)),) and \
                kw(x, 'axis') == ('tuple', (num(0), num(1)))
    check.require(ok, 'V6-lens-wiring', 'Lens._compute_integral',
                  'each integrand is summed over the two quadrature axes; parallel '
                  'first, perpendicular second', prog.loc(q, fd),
                  fail_detail='returns %s' % show(v)[:160])
    q = LENS + '._compute_integrand'
    fd = prog.func(q)
    inner = ['_integrand_prefactor', '_calc_scattering_matrix', '_integrand_prll',
             '_integrand_perp']
    it = Interp(prog, max_depth=1, opaque=[LENS + '.' + h for h in inner])
    res = it.analyze(q)
    P3 = {a.arg: sym(a.arg) for a in fd.args.args}
    cm = [c for c in it.calls if c['name'] == LENS + '._calc_scattering_matrix']
    pf = [c for c in it.calls if c['name'] == LENS + '._integrand_prefactor']
    ok = len(cm) == 1 and len(pf) == 1
    if ok:
        b = bind(LENS + '._calc_scattering_matrix', cm[0]['args'][1:], cm[0]['kwargs'])
        ok = b == {'scatterer': P3['scatterer'], 'medium_wavevec': P3['medium_wavevec'],
                   'medium_index': P3['medium_index']}
        bp = bind(LENS + '._integrand_prefactor', pf[0]['args'][1:], pf[0]['kwargs'])
        pos = P3['positions']
        for i, nme in enumerate(('krho_p', 'phi_p', 'kz_p')):
            x = bp.get(nme)
            ok = ok and x is not None and any(
                y == ('idx', pos, num(i)) for y in subterms(x)) and not any(
                y[0] == 'idx' and y[1] == pos and y[2] != num(i) and y[2] != num(2)
                for y in subterms(x))
    for m in ('_integrand_prll', '_integrand_perp'):
        cc = [c for c in it.calls if c['name'] == LENS + '.' + m]
        ok = ok and len(cc) == 1
        if ok:
            a = cc[0]['args'][1:]
            ok = len(a) >= 2 and a[0][0] == 'call' and \
                a[0][1] == ('attr', P3['self'], '_integrand_prefactor') and \
                a[1] == P3['pol_angle'] and len(a) in (3, 6)
            if ok and len(a) == 6:
                ok = all(a[2 + k] == ('idx', ('call', ('attr', P3['self'],
                                                       '_calc_scattering_matrix'),
                                              tuple(cm[0]['args'][1:]), ()), num(k))
                         for k in range(4))
    check.require(ok, 'V6-lens-wiring', 'Lens._compute_integrand',
                  'prefactor(krho, phi, kz of the positions); scattering matrix of '
                  '(scatterer, wavevector, index); both integrands get (prefactor, '
                  'polarisation angle, S1..S4 in order)', prog.loc(q, fd))


def interpolation_windows(check, prog):
    MC = 'holopy.scattering.theory.mielensfunctions.MieLensCalculator'
    q = MC + '._interpolate_and_eval_mielens_i_n'
    fd = prog.func(q)
    loc = prog.loc(q, fd)
    me, krho, n_ = [sym(a.arg) for a in fd.args.args[:3]]
    it = Interp(prog, max_depth=1, inline_new=False)
    res = it.analyze(q)
    pc = [c for c in it.calls if c['name'].endswith('PiecewiseChebyshevApproximant')]
    ok = len(pc) == 1
    detail = '%d approximants built' % len(pc)
    if ok:
        fdp = prog.func('holopy.scattering.theory.mielensfunctions.'
                        'PiecewiseChebyshevApproximant.__init__')
        nm = [a.arg for a in fdp.args.args][1:]
        b = dict(zip(nm, pc[0]['args']))
        b.update(dict(pc[0]['kwargs']))
        ws = intern(('attr', me, 'interpolator_window_size'))
        bp = b.get('window_breakpoints')
        c0 = Canon()
        ok = bp is not None and bp[0] == 'bin' and bp[1] == '*' and ws in (bp[2], bp[3])
        detail = 'breakpoints %s' % (show(bp)[:160] if bp else None)
        if ok:
            ar = bp[3] if bp[2] == ws else bp[2]
            ok = ar[0] == 'call' and ar[1] == 'numpy.arange' and len(ar[2]) == 2 and \
                not ar[3]
            if ok:
                lo, hi = ar[2]
                kmin = intern(('call', ('attr', krho, 'min'), (), ()))
                kmax = intern(('call', ('attr', krho, 'max'), (), ()))
                oklo = lo == ('call', 'numpy.floor', (('bin', '/', kmin, ws),), ())
                # hi = ceil(max/ws [+ eps]) + k with k >= 1: the last breakpoint lies
                # beyond the largest krho
                okhi = hi[0] == 'bin' and hi[1] == '+' and hi[3][0] == 'num' and \
                    hi[3][1] >= 1 and hi[2][0] == 'call' and hi[2][1] == 'numpy.ceil' and \
                    any(x == ('bin', '/', kmax, ws) for x in subterms(hi[2]))
                ok = oklo and okhi
        okd = b.get('degree') == ('attr', me, 'interpolator_degree')
        fn = b.get('function')
        okf = fn is not None and fn[0] == 'closure'
        if okf:
            node_c, cenv, cframe = it.closures[fn[1]]
            from hpstatic.interp import Frame
            fr = Frame(cframe.module, cframe.owner, cframe.selfcls, cframe.selfname, 0,
                       q + '.<f>')
            xx = sym('X')
            val = it.inline_closure(node_c, cenv, cframe, [xx], {}, fr, ())
            okf = val[0] == 'call' and \
                val[1] == ('attr', me, '_direct_eval_mielens_i_n') and \
                method_term_args(prog, MLF + 'MieLensCalculator', val) == {
                    'krho': xx, 'n': n_}
        ok = ok and okd and okf
    check.require(ok, 'V7-interpolation-windows', 'MieLensCalculator interpolation',
                  'windows of width interpolator_window_size from floor(min krho / w) '
                  'to beyond max krho; degree = interpolator_degree; the function '
                  'interpolated is the direct evaluation of the same order', loc,
                  fail_detail=detail + ': windows wider than the configured size are '
                  'not resolved by the fixed-degree interpolant, so interpolated and '
                  'direct evaluation differ')
    v = res.ret
    ok2 = v[0] == 'call' and v[1][0] == 'new' and v[2] == (krho,)
    check.require(ok2, 'V7-interpolation-windows', 'MieLensCalculator interpolation call',
                  'the approximant is evaluated at the requested krho', loc)
