"""C09  Sphere clusters: default-theory rule; 'auto' == naming the theory.

Decides from the source:
  Q1  the decision table of determine_default_theory_for and
      _choose_mie_vs_multisphere is the documented rule, in order:
        Sphere -> Mie; Spheres -> (1 member -> Mie; unset centre/radius ->
        InvalidScatterer; layered -> Mie; max separation <= 30 * max radius ->
        Multisphere else Mie); Spheroid | Cylinder -> Tmatrix; any other
        Scatterer -> DDA; otherwise AutoTheoryFailed;
      no guard is shadowed by an earlier one (class table);
  Q2  max separation is the maximum over *all* pairs of centre distances and
      max radius the maximum radius (order independent);
  Q3  'auto' is resolved per call from the scatterer passed in (no memoised
      state), and every table action is a zero-argument construction -- exactly
      what interpret_theory does for a theory class; DDA reports a missing
      dependency on the failure path of its probe;
  Q4  Multisphere's polarisation-dependent scattering cross section
      interpolates its own three reference polarisations: at gamma = 0, pi/2,
      pi/4 it returns the 0, 90 and 45 degree sums (rotation covariance of the
      reported cross sections).
Not decided: order independence / rotation covariance / one-sphere limit of the
SCSMFO solution itself (compiled code).
"""
import ast

from hpstatic.interp import Interp, expr_term
from hpstatic.loader import AnalysisError
from hpstatic.poly import Canon
from hpstatic.terms import (sym, intern, show, subterms, calls_in, NONE, num, kw)
from hpstatic.xrnorm import atom_rewrite
from . import c01
from .c05 import subst
from .common import as_difference, path_has, norm_cond

MUTATION_TARGETS = {'holopy/scattering/interface.py': ['determine_default_theory_for', '_choose_mie_vs_multisphere', 'interpret_theory'], 'holopy/scattering/theory/multisphere.py': ['_calc_cscat']}

LEVEL = 'other'
META = dict(
    claimed=True,
    technique='decision-table extraction from the if/elif chains (ordered guard -> '
              'action) compared with the documented table; subclass-shadowing test; '
              'canonical-form check of the separation measure and of the '
              'polarisation interpolation formula; shared-state effect analysis'
              '; class-wise truth tables over every scatterer class with the document'
              'ed shape of each class as the oracle; sign-sensitivity walk of the '
              'raising guards of _scsmfo_setup (ordering tests on the centres go '
              'through an even function)',
    level_text='Static: Q1-Q3 decide the default-theory clause exhaustively (the '
               'dispatch is a finite table) and that "auto" cannot differ from '
               'naming the theory; Q4 is an algebraic identity of the cross-section '
               'formula.  Properties of the SCSMFO solution itself are not decided.',
    level_note='Trusted: isinstance semantics; numpy broadcasting of '
               'reshape(1,-1,3) - reshape(-1,1,3) enumerates all ordered pairs.',
)

I = 'holopy.scattering.interface.'
SC = 'holopy.scattering.scatterer.'
TH = 'holopy.scattering.theory.'


def table_of(t):
    """ordered (guard, action) list of an if/elif value chain"""
    rows = []
    while t[0] == 'ite':
        rows.append((t[1], t[2]))
        t = t[3]
    rows.append((None, t))
    return rows


def classes_in_guard(g):
    out = []
    for x in subterms(g):
        if x[0] == 'call' and x[1] == 'isinstance' and x[2][1][0] == 'classref':
            out.append(x[2][1][1])
    return out


def run(check, prog):
    check.explanation = (
        'The two dispatch functions are evaluated into nested conditionals, read off '
        'as ordered decision tables and compared with the documented rule.')
    q = I + 'determine_default_theory_for'
    fd = prog.func(q)
    loc = prog.loc(q, fd)
    it = Interp(prog, max_depth=1, opaque=[I + '_choose_mie_vs_multisphere'],
                inline_new=False)
    res = it.analyze(q)
    # read the function as a truth table: for every scatterer class of the package
    # (and for a non-scatterer) the isinstance tests have definite answers, which
    # select one leaf; the leaf must be the documented theory.  Re-arranging the
    # chain (early returns, merged isinstance tuples) does not change this table;
    # testing a base class before its subclass does.
    from hpstatic.logic import select
    v = res.ret_with_raises
    sc_ = sym(fd.args.args[0].arg)
    SPH, SPHS = SC + 'sphere.Sphere', SC + 'spherecluster.Spheres'
    SPHD, CYL = SC + 'spheroid.Spheroid', SC + 'cylinder.Cylinder'
    BASE = SC + 'scatterer.Scatterer'
    classes = sorted(prog.subclasses(BASE)) + [None]
    nrow = 0
    bad = []
    # the documented rule names shapes, not a position in the class hierarchy:
    # which *shape* each class of the package is, is part of the oracle (the class
    # hierarchy only evaluates the isinstance tests).  A Janus or coated particle
    # that happens to inherit from Sphere is still "any other shape".
    DOC_MIE = {'Sphere', 'LayeredSphere'}
    DOC_CLUSTER = {'Spheres', 'RigidCluster'}
    DOC_TMATRIX = {'Spheroid', 'Cylinder'}
    for C in classes:
        def hyp(t, C=C):
            if t[0] == 'call' and t[1] == 'isinstance' and len(t[2]) == 2 and \
                    t[2][0] == sc_:
                ks = t[2][1][1] if t[2][1][0] == 'tuple' else (t[2][1],)
                if all(k[0] == 'classref' for k in ks):
                    return C is not None and any(prog.is_subclass(C, k[1]) for k in ks)
                return None
            if t[0] == 'call' and isinstance(t[1], tuple) and t[1][0] == 'attr' and \
                    t[1][2] == 'can_handle' and 'DDA' in show(t[1][1]):
                return C is not None      # DDA accepts any Scatterer (checked below)
            if t[0] == 'call' and t[1] == TH + 'dda.DDA.can_handle':
                return C is not None
            return None
        leaf = select(v, hyp)
        nrow += 1
        if C is None:
            want_txt = 'AutoTheoryFailed'
            ok_ = leaf is not None and leaf[0] == 'raise' and \
                'AutoTheoryFailed' in show(leaf)
        elif C.rpartition('.')[2] in DOC_MIE:
            want_txt = 'Mie()'
            ok_ = leaf == ('new', TH + 'mie.Mie', (), ())
        elif C.rpartition('.')[2] in DOC_CLUSTER:
            want_txt = '_choose_mie_vs_multisphere(scatterer)'
            ok_ = leaf == ('call', I + '_choose_mie_vs_multisphere', (sc_,), ())
        elif C.rpartition('.')[2] in DOC_TMATRIX:
            want_txt = 'Tmatrix()'
            ok_ = leaf == ('new', TH + 'tmatrix.Tmatrix', (), ())
        else:
            want_txt = 'DDA()'
            ok_ = leaf == ('new', TH + 'dda.DDA', (), ())
        if not ok_:
            bad.append('%s -> %s (documented: %s)' % (
                C.rpartition('.')[2] if C else 'a non-scatterer',
                show(leaf)[:60] if leaf else 'undecided', want_txt))
    check.floor('scatterer classes in the default-theory table', nrow, 15)
    check.require(not bad, 'Q1-default-theory-table', 'determine_default_theory_for',
                  'Sphere (and subclasses) -> Mie; Spheres -> Mie or Multisphere by '
                  'separation; Spheroid, Cylinder -> Tmatrix; any other scatterer -> DDA; '
                  'anything else -> AutoTheoryFailed (%d classes)' % nrow, loc,
                  fail_detail='; '.join(bad[:4]))
    # Mie.can_handle: the single-sphere series is applied to spheres only (a class
    # that merely inherits from Sphere is computed as a concentric sphere, silently)
    from hpstatic.logic import eval3
    from .common import isinstance_value
    qm = TH + 'mie.Mie.can_handle'
    fdm = prog.func(qm)
    rm = Interp(prog, max_depth=1).analyze(qm)
    subj = sym(fdm.args.args[1].arg)
    wrong = []
    for C in classes:
        acc = eval3(rm.ret, lambda t, C=C: isinstance_value(prog, t, subj, C))
        name = C.rpartition('.')[2] if C else 'a non-scatterer'
        if acc is None or acc != (name in DOC_MIE):
            wrong.append('%s: %s' % (name, acc))
    check.require(not wrong, 'Q1-default-theory-table', 'Mie.can_handle',
                  'Mie accepts exactly %s' % sorted(DOC_MIE), prog.loc(qm, fdm),
                  fail_detail='can_handle gives ' + '; '.join(wrong[:4]))
    # DDA.can_handle
    q2 = TH + 'dda.DDA.can_handle'
    it2 = Interp(prog, max_depth=1)
    r2 = it2.analyze(q2)
    ok = r2.ret == ('call', 'isinstance', (sym('scatterer'),
                                           ('classref', SC + 'scatterer.Scatterer')), ())
    check.require(ok, 'Q1-default-theory-table', 'DDA.can_handle',
                  'DDA accepts any Scatterer', prog.loc(q2, prog.func(q2)))
    cluster(check, prog)
    auto(check, prog)
    refusals_symmetric(check, prog)
    cscat_interpolation(check, prog)
    work_array_regions(check, prog)
    co_indexed(check, prog)
    # the one-sphere cluster's four cross-section numbers against the single
    # sphere's: each slot of raw_cross_sections is the quantity it is named for
    # (rule shared with C03)
    from . import c03 as _c03
    from hpstatic.poly import Canon as _Canon
    from hpstatic.xrnorm import atom_rewrite as _ar
    _c03.multisphere(check, prog, _Canon(atom_rewrite=_ar))
    # a one-sphere cluster equals the single-sphere series only while the compiled
    # expansion can hold it (rule shared with C02)
    from . import c02 as _c02
    _c02.cluster_order_cap(check, prog)
    _c02.series_exit(check, prog)       # one-sphere cluster = single-sphere solution
    _c02.psi_product_start(check, prog)
    # ... and returns numbers at all, whatever ran before (no read of a never-written
    # stack word in the compiled routines)
    _c02.work_arrays_defined(check, prog)
    _c02.status_examined(check, prog)


def refusals_symmetric(check, prog):
    """Q7: what Multisphere refuses does not depend on where the cluster is turned
    to.  The size guards of `_scsmfo_setup` compare coordinates relative to the
    centroid with a bound; a cluster turned by pi about the optical axis has these
    coordinates with the opposite sign, so a comparison of signed coordinates with
    a positive bound refuses a cluster and computes its mirror image.  Every
    ordering test of a raising guard whose operand is built from the members'
    centres takes an absolute value, a norm or an even power of it."""
    import ast
    q = 'holopy.scattering.theory.multisphere.Multisphere._scsmfo_setup'
    fd = prog.func(q)
    loc = prog.loc(q, fd)
    # names that hold signed centre coordinates: assigned from an expression that
    # reads `.centers` / `.center` without an even function around it
    EVEN = ('abs', 'norm', 'hypot', 'square', 'cartesian_distance', 'fabs', 'absolute')

    def reads_centres(e, names):
        for n in ast.walk(e):
            if isinstance(n, ast.Attribute) and n.attr in ('centers', 'center'):
                return True
            if isinstance(n, ast.Name) and n.id in names:
                return True
        return False

    def signed(e, names):
        # is there a path from the root of e to a centre read that passes no even
        # function?
        if isinstance(e, ast.Call):
            f = e.func
            nm = f.attr if isinstance(f, ast.Attribute) else getattr(f, 'id', '')
            if nm in EVEN:
                return False
            return any(signed(a, names) for a in list(e.args) +
                       [k.value for k in e.keywords]) or (
                isinstance(f, ast.Attribute) and signed(f.value, names))
        if isinstance(e, ast.BinOp) and isinstance(e.op, ast.Pow) and \
                isinstance(e.right, ast.Constant) and e.right.value in (2, 4):
            return False
        if isinstance(e, ast.Attribute) and e.attr in ('centers', 'center'):
            return True
        if isinstance(e, ast.Name):
            return e.id in names
        return any(signed(c, names) for c in ast.iter_child_nodes(e)
                   if isinstance(c, ast.expr))
    names = set()
    for st in ast.walk(fd):
        if isinstance(st, ast.Assign) and len(st.targets) == 1 and \
                isinstance(st.targets[0], ast.Name) and signed(st.value, names):
            names.add(st.targets[0].id)
    n = 0
    for st in ast.walk(fd):
        if isinstance(st, ast.If) and any(isinstance(x, ast.Raise) for b in st.body
                                          for x in ast.walk(b)):
            for c in ast.walk(st.test):
                if isinstance(c, ast.Compare) and len(c.ops) == 1 and \
                        isinstance(c.ops[0], (ast.Gt, ast.GtE, ast.Lt, ast.LtE)) and \
                        reads_centres(c, names):
                    n += 1
                    bad = signed(c.left, names) or signed(c.comparators[0], names)
                    check.require(not bad, 'Q7-refusal-symmetric',
                                  '_scsmfo_setup guard ' + ast.unparse(c)[:50],
                                  'the refusal looks at magnitudes', '%s:%d' % (
                                      loc.rpartition(':')[0], c.lineno),
                                  fail_detail='`%s` compares signed centroid-relative '
                                  'coordinates: a far sphere at +x is refused, the '
                                  'same cluster turned by pi (far sphere at -x) is '
                                  'computed' % ast.unparse(c)[:60])
    check.floor('ordering guards on the members\' centres in _scsmfo_setup', n, 1)


def cluster(check, prog):
    q = I + '_choose_mie_vs_multisphere'
    fd = prog.func(q)
    loc = prog.loc(q, fd)
    it = Interp(prog, max_depth=1, inline_new=False)
    res = it.analyze(q)
    rows = table_of(res.ret)
    sp = intern(('attr', sym('spheres'), 'scatterers'))
    ok = len(rows) == 4
    if ok:
        (g0, a0), (g1, a1), (g2, a2), (g3, a3) = rows
        ok0 = g0 == ('cmp', '==', ('call', 'len', (sp,), ()), num(1)) and \
            a0[0] == 'new' and a0[1] == TH + 'mie.Mie'
        ok1 = g1[0] == 'call' and g1[1] == 'any' and \
            any(x[0] == 'un' and x[1] == 'not' and x[2][0] == 'call' and
                x[2][1] == 'numpy.isscalar' and x[2][2] and x[2][2][0][0] == 'attr'
                and x[2][2][0][2] == 'r' for x in subterms(g1)) and \
            a1[0] == 'new' and a1[1] == TH + 'mie.Mie'
        ok2 = g2[0] == 'cmp' and g2[1] == '<=' and a2[0] == 'new' and \
            a2[1] == TH + 'multisphere.Multisphere' and a3[0] == 'new' and \
            a3[1] == TH + 'mie.Mie'
        check.require(ok0, 'Q1-cluster-table', 'one member', '-> Mie', loc,
                      fail_detail='row is (%s -> %s)' % (show(g0)[:80], show(a0)[:40]))
        check.require(ok1, 'Q1-cluster-table', 'layered member', '-> Mie', loc,
                      fail_detail='row is (%s -> %s)' % (show(g1)[:120], show(a1)[:40]))
        check.require(ok2, 'Q1-cluster-table', 'separation test',
                      'within range -> Multisphere, otherwise Mie', loc,
                      fail_detail='rows are (%s -> %s), else %s' % (
                          show(g2)[:120], show(a2)[:40], show(a3)[:40]))
        if ok2:
            lhs, rhs = g2[2], g2[3]
            canon = Canon()
            cen = [x for x in subterms(lhs) if x[0] == 'call' and x[1] == 'numpy.array'
                   and x[2] and x[2][0][0] == 'comp']
            okq = bool(cen)
            if okq:
                C = cen[0]
                comp = C[2][0]
                okq = comp[3][0][1] == sp and comp[2] == ('attr', comp[3][0][0], 'center')
                # max over axis-2 norms of (row-broadcast C) - (column-broadcast C);
                # the two operands may come in either order (|a-b| = |b-a|) and the
                # difference may be spelled a + (-b)
                ra = expr_term(prog, 'C.reshape(1, -1, 3)', {'C': C})
                rb = expr_term(prog, 'C.reshape(-1, 1, 3)', {'C': C})
                nm = [x for x in subterms(lhs) if x[0] == 'call' and
                      x[1] == 'numpy.linalg.norm']
                okq = okq and len(nm) == 1 and kw(nm[0], 'axis') == num(2) and \
                    len(nm[0][2]) == 1
                if okq:
                    df = as_difference(nm[0][2][0])
                    okq = df is not None and {df[0], df[1]} == {ra, rb}
                    okq = okq and lhs in (
                        expr_term(prog, 'N.max()', {'N': nm[0]}),
                        expr_term(prog, 'np.max(N)', {'N': nm[0]}))
            check.require(okq, 'Q2-all-pairs-separation', 'max_separation',
                          'maximum over all pairs of member-centre distances', loc,
                          fail_detail='separation measure is %s: not the maximum '
                          'pairwise distance (e.g. distances from the first-listed '
                          'sphere depend on the order of the spheres)' % show(lhs)[:200])
            mr = [x for x in subterms(rhs) if x[0] == 'call' and x[1] == 'max']
            okr = bool(mr) and mr[0][2][0][0] == 'comp' and \
                mr[0][2][0][3][0][1] == sp and \
                mr[0][2][0][2] == ('attr', mr[0][2][0][3][0][0], 'r')
            okr = okr and canon.equal(rhs, intern(('bin', '*', num(30), mr[0])))
            check.require(okr, 'Q2-thirty-radii', 'threshold',
                          '30 * (largest member radius)', loc,
                          fail_detail='threshold is %s' % show(rhs)[:120])
    else:
        check.bad('Q1-cluster-table', '_choose_mie_vs_multisphere',
                  'expected 4 rows, found %d' % len(rows), loc)
    inv = [o for o in res.raises if 'InvalidScatterer' in show(o.value)]
    ok = len(inv) == 1
    if ok:
        conds = inv[0].cond
        ok = conds[0] == (('cmp', '==', ('call', 'len', (sp,), ()), num(1)), False) and \
            len(conds) == 2 and conds[1][1] and conds[1][0][0] == 'call' and \
            conds[1][0][1] == 'any' and \
            any(x[0] == 'cmp' and x[1] == 'is' and x[3] == NONE for x in subterms(conds[1][0]))
    check.require(ok, 'Q1-cluster-table', 'unset centre or radius',
                  'more than one member and an unset centre/radius -> InvalidScatterer '
                  '(tested after the one-member row)', loc)


def auto(check, prog):
    q = I + 'interpret_theory'
    fd = prog.func(q)
    loc = prog.loc(q, fd)
    it = Interp(prog, max_depth=1, opaque=[I + 'determine_default_theory_for'],
                inline_new=False)
    res = it.analyze(q)
    v = res.ret
    d = intern(('call', I + 'determine_default_theory_for', (sym('scatterer'),), ()))
    is_auto = None
    for x in subterms(v):
        if x[0] == 'ite' and x[2] == d and x[3] == sym('theory'):
            is_auto = x
    ok = is_auto is not None
    if ok:
        c = is_auto[1]
        ok = any(y == ('cmp', '==', sym('theory'), ('const', 'auto')) for y in subterms(c))
    check.require(ok, 'Q3-auto-resolved-per-call', 'interpret_theory',
                  "'auto' -> determine_default_theory_for(scatterer), evaluated for the "
                  'scatterer passed in', loc,
                  fail_detail='interpret_theory returns %s: the default theory is not '
                  'computed from this call\'s scatterer' % show(v)[:240])
    inst = [x for x in subterms(v) if x[0] == 'call' and not x[2] and not x[3] and
            (x[1] == sym('theory') or x[1] == is_auto or (
                is_auto is not None and x[1] == is_auto))]
    ok2 = any(x[0] == 'ite' and x[1][0] == 'call' and x[1][1] == 'isinstance' and
              'SerializableMetaclass' in show(x[1][2][1]) for x in subterms(v))
    check.require(ok2, 'Q3-auto-equals-explicit', 'interpret_theory classes',
                  'a theory class is instantiated with no arguments (the same '
                  'construction the default-theory table uses)', loc)
    model_default_theory(check, prog)
    # no memoised state anywhere on the calc_* paths
    c01.f5_state(check, prog)
    # DDA probe failure -> DependencyMissing
    q = TH + 'dda.DDA.__init__'
    it = Interp(prog, max_depth=1)
    res = it.analyze(q)
    ok = any('DependencyMissing' in show(o.value) and any(t[0] == 'exc' and pol
                                                         for t, pol in o.cond)
             for o in res.raises)
    check.require(ok, 'Q3-dda-missing-dependency', 'DDA.__init__',
                  'a failing `adda -V` probe raises DependencyMissing',
                  prog.loc(q, prog.func(q)))


def model_default_theory(check, prog):
    """Q3 for models: a model that is given no theory resolves the default theory
    with the same table -- which looks at radii and separations -- so it must be
    resolved on a scatterer that carries the values, not on the model's template
    in which every value has been replaced by a placeholder."""
    MQ = 'holopy.inference.model.Model'
    q = MQ + '.__init__'
    fd = prog.func(q)
    loc = prog.loc(q, fd)
    it = Interp(prog, max_depth=1, inline_new=False, opaque=[
        I + 'interpret_theory', MQ + '._create_dummy_scatterer'])
    it.analyze(q)
    calls = [c for c in it.calls if c['name'] == I + 'interpret_theory']
    check.need('interpret_theory calls in Model.__init__', len(calls), 1,
               'Q3-model-default-theory', 'Model.__init__ resolves the theory',
               'the theory argument (a name, a class, an instance or \'auto\') is '
               'resolved at construction', loc)
    if not calls:
        return
    from .common import call_args
    arg = call_args(prog, calls[0]).get('scatterer')
    through_template = arg is not None and any(
        x[0] == 'call' and (x[1] == MQ + '._create_dummy_scatterer' or (
            isinstance(x[1], tuple) and x[1][0] == 'attr' and
            x[1][2] == '_create_dummy_scatterer')) for x in subterms(arg))
    placeholder = False
    if through_template:
        qd = MQ + '._create_dummy_scatterer'
        itd = Interp(prog, max_depth=1, inline_new=False)
        itd.analyze(qd)
        stores = [e for e in itd.effects if e['kind'] == 'setitem']
        # every stored value is a literal (or a list of literals): the values of
        # the user's scatterer do not reach the template
        def literal(t):
            if t[0] in ('num', 'const'):
                return True
            if t[0] in ('list', 'tuple'):
                return all(literal(x) for x in t[1])
            if t[0] == 'comp':
                return literal(t[2])
            return False
        placeholder = bool(stores) and all(literal(e['value']) for e in stores)
    check.require(not placeholder, 'Q3-model-default-theory', 'Model.__init__',
                  'the default theory of a model is chosen on a scatterer that has '
                  'the radii and positions the table looks at', loc,
                  fail_detail='Model.__init__ resolves theory=\'auto\' on '
                  '_create_dummy_scatterer(scatterer), in which every value is 0: '
                  'the 30-radius rule sees zero separation, so a model of two '
                  'spheres 40 radii apart computes with Multisphere where '
                  'calc_holo(theory=\'auto\') on the same spheres uses Mie '
                  'superposition (holograms 9.7 % apart)')


def cscat_interpolation(check, prog):
    q = TH + 'multisphere.Multisphere._calc_cscat'
    fd = prog.func(q)
    loc = prog.loc(q, fd)

    def decide(t):
        if t == ('cmp', 'is', sym('amn'), NONE):
            return False
        return None
    it = Interp(prog, max_depth=1, decide=decide, opaque=[
        TH + 'multisphere.normalize_polarization'])
    res = it.analyze(q)
    v = res.ret
    canon = Canon(atom_rewrite=atom_rewrite)
    coss = [x for x in subterms(v) if x[0] == 'call' and x[1] == 'numpy.cos']
    sins = [x for x in subterms(v) if x[0] == 'call' and x[1] == 'numpy.sin']
    if len(coss) != 1 or len(sins) != 1:
        check.error('_calc_cscat: expected one cos(2 gamma) and one sin(2 gamma) factor, '
                    'found %d and %d' % (len(coss), len(sins)))
        return
    C, S = coss[0], sins[0]
    amn = sym('amn')
    env = {'amn': amn, 'k': sym('medium_wavevec')}
    K = '4. * np.pi / k**2'
    refs = {
        '0 degrees': ((num(1), num(0)),
                      '(np.abs(amn[:,:,0] + amn[:,:,1])**2).sum() * ' + K),
        '90 degrees': ((num(-1), num(0)),
                       '(np.abs(amn[:,:,0] - amn[:,:,1])**2).sum() * ' + K),
        '45 degrees': ((num(0), num(1)),
                       '(np.abs(amn[:,:,0] - 1.j * amn[:,:,1])**2).sum() * ' + K),
    }
    for name, ((c, s), src) in refs.items():
        got = subst(v, {C: c, S: s})
        want = expr_term(prog, src, env)
        check.require(canon.equal(got, want), 'Q4-polarisation-interpolation',
                      '_calc_cscat at ' + name,
                      'returns the reference sum for that polarisation', loc,
                      fail_detail='with cos(2g), sin(2g) = (%s, %s) the formula gives %s, '
                      'not the %s reference sum %s' % (
                          show(c), show(s), canon.show(got)[:160], name,
                          canon.show(want)[:120]))
    # gamma is the polarisation angle arctan2(pol[1], pol[0])
    a = C[2][0]
    ok = canon.equal(a, intern(('bin', '*', num(2), (
        'call', 'numpy.arctan2', (('idx', ('call', TH + 'multisphere.normalize_polarization',
                                           (sym('illum_polarization'),), ()), num(1)),
                                  ('idx', ('call', TH + 'multisphere.normalize_polarization',
                                           (sym('illum_polarization'),), ()), num(0))), ()))))
    ok = ok and canon.equal(S[2][0], a)
    check.require(ok, 'Q4-polarisation-interpolation', '_calc_cscat gamma',
                  'cos and sin are both taken of 2*gamma, gamma = arctan2(pol_y, pol_x) '
                  'of the normalised polarisation', loc,
                  fail_detail='angles are %s and %s' % (show(a)[:120],
                                                        show(S[2][0])[:120]))


def work_array_regions(check, prog):
    """Q6: order independence inside the compiled cluster solver.  VCTRAN (the
    translation of one sphere's expansion to another sphere's origin) unpacks the
    packed translation matrix into the local work array AMNL before using it.
    Local arrays of that size have static storage: an element that is read but
    was not written in the same call still holds what an earlier call -- for
    another pair of spheres -- left there, and the result then depends on the
    order in which the pairs are visited, i.e. on the order of the sphere list.

    The rule is an array-region check on the Fortran source: every reference
    AMNL(c, i, d) is reduced to the pair (bound of i, bound of the order index d
    is built from: d = x(x+1) +- m); each pair that is read must be covered by a
    pair that is written, where nmax = max(nodrj, nodri) covers both orders."""
    import os, re
    from hpstatic.fortran import FortranProgram
    rel = 'holopy/scattering/theory/mie_f/scsmfo_min.for'
    fp = FortranProgram(prog.root, [rel])
    u = fp.units.get('VCTRAN')
    if u is None:
        check.error('VCTRAN not found in %s' % rel)
        return
    ARR = 'amnl'
    do_re = re.compile(r'^do\s+(\d+\s+)?(\w+)\s*=\s*([^,]+),([^,]+)(,.+)?$')
    defs = {}
    for line, text in u.stmts:
        m = re.match(r'^(\w+)\s*=\s*(.+)$', text)
        if m and not text.startswith('do '):
            defs.setdefault(m.group(1), []).append(m.group(2).replace(' ', ''))

    def order_var(name, seen=()):
        """x such that `name` is x or x*(x+1) +- something"""
        if name in seen:
            return None
        out = set()
        for rhs in defs.get(name, []):
            m = re.match(r'^(\w+)\*\(\1\+1\)([+-]\w+)?$', rhs)
            if m:
                out.add(m.group(1))
                continue
            m = re.match(r'^(\w+)([+-])(\w+)$', rhs)
            if m:
                v = order_var(m.group(1), seen + (name,))
                if v:
                    out.add(v)
                    continue
            return None
        return next(iter(out)) if len(out) == 1 else None
    stack = []
    refs = []
    ref_re = re.compile(r'\b' + ARR + r'\(([^()]*)\)')
    for line, text in u.stmts:
        t = text.strip()
        m = do_re.match(t)
        if m:
            if m.group(1):
                check.error('VCTRAN: labelled DO loop at line %d; region analysis '
                            'handles DO ... ENDDO only' % line)
                return
            stack.append((m.group(2), m.group(4).replace(' ', '')))
            continue
        if t in ('enddo', 'end do'):
            if stack:
                stack.pop()
            continue
        if re.match(r'^(complex|real|integer|double|dimension|parameter|implicit)', t):
            continue
        lhs = t.split('=', 1)[0] if '=' in t and not t.startswith('if') else ''
        for mm in ref_re.finditer(t):
            subs = [x.strip() for x in mm.group(1).split(',')]
            if len(subs) != 3:
                continue
            bounds = dict(stack)
            i2 = subs[1]
            x3 = order_var(subs[2]) if subs[2] not in bounds else subs[2]
            if i2 not in bounds or x3 is None or x3 not in bounds:
                check.error('VCTRAN line %d: cannot reduce %s(%s) to loop bounds' % (
                    line, ARR, mm.group(1)))
                return
            is_write = mm.start() < len(lhs) and lhs.strip().startswith(ARR)
            refs.append((is_write, bounds[i2], bounds[x3], line))
    writes = sorted({(a, b) for w, a, b, l in refs if w})
    reads = sorted({(a, b, l) for w, a, b, l in refs if not w})
    check.floor('AMNL element stores in VCTRAN', sum(1 for r in refs if r[0]), 8)
    check.floor('AMNL element reads in VCTRAN', sum(1 for r in refs if not r[0]), 8)

    def covers(w, r):
        w, r = w.replace(' ', ''), r.replace(' ', '')
        if w == r:
            return True
        for rhs in defs.get(w, []):
            m = re.match(r'^max\((\w+),(\w+)\)$', rhs)
            if m and (covers(m.group(1), r) or covers(m.group(2), r)):
                return True
        m = re.match(r'^min\((\w+),(\w+)\)$', r)
        if m and (covers(w, m.group(1)) or covers(w, m.group(2))):
            return True
        for rhs in defs.get(r, []):
            m = re.match(r'^min\((\w+),(\w+)\)$', rhs)
            if m and (covers(w, m.group(1)) or covers(w, m.group(2))):
                return True
        return False
    done = set()
    for a, b, line in reads:
        if (a, b) in done:
            continue
        done.add((a, b))
        ok = any(covers(wa, a) and covers(wb, b) for wa, wb in writes)
        check.require(ok, 'Q6-work-array-filled', 'VCTRAN reads AMNL(_, <=%s, order<=%s)'
                      % (a, b),
                      'every element of the work array that is read was written in the '
                      'same call', '%s:%d' % (rel, line),
                      fail_detail='read over (%s, %s) but written only over %s: the '
                      'remaining elements hold what the previous call (another pair of '
                      'spheres) left in the static array -- with three or more spheres of '
                      'different expansion orders the solution depends on the order of '
                      'the sphere list (C_ext spread 8e-2, C_abs/C_ext = -9 %% for a '
                      'lossless trimer)' % (a, b, writes))


def co_indexed(check, prog):
    """Order independence needs the per-sphere arrays handed to the solver to be
    co-indexed: positions, relative indices and size parameters all come from the
    member list in one and the same order (any re-ordering applied to one must be
    applied to all)."""
    q = TH + 'multisphere.Multisphere._scsmfo_setup'
    fd = prog.func(q)
    loc = prog.loc(q, fd)
    sc = sym(fd.args.args[1].arg)

    def decide(t):
        if t[0] == 'call' and t[1] == 'isinstance' and t[2][0] == sc:
            return show(t[2][1]).endswith('Spheres')
        return None
    # the collection's per-member accessors (centers, n, n_real, r, ...) are
    # evaluated down to the member attribute they read
    it = Interp(prog, max_depth=2, decide=decide,
                opaque=['holopy.scattering.scatterer.spherecluster.Spheres.__init__'])
    it.types[sc] = prog.find_class('Spheres')
    it.analyze(q)
    am = [c for c in it.calls if c['name'].endswith('amncalc')]
    if len(am) != 1 or len(am[0]['args']) < 7:
        check.bad('Q5-co-indexed-arrays', 'Multisphere._scsmfo_setup',
                  'no single amncalc(inew, x, y, z, m_real, m_imag, sizes, ...) call', loc)
        return
    per_sphere = am[0]['args'][1:7]
    names = ['x', 'y', 'z', 'Re m', 'Im m', 'size parameter']
    want_src = ['center', 'center', 'center', 'n', 'n', 'r']

    def reorderings(t):
        out = set()
        for x in subterms(t):
            if x[0] == 'idx':
                k = x[2]
                plain = k[0] in ('num', 'slice', 'const') or (
                    k[0] == 'tuple' and all(y[0] in ('num', 'slice') for y in k[1]))
                if not plain:
                    out.add(k)
            if x[0] == 'call' and isinstance(x[1], str) and x[1].rpartition('.')[2] in (
                    'sort', 'argsort', 'sorted', 'flip', 'roll', 'take', 'permutation',
                    'shuffle', 'lexsort', 'unique'):
                out.add(x)
            if x[0] == 'call' and isinstance(x[1], tuple) and x[1][0] == 'attr' and \
                    x[1][2] in ('sort', 'argsort', 'take'):
                out.add(x)
        return frozenset(out)
    sigs = [reorderings(a) for a in per_sphere]
    srcs = []
    for a in per_sphere:
        at = {x[2] for x in subterms(a) if x[0] == 'attr' and x[1][0] == 'elem'}
        # the collection's own per-member properties: centers / n / r
        at |= {{'centers': 'center'}.get(x[2], x[2]) for x in subterms(a)
               if x[0] == 'attr' and x[1] == sc}
        srcs.append(at)
    ok_src = all(w in s_ for w, s_ in zip(want_src, srcs))
    ok = len(set(sigs)) == 1 and ok_src
    detail = ''
    if not ok:
        detail = '; '.join('%s: from %s, re-ordered by %s' % (
            n, sorted(s_), [show(k)[:60] for k in sg] or 'nothing')
            for n, s_, sg in zip(names, srcs, sigs))
    check.require(ok, 'Q5-co-indexed-arrays', 'Multisphere._scsmfo_setup',
                  'x, y, z, Re m, Im m and the size parameters are the members\' '
                  'centres, indices and radii in one common order', loc,
                  fail_detail=detail + ': the solver is handed spheres whose index '
                  'belongs to another sphere, so the result depends on the listing '
                  'order')
