"""C10  T-matrix scatterers: never abort the interpreter; argument hand-off.

E3: from every f2py entry point the Python wrappers call, the set of Fortran
program units reachable over CALL / function-reference edges; every
process-terminating statement (STOP, ERROR STOP, CALL EXIT/ABORT) in that set is
an obligation "excluded by a Python-side guard that dominates the call".  No
such guard exists today, so each reachable STOP is a finding, keyed by
file::unit::guard so that a new STOP (or a new path to one) is still reported.

E5/E6: Tmatrix._parse_args hands the solver the documented Mishchenko
arguments (equal-volume radius with RAT=1, EPS = horizontal/rotational axis,
NP=-1 spheroid / -2 cylinder, relative index split in real/imag parts, angles
in degrees), identically for Sphere(r=a) and Spheroid(r=(a, a)); every class
accepted by can_handle has a branch.
Not decided: equality with Mie, spin / axis-reversal symmetry, finiteness.
"""
import ast
import os
import re

from hpstatic.fortran import FortranProgram
from hpstatic.interp import Interp, expr_term
from hpstatic.loader import AnalysisError
from hpstatic.poly import Canon
from hpstatic.terms import sym, intern, show, subterms, num, is_num
from .common import THEORY, init_of

MUTATION_TARGETS = {'holopy/scattering/theory/tmatrix.py': ['_parse_args', '_run_tmat', 'can_handle', 'raw_fields', 'raw_scat_matrs']}

LEVEL = 'other'
META = dict(
    claimed=True,
    technique='Fortran call-graph reachability of process-terminating '
              'statements from the f2py entry points + symbolic conformance of '
              'the Python argument hand-off to the documented solver arguments'
              '; per-unit scan of the f2py entry routines for assigned persistent loc'
              'als and for the dominance of the solve call over the per-angle calls; '
              'symbolic 2 x 2 matrix algebra (modulo cos^2 + sin^2 = 1) of the sphere'
              ' limit through _run_tmat / raw_scat_matrs / raw_fields'
              "; sibling cross-check of the constructors' size guards against Sphere's, size guard of the hand-off evaluated per size (each size at zero and at infinity, the others in range); lens-integrand agreement and parity rules shared with C08 / C05; acceptance table evaluated with the uniformity tests as atoms (layered spheres refused by can_handle and by the hand-off); orientation hand-off per guard assignment: axis-direction equality modulo 360 (sign / half-turn forms) and interval evaluation with guard refinement against the solver; AMPL particle-frame azimuths from the two-argument arctangent (statement rule)'s angle range; failure-flag protocol of the compiled code (cleared on entry, tested after every call that may set it, raised in Python)",
    level_text='Exhaustive over the program units reachable from the f2py entry '
               'points (tmatrix_f: ampld; mie_f: every routine the wrappers '
               'call): every STOP / EXIT reachable from Python is enumerated and '
               'must be guarded or listed as a known finding; the hand-off '
               'formulas of Tmatrix._parse_args are compared, as canonical '
               'rational functions, with the documented Mishchenko arguments.  '
               'Decides the "never terminates the interpreter" clause as a '
               'reachability fact (an unreachable STOP cannot fire; a reachable '
               'unguarded one can) and the sphere == equal-axis-spheroid clause '
               'at the hand-off; does not decide numerical equality with Mie or '
               'the symmetry clauses.',
    level_note='Trusted: my fixed/free-form scanner (unit split, CALL and '
               'function-reference edges; it over-approximates reachability: an '
               'identifier followed by "(" that names a FUNCTION is an edge), '
               'meson.build input lists as the definition of what is linked.',
)

TM_DIR = 'holopy/scattering/theory/tmatrix_f'
MIE_DIR = 'holopy/scattering/theory/mie_f'
TMATRIX = 'holopy.scattering.theory.tmatrix.Tmatrix'


def meson_inputs(root, d):
    path = os.path.join(root, d, 'meson.build')
    with open(path) as f:
        txt = f.read()
    files = []
    for m in re.finditer(r"input\s*:\s*\[([^\]]*)\]", txt):
        for fn in re.findall(r"'([^']+)'", m.group(1)):
            if fn.lower().endswith(('.f', '.for', '.f90')) and fn not in files:
                files.append(fn)
    return [os.path.join(d, f) for f in files]


def python_entry_points(prog, modname_suffixes):
    """f2py routine names called from Python: attribute calls on the imported
    extension modules (mieangfuncs.X, scsmfo_min.X, uts_scsmfo.X) and names
    imported from them (ampld)."""
    out = {}
    for m in prog.modules.values():
        ext_locals = {}
        for local, imp in m.imports.items():
            if local == '*':
                continue
            if imp[0] == 'obj':
                full = imp[1] + '.' + imp[2]
                for suf in modname_suffixes:
                    if full.endswith('.' + suf):
                        ext_locals[local] = ('module', suf)
                    elif imp[1].endswith('.' + suf):
                        ext_locals[local] = ('routine', imp[2])
        if not ext_locals:
            continue
        for n in ast.walk(m.tree):
            if isinstance(n, ast.Call):
                f = n.func
                if isinstance(f, ast.Attribute) and isinstance(f.value, ast.Name) \
                        and ext_locals.get(f.value.id, ('', ''))[0] == 'module':
                    out.setdefault(f.attr.upper(), []).append(
                        '%s:%d' % (m.relpath, n.lineno))
                elif isinstance(f, ast.Name) and \
                        ext_locals.get(f.id, ('', ''))[0] == 'routine':
                    out.setdefault(ext_locals[f.id][1].upper(), []).append(
                        '%s:%d' % (m.relpath, n.lineno))
    return out


def run(check, prog):
    check.explanation = (
        'Fortran sources linked into the f2py extensions (from meson.build) are '
        'split into program units; reachability from the routines Python calls '
        'is computed over CALL and function-reference edges; every reachable '
        'STOP is an obligation.  Tmatrix._parse_args is evaluated symbolically '
        'for Sphere, Spheroid and Cylinder and compared with oracle formulas.')
    check.trusted += ['Fortran scanner (hpstatic/fortran.py)', 'meson.build inputs']
    root = prog.root
    stops(check, prog, root)
    failure_protocol(check, prog, root)
    angle_guard_agrees(check, prog, root)
    azimuth_quadrant(check, prog, root)
    handoff(check, prog)
    # "sphere == Lorenz-Mie" for every call, not only the first on a theory
    # object: no solver output may be remembered on the theory / module between
    # calculations (in-place rescaling of a remembered array compounds).  Shared
    # with C01.
    from . import c01, c05
    c01.f5_state(check, prog)
    c05.f2py_coordinate_roles(check, prog)
    # inside the lens wrapper the solver is asked for azimuths in [0, 2 pi): the
    # compiled code terminates the process on an angle out of range
    c05.phi_quadrature(check, prog)
    # a theory written for one polarisation refuses every other one (else the
    # sphere limit fails for the polarisations it lets through)
    c05.pin_exact(check, prog)
    # "both directly and when used inside the lens wrapper", "mirrors with the
    # geometry": the wrapper's integrands take the four amplitude-matrix entries
    # (S3, S4 are non-zero for a tilted spheroid or cylinder) the same way with
    # and without numexpr, and have the parity a mirrored particle needs
    # (rules shared with C08 and C05)
    from hpstatic.poly import Canon
    from . import c08
    c08.numexpr_agreement(check, prog, Canon())
    c08.amplitude_matrix(check, prog)
    c05.lens_rotation(check, prog, Canon(trig_expand=True))


def stops(check, prog, root):
    tm_files = meson_inputs(root, TM_DIR)
    mie_files = meson_inputs(root, MIE_DIR)
    check.floor('tmatrix_f Fortran inputs', len(tm_files), 3)
    check.floor('mie_f Fortran inputs', len(mie_files), 3)
    # included parameter files are not program units; scfodim.for is INCLUDEd
    groups = [('tmatrix_f', tm_files, ['S']),
              ('mie_f', mie_files, ['mieangfuncs', 'scsmfo_min', 'uts_scsmfo'])]
    total_units = 0
    for gname, files, mods in groups:
        fp = FortranProgram(root, files)
        total_units += len({id(u) for u in fp.units.values()})
        entries = python_entry_points(prog, mods)
        if gname == 'tmatrix_f':
            check.floor('tmatrix_f entry points called from Python', len(entries), 1)
        else:
            check.floor('mie_f entry points called from Python', len(entries), 6)
        for ent, sites in sorted(entries.items()):
            check.note('f2py entry points', '%s:%s (called at %s)' % (
                gname, ent, sites[0]))
            reach = fp.reachable(ent)
            if reach is None:
                check.error('entry point %s called from Python (%s) not found in '
                            '%s sources' % (ent, sites[0], gname))
                continue
            check.note('reachable units', '%s:%s -> %d units' % (gname, ent, len(reach)))
            eu = fp.units[ent.upper()] if ent.upper() in fp.units else None
            if eu is not None:
                # E7: the routine Python calls keeps nothing of its own from one call
                # to the next (no SAVEd / initialised / DATA locals) ...
                from hpstatic.fortran import persistent_names, written_names
                pn = persistent_names(eu)
                wn = written_names(eu)
                carried = sorted(wn if pn is None else (pn & wn))
                check.require(not carried, 'E7-entry-keeps-no-state',
                              '%s::%s' % (os.path.basename(eu.path), eu.name),
                              'no local of the f2py entry routine that is assigned in it '
                              'persists between calls (constants set by DATA are fine)',
                              '%s:%d' % (eu.path, eu.line),
                              fail_detail='locals %s keep their value between calls '
                              '(%s) and are assigned: a result can then depend on the '
                              'previous call' % (carried, [t[:50] for _, t in eu.persistent]))
                if eu.name == 'AMPLD':
                    # ... and the T-matrix (kept in COMMON for the per-angle calls)
                    # is recomputed for the particle of *this* call, unconditionally,
                    # before any per-angle evaluation uses it
                    solve = [c for c in eu.call_sites if c[1] == 'AMP_SCAT_MATRIX']
                    use = [c for c in eu.call_sites if c[1] == 'AMPL']
                    ok = len(solve) >= 1 and any(
                        not c[2] and c[3] is None and
                        all(c[0] < u_[0] for u_ in use) for c in solve)
                    check.require(ok, 'E7-entry-keeps-no-state', 'S.f::AMPLD solves first',
                                  'CALL AMP_SCAT_MATRIX is executed on every call, before '
                                  'the per-angle CALL AMPL', '%s:%d' % (eu.path, eu.line),
                                  fail_detail='AMP_SCAT_MATRIX called at %s; AMPL at %s' % (
                                      [(c[0], c[2], c[3]) for c in solve],
                                      [(c[0], c[2]) for c in use]))
            for uname, path in sorted(reach.items()):
                u = fp.units[uname]
                check.note('fortran units analysed', '%s::%s' % (u.path, u.name))
                for line, guard, body in u.stops:
                    construct = '%s::%s::%s@IF(%s)' % (
                        os.path.basename(u.path), u.name, body, guard)
                    check.bad(
                        'E3-reachable-terminator', construct,
                        'process-terminating statement reachable from Python: '
                        '%s; no Python-side guard dominates the call' % (
                            ' -> '.join(path),), '%s:%d' % (u.path, line))
                if not u.stops:
                    check.ok('E3-reachable-terminator',
                             '%s::%s has no terminator' % (gname, u.name), '',
                             '%s:%d' % (u.path, u.line))
            unresolved = fp.unresolved_calls(reach)
            intrinsic = {'EXIT', 'ABORT'}
            if unresolved & intrinsic:
                check.error('CALL EXIT/ABORT not classified in %s' % gname)
    check.floor('Fortran program units scanned', total_units, 60)


def handoff(check, prog):
    q = TMATRIX + '._parse_args'
    fd = prog.func(q)
    loc = prog.loc(q, fd)
    sphere = prog.find_class('Sphere')
    spheroid = prog.find_class('Spheroid')
    cylinder = prog.find_class('Cylinder')
    canon = Canon()

    def parse(cls, fields):
        it = Interp(prog, max_depth=3)
        s = sym('S')
        it.types[s] = cls
        obj = s
        for k, v in fields.items():
            obj = intern(('upd', obj, 'attr', k, v))
        it.types[obj] = cls
        res = it.analyze(q, args={'scatterer': obj})
        ret = res.ret
        if ret[0] != 'list' or len(ret[1]) != 15:
            raise AnalysisError('Tmatrix._parse_args does not return the 15 '
                                'solver arguments as a list: %s' % show(ret)[:200])
        names = ['axi', 'rat', 'lam', 'mrr', 'mri', 'eps', 'np', 'ndgs', 'alpha',
                 'beta', 'thet0', 'thet', 'phi0', 'phi', 'nang']
        return dict(zip(names, ret[1]))
    a, b, n = sym('a'), sym('b'), sym('n')
    rot = intern(('tuple', (sym('r0'), sym('r1'), sym('r2'))))
    sph = parse(sphere, {'r': a, 'n': n})
    sro = parse(spheroid, {'r': intern(('tuple', (a, a))), 'n': n, 'rotation': rot})
    sro2 = parse(spheroid, {'r': intern(('tuple', (a, b))), 'n': n, 'rotation': rot})
    cyl = parse(cylinder, {'d': sym('d'), 'h': sym('h'), 'n': n, 'rotation': rot})
    env = {k: sym(k) for k in ['a', 'b', 'd', 'h', 'n', 'r0', 'r1', 'r2',
                               'medium_index', 'medium_wavevec', 'pos']}

    def O(src):
        return expr_term(prog, src, env)
    # sphere == equal-axis spheroid, argument by argument (shape arguments)
    for k in ['axi', 'rat', 'lam', 'mrr', 'mri', 'eps', 'np', 'ndgs', 'thet0',
              'thet', 'phi0', 'phi', 'nang']:
        check.require(canon.equal(sph[k], sro[k]), 'E5-sphere-equals-equal-axis-spheroid',
                      'Tmatrix._parse_args[%s]' % k,
                      'same solver argument for Sphere(r=a) and Spheroid(r=(a,a))',
                      loc, fail_detail='Sphere gives %s, Spheroid(a,a) gives %s' % (
                          canon.show(sph[k]), canon.show(sro[k])))
    # conformance with the documented arguments
    oracle_common = {
        'rat': '1', 'lam': '2*np.pi/medium_wavevec',
        'mrr': 'n.real/medium_index', 'mri': 'n.imag/medium_index',
        'thet0': '0', 'phi0': '0', 'ndgs': None,
    }
    cases = [
        ('Sphere', sph, {'axi': 'a', 'eps': '1'}),
        ('Spheroid', sro2, {'axi': '(b*a**2)**(1/3.)', 'eps': 'a/b'}),
        ('Cylinder', cyl, {'eps': '(d/2)/(h/2)'}),
    ]
    # orientation: the two angles the solver gets (degrees) denote the axis the
    # scatterer's rotation gives, and lie in the range outside which the solver
    # ends the interpreter
    for cname, got, angles in (('Sphere', sph, ('0', '0')),
                               ('Spheroid', sro2, ('r2*180/np.pi', 'r1*180/np.pi')),
                               ('Cylinder', cyl, ('r2*180/np.pi', 'r1*180/np.pi'))):
        euler_handoff(check, canon, loc, cname, got['alpha'], got['beta'],
                      O(angles[0]), O(angles[1]))
    for cname, got, spec in cases:
        allspec = dict(oracle_common)
        allspec.update(spec)
        for k, src in sorted(allspec.items()):
            if src is None:
                continue
            ok = canon.equal(got[k], O(src))
            check.require(ok, 'E5-handoff-formula', 'Tmatrix._parse_args %s.%s' % (cname, k),
                          '%s == %s' % (k, src), loc,
                          fail_detail='%s for %s is %s, documented argument is %s' % (
                              k, cname, canon.show(got[k]), src))
    # shape selector NP: -1 spheroid/sphere, -2 cylinder
    def np_value(t):
        r = canon.rat(t)
        for x in subterms(canon.to_term(r)):
            if x[0] == 'call' and x[1] == 'int' and x[2] and x[2][0][0] == 'const':
                pass
        # fold int(True/False)
        def fold(t):
            if t[0] == 'call' and t[1] == 'int' and t[2] and t[2][0][0] == 'const' \
                    and isinstance(t[2][0][1], bool):
                return num(int(t[2][0][1]))
            if t[0] == 'bin':
                return intern(('bin', t[1], fold(t[2]), fold(t[3])))
            if t[0] == 'un':
                return intern(('un', t[1], fold(t[2])))
            return t
        r = canon.rat(fold(t))
        return r.const() if r.is_const() else None
    for cname, got, want in [('Sphere', sph, -1), ('Spheroid', sro2, -1),
                             ('Cylinder', cyl, -2)]:
        v = np_value(got['np'])
        check.require(v == want, 'E5-handoff-formula',
                      'Tmatrix._parse_args %s.np' % cname,
                      'NP == %d' % want, loc,
                      fail_detail='NP is %s, documented shape selector is %d' % (v, want))
    # angles handed over in degrees, from the theta/phi rows of pos
    for k, col in [('thet', 0), ('phi', 1)]:
        t = sph[k]
        # the azimuth may be reduced modulo a full turn (the same direction; the
        # solver takes 0..360 only), the polar angle is handed over as it is
        base = t
        wrapped = False
        if k == 'phi' and base[0] == 'bin' and base[1] == '%' and base[3] == num(360):
            base = base[2]
            wrapped = True
        ok = any(x[0] == 'num' for x in subterms(t)) and \
            canon.equal(base, O('(pos.T[:, 1:] * 180/np.pi)[:, %d]' % col))
        check.require(ok, 'E5-handoff-formula', 'Tmatrix._parse_args angles.%s' % k,
                      'detector angles converted to degrees, column %d' % col, loc,
                      fail_detail='%s is %s' % (k, canon.show(t)))
        if k == 'phi':
            # E3: any azimuth a detector point is given with reaches the solver
            # inside 0..360 (outside, AMPL reports failure for that point and all
            # after it)
            check.require(wrapped, 'E3-angle-range', 'Tmatrix._parse_args detector azimuth',
                          'the azimuth is reduced modulo 360 degrees', loc,
                          fail_detail='phi is %s: detector_points(theta, phi=-0.5) -- '
                          'the direction 2 pi - 0.5 -- is answered with TmatrixFailure '
                          '("angle out of range") where Mie and Multisphere compute it'
                          % canon.show(t)[:80])
    # can_handle <-> _parse_args, as a truth table over every scatterer class of the
    # package (and a non-scatterer): the class is accepted iff _parse_args does not
    # refuse it.  Independent of how the isinstance tests are spelled or ordered.
    from hpstatic.logic import eval3, select
    from .common import isinstance_value
    BASE = 'holopy.scattering.scatterer.scatterer.Scatterer'
    qc = TMATRIX + '.can_handle'
    fdc = prog.func(qc)
    it = Interp(prog, max_depth=2)
    r = it.analyze(qc)
    subj_c = sym(fdc.args.args[1].arg)
    itp = Interp(prog, max_depth=1)
    rp = itp.analyze(q)
    subj_p = sym(fd.args.args[1].arg)
    vp = rp.ret_with_raises
    accepted, disagree = [], []
    classes = sorted(prog.subclasses(BASE)) + [None]
    def uniform_atom(t):
        """'this sphere has one index / one radius' tests: np.ndim(s.n) == 0,
        np.isscalar(s.r), ..."""
        if t[0] == 'cmp' and t[1] == '==' and t[3] == num(0) and t[2][0] == 'call' and \
                t[2][1] == 'numpy.ndim' and t[2][2] and t[2][2][0][0] == 'attr' and \
                t[2][2][0][1] == subj_c and t[2][2][0][2] in ('n', 'r', 't'):
            return True
        if t[0] == 'call' and t[1] == 'numpy.isscalar' and t[2] and \
                t[2][0][0] == 'attr' and t[2][0][1] == subj_c and \
                t[2][0][2] in ('n', 'r', 't'):
            return True
        return False

    def value(t, C, uniform):
        if uniform_atom(t):
            return uniform
        return isinstance_value(prog, t, subj_c, C)
    SPHERE = prog.find_class('Sphere')
    for C in classes:
        acc = eval3(r.ret, lambda t, C=C: value(t, C, True))
        if C and prog.is_subclass(C, SPHERE):
            # a sphere with several layers: only the first index and radius would
            # reach the compiled code (f2py takes element 0 of an array for a
            # scalar argument without complaint)
            acc_l = eval3(r.ret, lambda t, C=C: value(t, C, False))
            check.require(acc_l is False, 'E6-layered-spheres-refused',
                          'Tmatrix.can_handle [%s with layers]' % C.rpartition('.')[2],
                          'a sphere whose index or radius is not a single number is '
                          'refused', prog.loc(qc, fdc),
                          fail_detail='can_handle accepts every Sphere, layered or '
                          'not: calc_holo(det, LayeredSphere(n=[1.59, 1.45+0.02j], '
                          't=[0.3, 0.2]), theory=Tmatrix()) is bit-identical to the '
                          'hologram of the bare core Sphere(n=1.59, r=0.3) and 0.26 '
                          'off the layered Lorenz-Mie result, without a warning')
        def value_p(t, C=C, uniform=True):
            # np.ndim(s.n), np.ndim(s.r) used as truth values; == 0 comparisons
            if t[0] == 'call' and t[1] == 'numpy.ndim' and t[2] and \
                    t[2][0][0] == 'attr' and t[2][0][1] == subj_p and \
                    t[2][0][2] in ('n', 'r', 't'):
                return not uniform
            if t[0] == 'cmp' and t[1] in ('==', '!=') and t[3] == num(0) and \
                    t[2][0] == 'call' and t[2][1] == 'numpy.ndim' and t[2][2] and \
                    t[2][2][0][0] == 'attr' and t[2][2][0][1] == subj_p:
                return uniform if t[1] == '==' else not uniform
            if t[0] == 'call' and t[1] == 'numpy.isscalar' and t[2] and \
                    t[2][0][0] == 'attr' and t[2][0][1] == subj_p:
                return uniform
            # the size guard of the hand-off, for a scatterer of valid size
            if t[0] == 'cmp' and t[1] in ('>', '>=') and t[3] == num(0):
                return True
            if t[0] == 'cmp' and t[1] in ('<', '<=') and t[3] in (
                    ('extref', 'numpy.inf'), ('extref', 'math.inf')):
                return True
            return isinstance_value(prog, t, subj_p, C)
        leaf = select(vp, value_p)
        if C and prog.is_subclass(C, SPHERE):
            # ... and the hand-off itself refuses it: calc_scat_matrix goes to
            # raw_scat_matrs without asking can_handle
            leaf_l = select(vp, lambda t: value_p(t, uniform=False))
            check.require(leaf_l is not None and leaf_l[0] == 'raise',
                          'E6-layered-spheres-refused',
                          'Tmatrix._parse_args [%s with layers]' % C.rpartition('.')[2],
                          'the hand-off to the compiled code refuses a sphere whose '
                          'index or radius is not a single number', loc,
                          fail_detail='_parse_args has a branch for it: '
                          'calc_scat_matrix(det, LayeredSphere(...), theory=Tmatrix()) '
                          'does not consult can_handle and returns the scattering '
                          'matrix of the bare core (f2py takes element 0 of the arrays)')
        refused = None if leaf is None else (leaf[0] == 'raise')
        name = C.rpartition('.')[2] if C else 'a non-scatterer'
        if acc:
            accepted.append(name)
        if acc is None or refused is None or acc == refused:
            disagree.append('%s: can_handle says %s, _parse_args %s' % (
                name, acc, {None: 'is undecided', True: 'refuses it',
                            False: 'has a branch for it'}[refused]))
    check.floor('scatterer classes in the Tmatrix acceptance table', len(classes), 15)
    check.require(not disagree and len(accepted) >= 3,
                  'E6-can_handle-agrees-with-parse_args', 'Tmatrix.can_handle',
                  'accepted classes %s all have a branch, every other class is '
                  'refused by both (%d classes)' % (accepted, len(classes)), loc,
                  fail_detail='; '.join(disagree[:4]))
    size_guards(check, prog, [C for C in classes if C and
                              C.rpartition('.')[2] in accepted])
    # the per-point 2 x 2 blocks: which ampld output sits where
    sphere_limit(check, prog)



def failure_protocol(check, prog, root):
    """E3b: the compiled T-matrix code reports failure instead of ending the
    process, and the report arrives.  A routine that gives up sets the flag in
    COMMON /TMFAIL/ and returns with its results undefined.  Rule, over the units
    reachable from the routine Python calls: (a) the entry routine clears the flag
    on every call before the first solver call (a stale flag would fail every
    later calculation); (b) every CALL of a routine that may set the flag --
    directly or through a routine it calls -- is followed at once by a test of
    the flag; (c) the entry routine hands the flag to Python, where
    Tmatrix._run_tmat raises TmatrixFailure on a non-zero value before the
    amplitudes are used."""
    import re
    tm_files = meson_inputs(root, TM_DIR)
    fp = FortranProgram(root, tm_files)
    entry = fp.units.get('AMPLD')
    if entry is None:
        check.error('subroutine AMPLD not found in the tmatrix_f sources')
        return
    reach = fp.reachable('AMPLD') or {}
    FLAG = 'IFAIL'

    def squash(t):
        return ''.join(t.upper().split())
    setters = set()
    for uname in reach:
        u = fp.units[uname]
        if any('/TMFAIL/' in squash(t) for _, t in u.stmts) and any(
                re.match(r'^%s=(?!0$)' % FLAG, squash(t)) or
                re.search(r'\)%s=(?!0$)' % FLAG, squash(t)) for _, t in u.stmts):
            if uname != 'AMPLD':
                setters.add(uname)
    check.need('routines reporting failure through /TMFAIL/', len(setters), 1,
               'E3-failure-propagated', 'tmatrix_f failure flag',
               'the solver routines report failure through the flag in COMMON /TMFAIL/',
               '%s:%d' % (entry.path, entry.line),
               missing='no routine sets the failure flag: a solver that gives up has '
               'no way to say so short of ending the process')
    # closure: a routine calling a setter without handling it is itself a setter
    may_fail = set(setters)
    changed = True
    while changed:
        changed = False
        for uname in reach:
            if uname not in may_fail and fp.units[uname].calls & may_fail:
                may_fail.add(uname)
                changed = True
    nsites = 0
    for uname in sorted(reach):
        u = fp.units[uname]
        st = [(line, squash(t)) for line, t in u.stmts]
        for i, (line, t) in enumerate(st):
            m = re.match(r'^(?:IF\(.*\))?CALL([A-Z_][A-Z0-9_]*)', t)
            if not m or m.group(1) not in may_fail or m.group(1) == uname:
                continue
            nsites += 1
            # the flag may first be copied (`ierr = ifail`): the copies count
            names = {FLAG}
            k = i + 1
            while k < len(st):
                mm = re.match(r'^([A-Z_][A-Z0-9_]*)=([A-Z_][A-Z0-9_]*)$', st[k][1])
                if mm and mm.group(2) in names:
                    names.add(mm.group(1))
                    k += 1
                else:
                    break
            nxt = st[k][1] if k < len(st) else ''
            ok = nxt.startswith('IF(') and bool(names & set(re.findall(
                r'[A-Z_][A-Z0-9_]*', nxt.split(')')[0] + ')')))
            check.require(ok, 'E3-failure-propagated',
                          '%s::%s after CALL %s' % (os.path.basename(u.path), uname,
                                                    m.group(1)),
                          'the failure flag is tested right after the call', '%s:%d' % (
                              u.path, line),
                          fail_detail='the statement after the call is `%s`: when %s '
                          'gives up its results are undefined and the caller goes on '
                          'with them' % (nxt[:60], m.group(1)))
    check.floor('E3b calls of routines that may report failure', nsites, 4)
    # (a) cleared on entry
    st = [(line, squash(t)) for line, t in entry.stmts]
    first_call = next((i for i, (_, t) in enumerate(st) if t.startswith('CALL')), len(st))
    cleared = any(t == FLAG + '=0' for _, t in st[:first_call])
    check.require(cleared, 'E3-failure-propagated', 'S.f::AMPLD clears the flag',
                  'the flag is set to 0 on every call, before the solver is called',
                  '%s:%d' % (entry.path, entry.line),
                  fail_detail='a failure reported once stays set: every later '
                  'calculation in the process fails')
    # (c) Python side
    q = TMATRIX + '._run_tmat'
    fd = prog.func(q)
    loc = prog.loc(q, fd)
    hm = re.search(r'\((.*)\)', squash(entry.header))
    dummies = hm.group(1).split(',') if hm else []
    outs = []
    for _, t in entry.stmts:
        s_ = squash(t)
        if 'INTENT(OUT)' in s_ and '::' in s_:
            outs += [re.sub(r'\(.*$', '', x) for x in
                     re.split(r',(?![^()]*\))', s_.split('::', 1)[1])]
    outs = [d for d in dummies if d in outs]
    flag_out = [d for d in outs if any(
        re.match(r'^(?:IF\(.*\))?%s=%s$' % (d, FLAG), squash(t)) or
        squash(t) == '%s=%s' % (d, FLAG) for _, t in entry.stmts)]
    check.require(len(flag_out) == 1, 'E3-failure-propagated', 'S.f::AMPLD returns the flag',
                  'one intent(out) argument of the entry routine carries the flag',
                  '%s:%d' % (entry.path, entry.line),
                  fail_detail='outputs %s, none assigned from %s' % (outs, FLAG))
    if len(flag_out) != 1:
        return
    pos = outs.index(flag_out[0])
    it = Interp(prog, max_depth=0)
    res = it.analyze(q)
    raised = False

    def is_flag(x):
        return x[0] == 'idx' and x[2] == num(pos) and x[1][0] == 'call' and \
            str(x[1][1]).endswith('ampld')
    for o in res.raises:
        if 'TmatrixFailure' not in show(o.value):
            continue
        # raised for *every* non-zero flag: the path condition is the flag's
        # truth value (or `flag != 0`), nothing narrower
        conds = [(t, pol) for t, pol in o.cond if any(is_flag(x) for x in subterms(t))]
        others = [(t, pol) for t, pol in o.cond if (t, pol) not in conds]
        plain = len(conds) == 1 and not others and (
            (is_flag(conds[0][0]) and conds[0][1] is True) or
            (conds[0][0][0] == 'cmp' and is_flag(conds[0][0][2]) and
             conds[0][0][3] == num(0) and
             (conds[0][0][1], conds[0][1]) in (('!=', True), ('==', False),
                                               ('>', True))))
        if plain:
            raised = True
    check.require(raised, 'E3-failure-propagated', 'Tmatrix._run_tmat',
                  'TmatrixFailure is raised when output %d of ampld (the failure flag) '
                  'is non-zero' % pos, loc,
                  fail_detail='no raise of TmatrixFailure is taken for every non-zero '
                  'value of that output (a test against a list of known codes lets '
                  'the others through): a solver that gave up hands undefined '
                  'amplitudes -- zeros from the first failing direction on -- to the '
                  'field calculation')


def azimuth_quadrant(check, prog, root):
    """E9: the azimuth of a direction in the particle frame is taken with the
    two-argument arctangent.  AMPL turns the incident and the scattering direction
    into the particle's frame and needs the angle of the point (CPP, SPP) in the
    plane; DATAN(SPP / CPP) knows it only up to pi, and a repair of the quadrant by
    tests on the sign of a third quantity (SP = sin(phi - alpha)) does nothing
    when that quantity is exactly 0 -- detector azimuth == particle azimuth, which
    is every pixel on the row through the particle once alpha = 180 (what
    `_parse_args` hands over for a reversed or negatively tilted axis): the
    direction comes out mirrored, and `reversing the axis changes nothing` fails
    by an order-one amount on that row."""
    import re
    tm_files = meson_inputs(root, TM_DIR)
    fp = FortranProgram(root, tm_files)
    u = fp.units.get('AMPL')
    if u is None:
        check.error('subroutine AMPL not found in the tmatrix_f sources')
        return
    n = 0
    for line, t in u.stmts:
        s = ''.join(t.upper().split())
        m = re.match(r'^(PHIP1?)=(.*)$', s)
        if not m or m.group(2).startswith(m.group(1)):
            continue                    # (the +2 pi reductions of the same variable)
        n += 1
        rhs = m.group(2)
        one_arg = re.search(r'(?<![A-Z0-9_])D?ATAN\(', rhs) is not None
        check.require(not one_arg and re.search(r'D?ATAN2\(', rhs) is not None,
                      'E9-azimuth-quadrant', 'ampld.lp.f::AMPL %s' % m.group(1),
                      'particle-frame azimuth = ATAN2(sine part, cosine part)',
                      '%s:%d' % (u.path, line),
                      fail_detail='%s = %s: the quadrant is lost when the numerator is '
                      'exactly 0 and the denominator negative (true azimuth pi, '
                      'returned 0)' % (m.group(1), rhs[:40]))
    check.need('particle-frame azimuths in AMPL', n, 2, 'E9-azimuth-quadrant',
               'ampld.lp.f::AMPL', 'AMPL computes PHIP and PHIP1',
               '%s:%d' % (u.path, u.line))


def angle_guard_agrees(check, prog, root):
    """E3c: the range test of the compiled code refuses nothing Python hands over.
    `_parse_args` delivers alpha in [0, 360] and beta in [0, 180] (E3-angle-range),
    detector angles are polar angles in [0, 180] and azimuths in [0, 360]; AMPL's
    refusal is a disjunction of `X.LT.lo` / `X.GT.hi` tests.  Each must leave the
    closed interval alone: a `.GE.` / `.LE.` or a tighter constant turns a
    legitimate boundary orientation (a particle pointing along -z: beta = 180)
    into a failure, and the reversed axis no longer gives the same result."""
    import re
    tm_files = meson_inputs(root, TM_DIR)
    fp = FortranProgram(root, tm_files)
    u = fp.units.get('AMPL')
    if u is None:
        check.error('subroutine AMPL not found in the tmatrix_f sources')
        return
    want = {'ALPHA': (0.0, 360.0), 'BETA': (0.0, 180.0), 'TL': (0.0, 180.0),
            'TL1': (0.0, 180.0), 'PL': (0.0, 360.0), 'PL1': (0.0, 360.0)}
    guards = []
    for line, t in u.stmts:
        s = ''.join(t.upper().split())
        if s.startswith('IF(') and 'ALPHA.' in s and 'BETA.' in s:
            guards.append((line, s))
    check.need('angle-range test in AMPL', len(guards), 1, 'E3-angle-guard',
               'ampld.lp.f::AMPL range test',
               'the compiled code tests the ranges of its six angles',
               '%s:%d' % (u.path, u.line))

    def number(x):
        m = re.match(r'^([0-9.]+)D?([-+]?\d+)?$', x)
        if not m:
            return None
        return float(m.group(1)) * 10 ** int(m.group(2) or 0)
    for line, s in guards:
        cond = s[3:s.rindex(')')]
        seen = {}
        bad = []
        for dis in cond.split('.OR.'):
            m = re.match(r'^([A-Z0-9]+)\.(LT|LE|GT|GE)\.(.+)$', dis)
            if not m or m.group(1) not in want:
                bad.append('unrecognised test %s' % dis)
                continue
            name, op, val = m.group(1), m.group(2), number(m.group(3))
            lo, hi = want[name]
            if val is None:
                bad.append('unrecognised bound in %s' % dis)
            elif op == 'LT' and val <= lo or op == 'GT' and val >= hi:
                seen.setdefault(name, set()).add(op)
            elif op == 'LE' and val < lo or op == 'GE' and val > hi:
                seen.setdefault(name, set()).add(op)
            else:
                bad.append('%s refuses part of [%g, %g]' % (dis, lo, hi))
        check.require(not bad, 'E3-angle-guard', 'ampld.lp.f::AMPL range test',
                      'every angle Python can hand over (closed intervals 0..360 for '
                      'alpha and the azimuths, 0..180 for beta and the polar angles) '
                      'passes the test', '%s:%d' % (u.path, line),
                      fail_detail='; '.join(bad) + ': a legitimate boundary angle is '
                      'answered with a failure (before f9bd274: with the end of the '
                      'process)')

def euler_handoff(check, canon, loc, cname, alpha, beta, A, B):
    """E5 / E3 for the orientation arguments.  (alpha, beta) are the azimuth and
    polar angle, in degrees, of the particle's axis: the direction
    (sin b cos a, sin b sin a, cos b).  For every truth assignment of the guards in
    the two terms, (1) the direction equals the one of (A, B) -- the scatterer's
    own angles in degrees -- for all real A, B, decided modulo 360 with
    sin(s x + 180 k) = s (-1)^k sin x, cos(s x + 180 k) = (-1)^k cos x;
    (2) 0 <= alpha <= 360 and 0 <= beta <= 180 by interval evaluation, the guard
    refining the interval of the term it tests (AMPL: STOP outside that range)."""
    import itertools
    INF = float('inf')
    guards = []
    for t in (alpha, beta):
        for x in subterms(t):
            if x[0] == 'ite' and x[1] not in guards:
                guards.append(x[1])

    def resolve(t, val):
        if t[0] == 'ite':
            return resolve(t[2] if val[t[1]] else t[3], val)
        if t[0] == 'bin':
            return intern(('bin', t[1], resolve(t[2], val), resolve(t[3], val)))
        if t[0] == 'un':
            return intern(('un', t[1], resolve(t[2], val)))
        return t

    def strip_mod(t):
        if t[0] == 'bin' and t[1] == '%' and t[3] == num(360):
            return strip_mod(t[2])
        if t[0] == 'bin':
            return intern(('bin', t[1], strip_mod(t[2]), strip_mod(t[3])))
        if t[0] == 'un':
            return intern(('un', t[1], strip_mod(t[2])))
        return t

    def form(t, base):
        """(s, k) with t == s * base + 180 k modulo 360, or None"""
        u = strip_mod(t)
        for s_ in (1, -1):
            for k in range(-4, 5):
                want = intern(('bin', '+', ('bin', '*', num(s_), base), num(180 * k)))
                if canon.equal(u, want):
                    return s_, k % 2
        return None

    def interval(t, env):
        if t in env:
            return env[t]
        if is_num(t):
            v = float(t[1])
            return (v, v)
        if t[0] == 'bin' and t[1] == '%' and is_num(t[3]) and float(t[3][1]) > 0:
            lo, hi = interval(t[2], env)
            m = float(t[3][1])
            if 0 <= lo and hi < m:
                return (lo, hi)
            return (0.0, m)
        if t[0] == 'bin' and t[1] in '+-':
            a, b = interval(t[2], env), interval(t[3], env)
            return (a[0] + b[0], a[1] + b[1]) if t[1] == '+' else (a[0] - b[1], a[1] - b[0])
        if t[0] == 'un' and t[1] == '-':
            a = interval(t[2], env)
            return (-a[1], -a[0])
        return (-INF, INF)

    def refine(g, truth, env):
        """env with the interval of the term a comparison guard tests narrowed;
        None if the guard cannot hold"""
        if g[0] != 'cmp' or g[1] not in ('<', '<=', '>', '>='):
            return env
        op, x, c = g[1], g[2], g[3]
        if is_num(x) and not is_num(c):
            op = {'<': '>', '<=': '>=', '>': '<', '>=': '<='}[op]
            x, c = c, x
        if not is_num(c):
            return env
        if not truth:
            op = {'<': '>=', '<=': '>', '>': '<=', '>=': '<'}[op]
        lo, hi = interval(x, env)
        v = float(c[1])
        if op in ('<', '<='):
            hi = min(hi, v)
        else:
            lo = max(lo, v)
        if lo > hi:
            return None
        env = dict(env)
        env[x] = (lo, hi)
        return env
    ncase = 0
    for values in itertools.product((True, False), repeat=len(guards)):
        val = dict(zip(guards, values))
        env = {}
        for g, v in val.items():
            env = refine(g, v, env) if env is not None else None
        if env is None:
            continue            # this combination of guards cannot occur
        ncase += 1
        a_t, b_t = resolve(alpha, val), resolve(beta, val)
        tag = '%s [%s]' % (cname, ', '.join(
            '%s%s' % ('' if v else 'not ', canon.show(g)[:40]) for g, v in val.items())
            or 'always')
        fa, fb = form(a_t, A), form(b_t, B)
        same = fa is not None and fb is not None
        if same:
            (sa, ka), (sb, kb) = fa, fb
            # cos b = (-1)^kb cos B; sin b = sb (-1)^kb sin B;
            # cos a = (-1)^ka cos A; sin a = sa (-1)^ka sin A
            sin_b = sb * (-1) ** kb
            same = kb == 0 and sin_b * (-1) ** ka == 1 and sin_b * sa * (-1) ** ka == 1
        zero = canon.equal(B, num(0))      # (a sphere: no axis to speak of)
        check.require(same or zero, 'E5-handoff-formula',
                      'Tmatrix._parse_args orientation ' + tag,
                      'the axis at (alpha, beta) is the axis the rotation (r2, r1) gives',
                      loc, fail_detail='alpha = %s, beta = %s do not denote the direction '
                      'of (%s, %s) for all real angles' % (
                          canon.show(a_t)[:60], canon.show(b_t)[:60],
                          canon.show(A)[:30], canon.show(B)[:30]))
        ia, ib = interval(a_t, env), interval(b_t, env)
        check.require(0 <= ia[0] and ia[1] <= 360 and 0 <= ib[0] and ib[1] <= 180,
                      'E3-angle-range', 'Tmatrix._parse_args orientation ' + tag,
                      '0 <= alpha <= 360 and 0 <= beta <= 180 for every real rotation',
                      loc, fail_detail='alpha in [%g, %g], beta in [%g, %g]: outside '
                      '0..360 / 0..180 the compiled code (AMPL) executes STOP, which '
                      'ends the Python process with exit status 0 -- a negative '
                      'Euler angle, or one beyond pi (2 pi), proposed inside a '
                      'prior\'s support kills a fit or a sampler mid-run' % (ia + ib))
    check.floor('orientation cases of %s' % cname, ncase, 1)


# ----------------------------------------------------------------------
def size_guards(check, prog, accepted):
    """Every scatterer class the T-matrix theory accepts refuses a negative size
    when it is built, with the library's InvalidScatterer: the sizes go straight
    into the compiled solver (equal-volume radius, aspect ratio), which answers a
    negative one with a segmentation fault or a STOP -- and a model evaluates a
    scatterer at whatever the sampler proposes inside the priors' support, relying
    on InvalidScatterer to turn the proposal into log-prior = -inf."""
    q = TMATRIX + '._parse_args'
    for C in sorted(accepted):
        cname = C.rpartition('.')[2]
        # the attributes of the scatterer that reach the solver's size arguments
        it = Interp(prog, max_depth=1)
        s_ = sym('S')
        it.types[s_] = C
        res = it.analyze(q, args={'scatterer': s_})
        ret = res.ret
        if ret[0] != 'list' or len(ret[1]) != 15:
            raise AnalysisError('Tmatrix._parse_args: 15 solver arguments expected')
        sizes = sorted({x[2] for t in (ret[1][0], ret[1][5]) for x in subterms(t)
                        if x[0] == 'attr' and x[1] == s_})
        check.need('size attributes of %s read by Tmatrix._parse_args' % cname,
                   len(sizes), 1, 'E3-size-guard', cname + ' sizes',
                   'the equal-volume radius and the aspect ratio are computed from '
                   'the scatterer\'s size attributes', prog.loc(q, prog.func(q)))
        # the hand-off itself refuses what is not a positive, finite size (zero
        # passes the constructors: a model's template scatterer is all zeros)
        inv = [o for o in res.raises if 'InvalidScatterer' in show(o.value)]
        positive = False
        for o in inv:
            for t, pol in o.cond:
                hits = [x for x in subterms(t) if x[0] == 'cmp' and
                        x[1] in ('>', '>=', '<', '<=') and x[3] == num(0)]
                if hits and pol is False:
                    positive = True      # raised when "0 < size" fails
                if pol is True and any(x[1] in ('<', '<=') for x in hits):
                    positive = True      # raised when "size <= 0" holds
        # ... for each of the sizes that reach the solver: the refusal is
        # evaluated with one size at zero (at infinity) and the others in range
        def leaves_of(t, out):
            cur = t
            while cur[0] in ('attr', 'idx'):
                cur = cur[1]
            if cur == s_ and t != s_:
                out.add(t)
                return
            for x in t[1:]:
                if isinstance(x, tuple) and x and isinstance(x[0], str):
                    leaves_of(x, out)
                elif isinstance(x, tuple):
                    for y in x:
                        if isinstance(y, tuple) and y and isinstance(y[0], str):
                            leaves_of(y, out)
        leaves = set()
        leaves_of(ret[1][0], leaves)
        leaves_of(ret[1][5], leaves)
        INF = (('extref', 'numpy.inf'), ('extref', 'math.inf'), ('extref', 'numpy.Inf'),
               ('extref', 'numpy.infty'))

        def atom_under(L, state):
            def value(t):
                if t[0] == 'call' and t[1] in ('numpy.isfinite', 'math.isfinite') \
                        and len(t[2]) == 1:
                    inside = [x for x in leaves if x in set(subterms(t[2][0]))]
                    if not inside:
                        return None
                    return not (state == 'inf' and L in inside)
                if t[0] != 'cmp' or t[1] not in ('<', '<=', '>', '>='):
                    return None
                op, a, b = t[1], t[2], t[3]
                if op in ('>', '>='):
                    op, a, b = {'>': '<', '>=': '<='}[op], b, a
                # now a (<|<=) b
                def level(x):
                    if x == num(0):
                        return 0
                    if x in INF:
                        return 3
                    inside = [y for y in leaves if y in set(subterms(x))]
                    if not inside:
                        return None
                    if L in inside:
                        return {'zero': 0, 'inf': 3}[state]
                    return 1           # another size, in range
                la, lb = level(a), level(b)
                if la is None or lb is None:
                    return None
                return la < lb if op == '<' else la <= lb
            return value
        from hpstatic.logic import cond3
        for L in sorted(leaves, key=show):
            for state, words in (('zero', 'zero'), ('inf', 'infinite')):
                hit = any(cond3(o.cond, atom_under(L, state),
                                skip=lambda t: not any(
                                    x[0] == 'cmp' and x[1] in ('<', '<=', '>', '>=')
                                    or (x[0] == 'call' and x[1] in (
                                        'numpy.isfinite', 'math.isfinite'))
                                    for x in subterms(t))) is True
                          for o in inv)
                check.require(hit, 'E3-size-guard',
                              '%s hand-off, %s %s' % (cname, show(L).replace('S.', ''),
                                                      words),
                              'Tmatrix._parse_args raises InvalidScatterer when this '
                              'size is %s and the others are in range' % words,
                              prog.loc(q, prog.func(q)),
                              fail_detail='no InvalidScatterer path is taken for %s %s '
                              'with the other sizes positive and finite: the value '
                              'goes into the compiled solver, which ends the '
                              'interpreter' % (show(L).replace('S.', cname + '.'), words))
        check.require(positive, 'E3-size-guard', cname + ' hand-off',
                      'Tmatrix._parse_args raises InvalidScatterer for a size that is '
                      'not positive', prog.loc(q, prog.func(q)),
                      fail_detail='no refusal in _parse_args compares the sizes with 0: '
                      'Cylinder(d=0, h=0.5) ends the interpreter with a segmentation '
                      'fault, Spheroid(r=(0, 0.5)) with a STOP, a NaN semi-axis '
                      'likewise')
        owner, fdi = init_of(prog, C)
        if fdi is None:
            check.bad('E3-size-guard', cname, 'no constructor found', '')
            continue
        qi = owner + '.__init__'
        iti = Interp(prog, max_depth=2)
        ri = iti.analyze(qi)
        params = {a.arg for a in fdi.args.args}
        guarded = set()
        for o in ri.raises:
            if 'InvalidScatterer' not in show(o.value):
                continue
            for t, pol in o.cond:
                if pol is not True:
                    continue
                for x in subterms(t):
                    if x[0] == 'cmp' and x[1] in ('<', '<=') and x[3] == num(0):
                        guarded |= {y[1] for y in subterms(x[2]) if y[0] == 'sym'}
        for a in sizes:
            check.require(a in guarded and a in params, 'E3-size-guard',
                          '%s.%s' % (cname, a),
                          '%s(%s < 0) raises InvalidScatterer' % (cname, a),
                          prog.loc(qi, fdi),
                          fail_detail='%s.__init__ has no path raising '
                          'InvalidScatterer when %s is negative: a model with a prior '
                          'on it whose support includes negative values (a Gaussian) '
                          'gets a finite log-prior there and hands the size to the '
                          'compiled T-matrix code, which kills the interpreter '
                          '(segmentation fault for a Spheroid, STOP for a Cylinder) '
                          'where a Sphere gives log-prior = -inf' % (cname, a))


def size_guards_of_accepted(check, prog):
    """size_guards for the classes named in Tmatrix.can_handle (entry for the
    properties that rely on InvalidScatterer: C12's log-prior = -inf)"""
    qc = TMATRIX + '.can_handle'
    it = Interp(prog, max_depth=2)
    r = it.analyze(qc)
    names = sorted({x[1] for x in subterms(r.ret) if x[0] == 'classref'})
    check.need('classes named in Tmatrix.can_handle', len(names), 3, 'E3-size-guard',
               'Tmatrix.can_handle classes', 'the theory names the shapes it accepts',
               prog.loc(qc, prog.func(qc)))
    size_guards(check, prog, names)


def _mat2(rows):
    return [[rows[0][0], rows[0][1]], [rows[1][0], rows[1][1]]]


def _matmul2(A, B):
    return [[intern(('bin', '+', ('bin', '*', A[i][0], B[0][j]),
                     ('bin', '*', A[i][1], B[1][j]))) for j in range(2)] for i in range(2)]


def _mat_of(t, env):
    """Evaluate a term denoting a 2 x 2 matrix: literal arrays, the per-point block
    `env['block_term']`, products (numpy.dot / matmul / @) and transposes."""
    if t[0] == 'call' and t[1] in ('numpy.array', 'numpy.asarray') and t[2] and \
            t[2][0][0] == 'list' and len(t[2][0][1]) == 2 and \
            all(r[0] == 'list' and len(r[1]) == 2 for r in t[2][0][1]):
        return _mat2([list(r[1]) for r in t[2][0][1]])
    if t[0] == 'list' and len(t[1]) == 2 and all(r[0] == 'list' and len(r[1]) == 2
                                                  for r in t[1]):
        return _mat2([list(r[1]) for r in t[1]])
    if t == env.get('block_term'):
        return env['block']
    if t[0] == 'call' and t[1] in ('numpy.dot', 'numpy.matmul') and len(t[2]) == 2:
        A, B = _mat_of(t[2][0], env), _mat_of(t[2][1], env)
        return None if A is None or B is None else _matmul2(A, B)
    if t[0] == 'bin' and t[1] == '@':
        A, B = _mat_of(t[2], env), _mat_of(t[3], env)
        return None if A is None or B is None else _matmul2(A, B)
    tr = None
    if t[0] == 'attr' and t[2] == 'T':
        tr = t[1]
    elif t[0] == 'call' and isinstance(t[1], tuple) and t[1][0] == 'attr' and \
            t[1][2] == 'transpose' and not t[2]:
        tr = t[1][1]
    elif t[0] == 'call' and t[1] == 'numpy.transpose' and len(t[2]) == 1:
        tr = t[2][0]
    if tr is not None:
        A = _mat_of(tr, env)
        return None if A is None else [[A[0][0], A[1][0]], [A[0][1], A[1][1]]]
    return None


def sphere_limit(check, prog, fields=True):
    """E8: for a sphere, what Tmatrix hands on is the Lorenz-Mie amplitude matrix.

    ampld returns the amplitude matrix in the laboratory frame: for incidence
    along +z with phi0 = 0 it maps the incident (x, y) components to the scattered
    (theta, phi) components.  For a sphere (Mishchenko, Travis & Lacis, ch. 4/5;
    checked numerically against the compiled code, DESIGN section 5)
        S_lab = diag(S2, S1) . [[cos phi, sin phi], [-sin phi, cos phi]].
    Mie.raw_scat_matrs, Lens and mieangfuncs.calc_scat_field work with the matrix
    relative to the scattering plane, diag(S2, S1).  Substituting the sphere form
    for the four ampld outputs, (a) the per-point block returned by raw_scat_matrs
    and (b) the matrix raw_fields passes to calc_scat_field must both reduce to
    diag(S2, S1) at *every* azimuth (cos^2 + sin^2 = 1 is the only identity used)."""
    from hpstatic.poly import Canon
    q = TMATRIX + '._run_tmat'
    fd = prog.func(q)
    loc = prog.loc(q, fd)
    it = Interp(prog, max_depth=2)
    t = it.analyze(q).ret
    # (N, 2, 2) from the (2, 2, N) literal: full axis reversal transposes each
    # block, moving the last axis first does not
    blockT = None
    arr = None
    perm = (num(2), num(0), num(1))
    if (t[0] == 'call' and isinstance(t[1], tuple) and t[1][0] == 'attr' and
            t[1][2] == 'transpose' and not t[3]):
        arr = t[1][1]
        if not t[2]:
            blockT = True
        elif tuple(t[2]) == perm or (len(t[2]) == 1 and t[2][0] in (
                ('tuple', perm), ('list', perm))):
            blockT = False
    elif t[0] == 'attr' and t[2] == 'T':
        arr, blockT = t[1], True
    elif t[0] == 'call' and t[1] == 'numpy.transpose' and len(t[2]) == 1 and not t[3]:
        arr, blockT = t[2][0], True
    elif t[0] == 'call' and t[1] == 'numpy.moveaxis' and len(t[2]) == 3 and \
            t[2][1] in (num(-1), num(2)) and t[2][2] == num(0):
        arr, blockT = t[2][0], False
    names = None
    if arr is not None and arr[0] == 'call' and arr[1] == 'numpy.array' and arr[2] and \
            arr[2][0][0] == 'list' and len(arr[2][0][1]) == 2:
        names = []
        for row in arr[2][0][1]:
            if row[0] == 'list' and len(row[1]) == 2:
                for x in row[1]:
                    idx = [y for y in subterms(x) if y[0] == 'idx' and y[2][0] == 'num' and
                           y[1][0] == 'call' and str(y[1][1]).endswith('ampld')]
                    names.append(int(idx[-1][2][1]) if idx else None)
    if blockT is None or names is None or len(names) != 4 or None in names:
        check.bad('E8-sphere-limit', 'Tmatrix._run_tmat',
                  'cannot read the per-point 2 x 2 blocks off the returned array: %s'
                  % show(t)[:160], loc)
        return
    d1, d2, c, s_ = sym('S2'), sym('S1'), sym('c'), sym('s')
    neg = lambda x: intern(('un', '-', x))
    mul = lambda x, y: intern(('bin', '*', x, y))
    out = {0: mul(d1, c), 1: mul(d1, s_), 2: neg(mul(d2, s_)), 3: mul(d2, c)}
    M = [[out[names[0]], out[names[1]]], [out[names[2]], out[names[3]]]]
    block = [[M[0][0], M[1][0]], [M[0][1], M[1][1]]] if blockT else M
    canon = Canon()

    def is_diag(A):
        want = [[d1, num(0)], [num(0), d2]]
        return all(_vanishes_on_circle(canon, intern(('bin', '-', A[i][j], want[i][j])),
                                       c, s_) for i in range(2) for j in range(2))
    fmt = lambda A: '[[%s, %s], [%s, %s]]' % tuple(canon.show(x)[:40] for r in A for x in r)
    key = lambda A: ' '.join(canon.show(x).replace(' ', '') for r in A for x in r)
    check.require(is_diag(block), 'E8-sphere-limit',
                  'Tmatrix.raw_scat_matrs block' + (
                      '' if is_diag(block) else ' = ' + key(block)),
                  'for a sphere the per-point matrix is diag(S2, S1) at every azimuth, '
                  'as from Mie.raw_scat_matrs', loc,
                  fail_detail='with the sphere form of the ampld outputs the block is %s '
                  '(c = cos phi, s = sin phi): calc_scat_matrix and Lens(Tmatrix) see a '
                  'matrix that depends on the azimuth' % fmt(block))
    if not fields:
        return
    # (b) raw_fields
    q2 = TMATRIX + '.raw_fields'
    fd2 = prog.func(q2)
    loc2 = prog.loc(q2, fd2)
    it2 = Interp(prog, max_depth=1, opaque=[TMATRIX + '.raw_scat_matrs'])
    it2.analyze(q2)
    cs = [c_ for c_ in it2.calls if c_['name'].endswith('calc_scat_field')]
    if len(cs) != 1 or len(cs[0]['args']) < 3:
        check.bad('E8-sphere-limit', 'Tmatrix.raw_fields',
                  'no single calc_scat_field(kr, phi, S, pol) call', loc2)
        return
    phi = cs[0]['args'][1]
    Sarg = cs[0]['args'][2]
    blk = [x for x in subterms(Sarg) if x[0] == 'idx' and x[1][0] == 'call' and
           isinstance(x[1][1], tuple) and x[1][1][0] == 'attr' and
           x[1][1][2] == 'raw_scat_matrs']
    cosp = intern(('call', 'numpy.cos', (phi,), ()))
    sinp = intern(('call', 'numpy.sin', (phi,), ()))

    def to_cs(x):
        if x == cosp:
            return c
        if x == sinp:
            return s_
        if isinstance(x, tuple):
            return tuple(to_cs(y) if isinstance(y, tuple) else y for y in x)
        return x
    A = None
    if blk:
        env = {'block_term': intern(to_cs(blk[0])), 'block': block}
        A = _mat_of(intern(to_cs(Sarg)), env)
    if A is None:
        check.bad('E8-sphere-limit', 'Tmatrix.raw_fields',
                  'cannot evaluate the matrix handed to calc_scat_field: %s'
                  % show(Sarg)[:160], loc2)
        return
    check.require(is_diag(A), 'E8-sphere-limit',
                  'Tmatrix.raw_fields matrix' + ('' if is_diag(A) else ' = ' + key(A)),
                  'for a sphere the matrix handed to calc_scat_field is diag(S2, S1) at '
                  'every azimuth (the rotation to the scattering plane undoes the '
                  'laboratory-frame azimuth dependence)', loc2,
                  fail_detail='with the sphere form of the ampld outputs it is %s: equal '
                  'to diag(S2, S1) only where sin(phi) = 0 or S1 = S2' % fmt(A))


def _vanishes_on_circle(canon, t, c, s_):
    """t (a polynomial in c, s and other atoms) is identically zero on c^2+s^2=1:
    every even power of s is rewritten by s^2 -> 1 - c^2, then compared with 0."""
    r = canon.rat(t)
    total = num(0)
    for mono, coef in r.num.items():
        term = num(coef)
        for a_, e_ in mono:
            if a_ == s_:
                k, rem = divmod(int(e_), 2)
                for _ in range(k):
                    term = intern(('bin', '*', term, ('bin', '-', num(1), ('bin', '*', c, c))))
                if rem:
                    term = intern(('bin', '*', term, s_))
            else:
                p_ = a_ if e_ == 1 else intern(('bin', '**', a_, num(e_)))
                term = intern(('bin', '*', term, p_))
        total = intern(('bin', '+', total, term))
    return canon.equal(total, num(0))
