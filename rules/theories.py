"""Shared driver: symbolic evaluation of the ImageFormation -> theory hand-off
for every (theory, scatterer kind, detector kind) configuration (used by the
equivariance checks C04 / C05 and by C07)."""
from hpstatic.interp import Interp
from hpstatic.terms import sym, intern, NONE

IFQ = 'holopy.scattering.imageformation.ImageFormation'
TH = 'holopy.scattering.theory.'
SOLVER_OPAQUE = [
    TH + 'mie_f.miescatlib.scatcoeffs', TH + 'mie_f.miescatlib.nstop',
    TH + 'mie_f.miescatlib.internal_coeffs', TH + 'mie_f.miescatlib.cross_sections',
    TH + 'mie_f.miescatlib.asymmetry_parameter',
    TH + 'mie_f.multilayer_sphere_lib.scatcoeffs_multi',
    TH + 'mielensfunctions.MieLensCalculator.calculate_scattered_field',
    TH + 'mielensfunctions.MieLensCalculator._calculate_incident_field',
    TH + 'mielensfunctions.MieLensCalculator.__init__',
    TH + 'mielensfunctions.AberratedMieLensCalculator.__init__',
    TH + 'multisphere._integrate4pi',
    'holopy.scattering.scatterer.spherecluster.Spheres.__init__',
]

# (theory class, kwargs typing of nested theory, scatterer classes)
CONFIGS = [
    ('Mie', None, ['Sphere', 'LayeredSphere']),
    ('Multisphere', None, ['Spheres', 'Sphere']),
    ('Tmatrix', None, ['Sphere', 'Spheroid', 'Cylinder']),
    ('MieLens', None, ['Sphere']),
    ('AberratedMieLens', None, ['Sphere']),
    ('Lens', 'Mie', ['Sphere']),
    ('Lens', 'Tmatrix', ['Spheroid']),
    ('Lens', 'Multisphere', ['Spheres']),
]
ENTRIES = ['_get_field_from', 'calculate_scattering_matrix', 'calculate_cross_sections']
SUPPORTS = {
    # which entries each theory implements (raw_scat_matrs / raw_cross_sections)
    'Mie': ENTRIES, 'Multisphere': ENTRIES,
    'Tmatrix': ['_get_field_from', 'calculate_scattering_matrix'],
    'MieLens': ['_get_field_from'], 'AberratedMieLens': ['_get_field_from'],
    'Lens': ['_get_field_from'],
}


def detector_decide(kind):
    """cartesian: a grid / x-y-z points; spherical: r-theta-phi points"""
    def decide(t):
        if t[0] == 'call' and t[1] == 'hasattr' and len(t[2]) == 2 and \
                t[2][1][0] == 'const':
            name = t[2][1][1]
            if name in ('theta', 'phi'):
                return kind.startswith('spherical')
            if name == 'r':
                return kind == 'spherical-r'
            if name in ('x', 'y', 'z'):
                return not kind.startswith('spherical')
            if name == 'flat':
                return kind == 'cartesian'
            if name == 'point':
                return kind != 'cartesian'
        return None
    return decide


def run_config(prog, theory, inner, scat, entry, detector='cartesian',
               extra_opaque=(), max_depth=9, decide_extra=None):
    d0 = detector_decide(detector)

    def decide(t):
        r = d0(t)
        if r is None and decide_extra is not None:
            r = decide_extra(t)
        return r
    it = Interp(prog, max_depth=max_depth, decide=decide,
                opaque=list(SOLVER_OPAQUE) + list(extra_opaque))
    selfs = sym('self')
    th = intern(('attr', selfs, 'scattering_theory'))
    it.types[th] = prog.find_class(theory)
    if inner:
        it.types[intern(('attr', th, 'theory'))] = prog.find_class(inner)
    it.types[sym('scatterer')] = prog.find_class(scat)
    res = it.analyze(IFQ + '.' + entry)
    return it, res


def all_configs():
    for theory, inner, scats in CONFIGS:
        for scat in scats:
            for entry in SUPPORTS[theory]:
                if entry == 'calculate_cross_sections' and scat == 'LayeredSphere':
                    pass
                dets = ['cartesian', 'spherical-r'] if entry == '_get_field_from' \
                    and theory in ('Mie', 'Multisphere', 'Tmatrix') else (
                        ['spherical'] if entry == 'calculate_scattering_matrix'
                        else ['cartesian'])
                if entry == 'calculate_cross_sections':
                    dets = ['none']
                for det in dets:
                    yield theory, inner, scat, entry, det


SINK_MARKERS = ('mieangfuncs.', 'scsmfo_min.', 'uts_scsmfo.', 'ampld', 'miescatlib.',
                'scatcoeffs_multi', 'MieLensCalculator', 'calculate_scattered_field',
                '_calculate_incident_field', 'raw_scat_matrs', 'dblquad',
                '_integrate4pi')


def sink_calls(it):
    out = []
    for c in it.calls:
        n = c['name']
        if any(m in n for m in SINK_MARKERS) and not n.startswith(IFQ):
            out.append(c)
    return out
