"""C04  Results depend only on dimensionless ratios.   Engine E1.

Two multiplicative gradings are type-checked over every (theory, scatterer,
detector kind) configuration of the ImageFormation -> theory hand-off:

  L  all lengths * s       seeds: illum_wavelen, detector x/y/z/r, center, r, t,
                           d, h, centers: 1; indices, angles, polarisation: 0
  N  (n, n_medium, lambda) * t   seeds: n, medium_index, illum_wavelen: 1

Obligations: every opaque callee (f2py routine, solver library function, the
MieLens calculator, scipy) receives only weight-0 arguments (any function of
invariant inputs is invariant) -- except Mishchenko's `ampld`, whose documented
summary is w(axi) = w(lam), result weight w(lam); every sum has operands of
equal weight; every transcendental function, comparison and threshold sits on a
weight-0 value; fields and scattering matrices leave with L = N = 0; the four
cross-section entries have L = (2, 2, 2, 0) and N = 0.
"""
from fractions import Fraction as F

from hpstatic.interp import Interp
from hpstatic.loader import AnalysisError
from hpstatic.terms import sym, intern, show, subterms, calls_in, kw
from hpstatic.weights import Weigher, ANY, NA, UNK, ZERO
from .common import call_args, term_args
from .theories import all_configs, run_config, sink_calls, IFQ

MUTATION_TARGETS = {'holopy/scattering/imageformation.py': ['_get_field_from', '_transform_to_desired_coordinates', 'get_wavevec_from', 'calculate_scattering_matrix', 'calculate_cross_sections'], 'holopy/scattering/theory/mie.py': ['_scat_coeffs', 'raw_fields', 'raw_scat_matrs', 'raw_cross_sections'], 'holopy/scattering/theory/multisphere.py': ['_scsmfo_setup', 'raw_fields', 'raw_cross_sections', '_calc_cext', '_calc_cscat', '_calc_asym'], 'holopy/scattering/theory/tmatrix.py': ['_parse_args', '_run_tmat', 'raw_fields'], 'holopy/scattering/theory/mielens.py': ['raw_fields'], 'holopy/scattering/theory/lens.py': ['raw_fields', '_integrand_prefactor', '_compute_integrand', '_calc_scattering_matrix']}

LEVEL = 'proof'
META = dict(
    claimed=True,
    technique='abstract interpretation with a graded-weight (dimensional '
              'analysis) type system over the symbolically evaluated '
              'theory hand-off; opaque solvers constrained to weight-0 inputs'
              '; absolute-tolerance and rounding operations on weighted quantities ar'
              'e type conflicts; degree-1 homogeneity of the rigid-motion helpers',
    level_text='A type-checking proof, for all inputs, that holograms, fields, '
               'intensities and scattering matrices are invariant (weight 0) and '
               'cross sections have weight (2,2,2,0) under scaling of all lengths, '
               'and that everything is invariant under (n, n_m, lambda) -> '
               't*(n, n_m, lambda) -- at the Python layer of every theory in the '
               'property (Mie, Multisphere, Tmatrix, MieLens, AberratedMieLens, '
               'Lens).  Modulo the trusted base: callee purity, the ampld summary, '
               'the seed table, floating-point rounding of non-power-of-two scale '
               'factors.',
    level_note='Trusted base: seeds (which attribute is a length / an index) as '
               'listed in the evidence; opaque callees are pure functions of their '
               'arguments; Mishchenko\'s amplitude matrix is degree-1 homogeneous '
               'in (AXI, LAM) (ampld.lp.f: XEV = 2 pi A / LAM, result / DK); '
               'attributes not in the seed table are dimensionless options '
               '(listed in evidence as assumed).  DDA (external adda) is out of '
               'scope.',
)

L_SEEDS = dict(illum_wavelen=F(1), r=F(1), center=F(1), x=F(1), y=F(1), z=F(1),
               d=F(1), h=F(1), t=F(1), centers=F(1), translation=F(1), spacing=F(1))
N_SEEDS = dict(n=F(1), medium_index=F(1), illum_wavelen=F(1))
OBJ_SYMS = {'schema': NA, 'scatterer': NA, 'self': NA, 'detector': NA}


def ampld_spec(w, t):
    """ampld(axi, rat, lam, mrr, mri, eps, np, ndgs, alpha, beta, thet0, thet,
    phi0, phi, nang): degree-1 homogeneous in (axi, lam)."""
    args = t[2]
    if len(args) == 1 and args[0][0] == 'star':
        inner = args[0][1]
        if inner[0] == 'list':
            args = inner[1]
    if len(args) != 15:
        return w.unknown('ampld called with %d positional arguments' % len(args), t)
    ws = [w.uniform(w.w(a), t) for a in args]
    lam = ws[2]
    r = w.unify(ws[0], lam, t, 'ampld arguments AXI and LAM (size enters only as '
                '2*pi*AXI/LAM)')
    for i, a in enumerate(ws):
        if i in (0, 2):
            continue
        if a not in (ZERO, ANY, NA, UNK):
            w.conflict('ampld argument #%d has %s-weight %s: %s' % (
                i, w.name, a, show(args[i])[:120]), t)
    if r == UNK:
        return UNK
    return ('seq', (lam, lam, lam, lam))


def make_weigher(name, it, extra_syms=None):
    seeds = L_SEEDS if name == 'L' else N_SEEDS
    syms = dict(OBJ_SYMS)
    syms.update(extra_syms or {})
    specs = {'ampld': ampld_spec,
             'holopy.scattering.theory.tmatrix_f.S.ampld': ampld_spec}
    return Weigher(seeds, sym_seeds=syms, opaque_specs=specs, name=name,
                   loops=it.loops)


def run(check, prog):
    check.explanation = (
        'For each (theory, scatterer, detector) configuration the hand-off code is '
        'evaluated symbolically and every value is typed with its scaling weight '
        'under the L and N gradings; every sum, comparison, transcendental '
        'function and opaque-callee argument is an obligation.')
    check.trusted += ['seed table', 'purity of opaque callees',
                      'ampld homogeneity summary (ampld.lp.f)']
    check.rule_text = ('one obligation per (grading, configuration, typing site): '
                       'result weight, every solver call, every type conflict')
    nconf = 0
    assumed = set()
    for theory, inner, scat, entry, det in all_configs():
        nconf += 1
        label = '%s%s x %s x %s [%s]' % (theory, '(%s)' % inner if inner else '',
                                         scat, entry, det)
        try:
            it, res = run_config(prog, theory, inner, scat, entry, det)
        except AnalysisError as e:
            check.error('%s: %s' % (label, e))
            continue
        check.note('configurations', label)
        fd = prog.func(IFQ + '.' + entry)
        loc = prog.loc(IFQ, fd)
        for g in ('L', 'N'):
            extra = {}
            if entry == 'calculate_cross_sections':
                extra = {'medium_wavevec': F(-1) if g == 'L' else ZERO,
                         'medium_index': ZERO if g == 'L' else F(1),
                         'illum_polarization': ZERO}
            if entry == '_get_field_from':
                pass
            w = make_weigher(g, it, extra)
            ret = res.ret
            rw = w.w(ret)
            sinks = sink_calls(it)
            for c in sinks:
                for a in list(c['args']) + [v for k, v in c['kwargs']]:
                    w.w(a)
            # every call argument anywhere (typing the whole evaluation)
            for c in it.calls:
                for a in list(c['args']) + [v for k, v in c['kwargs']]:
                    if a[0] in ('sym',):
                        continue
                    w.w(a)
            # conditions of every branch taken
            seen_c = set()
            for conds in [o.cond for o in res.outcomes] + \
                    [e['cond'] for e in it.effects] + [c['cond'] for c in it.calls]:
                # includes the guards of raising paths inside inlined callees and
                # loops (a size check against a literal must sit on a pure number)
                for ct, pol in conds:
                    if ct[0] not in ('loop-iter', 'exc') and id(ct) not in seen_c:
                        seen_c.add(id(ct))
                        w.w(ct)
            assumed |= w.assumed
            conflicts = [(m, t) for k, m, t in w.problems if k == 'conflict']
            unknowns = [(m, t) for k, m, t in w.problems if k == 'unknown']
            seen = set()
            for m, t in conflicts:
                key = m[:160]
                if key in seen:
                    continue
                seen.add(key)
                check.bad('E1-%s-type-conflict' % g, '%s: %s' % (label, m[:140]),
                          m, site_of(it, t, loc))
            if entry == 'calculate_cross_sections':
                want = ('seq', (F(2), F(2), F(2), ZERO)) if g == 'L' else None
                got = rw
                if g == 'L':
                    ok = got == want
                else:
                    ok = w.uniform(got, ret) in (ZERO, ANY)
                detail = 'cross sections have %s-weights %s' % (g, fmt(got))
            else:
                ok = w.uniform(rw, ret) in (ZERO, ANY)
                detail = 'result has %s-weight %s' % (g, fmt(rw))
            if rw == UNK and not conflicts:
                check.error('%s [%s]: result weight undetermined: %s' % (
                    label, g, '; '.join(m[:200] for m, t in unknowns[:3])))
                continue
            if rw == UNK and conflicts:
                continue
            check.require(ok, 'E1-%s-result-weight' % g, label, detail, loc,
                          fail_detail=detail + ' (expected %s)' % (
                              '(2, 2, 2, 0)' if entry == 'calculate_cross_sections'
                              and g == 'L' else '0'))
            check.ok('E1-%s-solver-arguments' % g, label,
                     '%d solver / library calls typed, all arguments weight 0' % len(sinks),
                     loc)
            # unknowns that touch a sink are analysis errors
            sink_terms = set()
            for c in sinks:
                for a in list(c['args']) + [v for k, v in c['kwargs']]:
                    if w.w(a) == UNK and not conflicts:
                        check.error('%s [%s]: argument of %s could not be typed: %s'
                                    % (label, g, c['name'], show(a)[:120]))
    check.floor('configurations', nconf, 20)
    check.extra['assumed_dimensionless_attributes'] = sorted(assumed)
    check.extra['L_seeds'] = sorted(L_SEEDS)
    check.extra['N_seeds'] = sorted(N_SEEDS)
    interface_level(check, prog)
    detector_constructors(check, prog)
    geometry_helpers(check, prog)
    # the weights above are those of *one* evaluation: they hold for every member
    # of a superposition and for every later call only if the hand-off leaves the
    # detector's coordinates unscaled (rule shared with C07)
    from . import c07
    c07.coordinates(check, prog)


def detector_constructors(check, prog):
    """Pixel coordinates are degree-1 homogeneous in spacing / origin."""
    M = 'holopy.core.metadata.'
    q = M + 'make_coords'
    fd = prog.func(q)
    loc = prog.loc(q, fd)

    def decide(t):
        if t[0] == 'call' and t[1] == 'numpy.isscalar':
            return False
        return None
    it = Interp(prog, max_depth=3, decide=decide)
    res = it.analyze(q)
    w = Weigher(L_SEEDS, sym_seeds={'shape': ZERO, 'spacing': F(1), 'z': F(1)},
                name='L', loops=it.loops)
    rw = w.w(res.ret)
    for c in it.calls:
        for a in list(c['args']) + [v for k, v in c['kwargs']]:
            w.w(a)
    conflicts = [m for k, m, t in w.problems if k == 'conflict']
    for m in conflicts:
        check.bad('E1-L-type-conflict', 'make_coords: ' + m[:120], m, loc)
    got = None
    if isinstance(rw, tuple) and rw[0] == 'dict':
        got = {k: w.uniform(v, res.ret) for k, v in rw[1].items()}
    elif isinstance(rw, tuple) and rw[0] in ('seq', 'T'):
        got = {'all': w.uniform(rw, res.ret)}
    elif rw == ZERO or isinstance(rw, F):
        got = {'all': rw}
    if got is None and not conflicts:
        # dict(list of pairs): type the pairs
        pairs = [x for x in subterms(res.ret) if x[0] == 'tuple' and len(x[1]) == 2
                 and x[1][0][0] == 'const' and x[1][0][1] in ('x', 'y', 'z')]
        got = {p[1][0][1]: w.uniform(w.w(p[1][1]), res.ret) for p in pairs}
    if not conflicts:
        ok = bool(got) and all(v == F(1) for v in got.values())
        check.require(ok, 'E1-L-result-weight', 'make_coords',
                      'pixel coordinates scale with the spacing (weight 1): %s' % (
                          {k: str(v) for k, v in (got or {}).items()}), loc,
                      fail_detail='coordinate weights %s' % (
                          {k: str(v) for k, v in (got or {}).items()}))


def fmt(w):
    if isinstance(w, tuple) and w[0] == 'seq':
        return '(' + ', '.join(fmt(x) for x in w[1]) + ')'
    return str(w)


def site_of(it, t, default):
    """best-effort source location of a term: the call record that mentions it"""
    for c in it.calls:
        for a in list(c['args']) + [v for k, v in c['kwargs']]:
            if a is t:
                return '%s:%d' % (c['module'], c['lineno'])
    for e in it.effects:
        for key in ('value', 'target', 'base'):
            if e.get(key) is t:
                return '%s:%d' % (e['module'], e['lineno'])
    return default


def interface_level(check, prog):
    """calc_cross_sections forms k = 2 pi / (lambda / n_m); the default-theory
    rule compares two lengths."""
    I = 'holopy.scattering.interface.'
    it = Interp(prog, max_depth=2, opaque=[
        I + 'validate_scatterer', I + 'interpret_theory',
        IFQ + '.calculate_cross_sections', 'holopy.core.metadata.to_vector'])
    res = it.analyze(I + 'calc_cross_sections')
    fd = prog.func(I + 'calc_cross_sections')
    loc = prog.loc(I + 'calc_cross_sections', fd)
    calls = [c for c in it.calls if c['name'].endswith('calculate_cross_sections')]
    check.floor('calculate_cross_sections call sites', len(calls), 1)
    for c in calls:
        kws = call_args(prog, c)
        for g, seeds, want_k, want_n in (('L', {'illum_wavelen': F(1), 'medium_index': ZERO},
                                          F(-1), ZERO),
                                         ('N', {'illum_wavelen': F(1), 'medium_index': F(1)},
                                          ZERO, F(1))):
            w = Weigher({}, sym_seeds=dict(seeds, scatterer=NA, theory=NA,
                                           illum_polarization=ZERO), name=g)
            k = w.w(kws.get('medium_wavevec')) if 'medium_wavevec' in kws else UNK
            check.require(k == want_k, 'E1-%s-wavevector' % g,
                          'calc_cross_sections medium_wavevec',
                          'k = 2*pi/(lambda/n_m) has %s-weight %s' % (g, want_k), loc,
                          fail_detail='medium_wavevec = %s has %s-weight %s' % (
                              show(kws.get('medium_wavevec'))[:100], g, k))
            n = w.w(kws.get('medium_index')) if 'medium_index' in kws else UNK
            check.require(n == want_n, 'E1-%s-wavevector' % g,
                          'calc_cross_sections medium_index',
                          'medium_index passed through', loc)
    # get_wavevec_from
    q = 'holopy.scattering.imageformation.get_wavevec_from'
    it = Interp(prog, max_depth=1)
    res = it.analyze(q)
    for g, seeds, want in (('L', L_SEEDS, F(-1)), ('N', N_SEEDS, ZERO)):
        w = Weigher(seeds, sym_seeds={'schema': NA}, name=g)
        k = w.w(res.ret)
        check.require(k == want, 'E1-%s-wavevector' % g, 'get_wavevec_from',
                      'k has %s-weight %s' % (g, want), prog.loc(q, prog.func(q)),
                      fail_detail='get_wavevec_from returns %s with %s-weight %s' % (
                          show(res.ret)[:100], g, k))
    # default-theory threshold compares two lengths
    q = I + '_choose_mie_vs_multisphere'
    it = Interp(prog, max_depth=2)
    res = it.analyze(q)
    w = Weigher(L_SEEDS, sym_seeds={'spheres': NA}, name='L', loops=it.loops)
    for o in res.outcomes:
        for ct, pol in o.cond:
            if ct[0] not in ('loop-iter', 'exc'):
                w.w(ct)
        if o.value is not None:
            w.w(o.value)
    conflicts = [m for k, m, t in w.problems if k == 'conflict']
    check.require(not conflicts, 'E1-L-threshold', '_choose_mie_vs_multisphere',
                  'the Mie/Multisphere rule compares quantities of equal weight '
                  '(separation <= 30 * radius)', prog.loc(q, prog.func(q)),
                  fail_detail='; '.join(conflicts)[:300])


def geometry_helpers(check, prog):
    """Positions handed to the solvers by clusters pass through the rigid-motion
    helpers first (RigidCluster.scatterers, Scatterers.rotated / translated): these
    must be homogeneous of degree 1 in the lengths -- no rounding to a fixed number
    of decimals, no absolute tolerances, no added constants."""
    CM = 'holopy.core.math.'
    cases = [
        (CM + 'rotate_points', {'points': F(1), 'theta': ZERO, 'phi': ZERO, 'psi': ZERO},
         F(1), 'rotated points scale with the points'),
        (CM + 'rotation_matrix', {'alpha': ZERO, 'beta': ZERO, 'gamma': ZERO,
                                  'radians': ZERO}, ZERO, 'the rotation matrix is a pure number'),
    ]
    for q, seeds, want, text in cases:
        fd = prog.func(q)
        loc = prog.loc(q, fd)
        it = Interp(prog, max_depth=2)
        res = it.analyze(q)
        w = Weigher(L_SEEDS, sym_seeds=seeds, name='L', loops=it.loops)
        rws = []
        for o in res.returns:
            rws.append(w.uniform(w.w(o.value), o.value))
            for ct, pol in o.cond:
                if ct[0] not in ('loop-iter', 'exc'):
                    w.w(ct)
        for c in it.calls:
            for a in list(c['args']) + [v for k, v in c['kwargs']]:
                if a[0] != 'sym':
                    w.w(a)
        conflicts = [m for k, m, t in w.problems if k == 'conflict']
        short = q.rpartition('.')[2]
        for m in conflicts[:3]:
            check.bad('E1-L-type-conflict', '%s: %s' % (short, m[:120]), m, loc)
        if conflicts:
            continue
        if any(r == UNK for r in rws):
            unk = [m for k, m, t in w.problems if k == 'unknown']
            check.error('%s: result weight undetermined: %s' % (short, '; '.join(unk[:3])[:300]))
            continue
        check.require(all(r in (want, ANY) for r in rws) and rws, 'E1-L-result-weight',
                      short, text + ' (L-weight %s)' % want, loc,
                      fail_detail='%s returns values of L-weight %s' % (
                          short, [str(r) for r in rws]))
