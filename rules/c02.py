"""C02  Independent solvers agree for a single sphere -- the formulas coded are
the textbook ones; thickness- and radius-specification are equivalent.

Decides from the source (E5 formula conformance against oracles written here from
the standard texts, never copied from the repository; E7 non-interference):
  H1  LayeredSphere.r is the running sum of the thicknesses: r[0] = t[0],
      r[i+1] = r[i] + t[i+1];
  H2  theory code reads a sphere only through r, n, center (never `t`, never a
      test for LayeredSphere): two spheres with equal (r, n, center) cannot be
      told apart;
  H3  the single-layer / multi-layer seam: Mie._scat_coeffs uses the
      single-layer routine, on (m[0], x[0]), only on paths where there is
      exactly one layer; the multi-layer routine's closing a_n, b_n are the
      single-layer formulas with D_n(mx) -> H_n, m -> m_L, x -> x_L; its layer
      recursion is Yang's (2003) eqs. 24-29;
  H4  the pure-Python Mie series: a_l, b_l (Bohren & Huffman 4.53 with Riccati-
      Bessel psi = z j, xi = z h2, psi' = z j' + j); pi/tau upward recurrence
      (B&H 4.47) from pi_0 = 0, pi_1 = 1; S_perp = sum (2l+1)/(l(l+1)) (b tau +
      a pi), S_par with a <-> b; B&H 4.88 in miescatlib.scatcoeffs.
  H5  tolerance hand-off: where a function forwards two of its own defaulted
      numeric parameters to a callee, they are not crossed (judged by the
      default constants on both sides: 1e-3 never lands in the slot whose
      default is 1e-16); at the f2py boundary, where the callee has no Python
      signature, all call sites of one routine agree on which default constant
      travels in which slot (confirmed against the Fortran dummy arguments of
      lentz_dn1(z, n, eps1, eps2));
Not decided: agreement of the compiled solvers, accuracy / truncation,
degenerate multi-layer cases.
"""
import ast

from hpstatic.interp import Interp, expr_term
from hpstatic.loader import AnalysisError
from hpstatic.poly import Canon
from hpstatic.terms import (sym, intern, show, subterms, calls_in, NONE, num, kw, atoms_of,
                            is_num)
from hpstatic.xrnorm import atom_rewrite
from .c05 import subst
from .common import lt_form, canon_call, call_args, term_args
from .common import is_sum

MUTATION_TARGETS = {'holopy/scattering/theory/mielensfunctions.py': ['calculate_al_bl', 'riccati_psin', 'riccati_xin', 'calculate_pil_taul', '_eval', 'spherical_h2n'], 'holopy/scattering/theory/mie_f/miescatlib.py': ['scatcoeffs'], 'holopy/scattering/theory/mie_f/multilayer_sphere_lib.py': ['scatcoeffs_multi'], 'holopy/scattering/scatterer/sphere.py': ['r'], 'holopy/scattering/theory/mie.py': ['_scat_coeffs'], 'holopy/scattering/theory/mie_f/mie_specfuncs.py': ['Qratio'], 'holopy/scattering/theory/multisphere.py': ['_scsmfo_setup']}

LEVEL = 'other'
META = dict(
    claimed=True,
    technique='canonical-form equality of the coded Mie formulas (loop bodies as '
              'recurrences symbolic in the index) with textbook oracles; path-'
              'condition check of the single/multi-layer dispatch; attribute-read '
              '(non-interference) scan of the theory modules'
              '; index-convention agreement between the Hankel kind used for xi_n and'
              " the conjugation of the index; independently derived oracle for Yang's"
              ' Q_n ratio; slot-by-slot hand-off of the per-sphere quantities to AMNC'
              'ALC (slots from the Fortran header)'
              '; Fortran statement rule with DO-nest / block-IF tracking: the running '
              'product for psi_n in HANKEL excepts order 1'
              '; typed walk over the Fortran assignments (no single-precision quotient of integer variables and default-real literals); exit condition of the order loop of MIE1 (a tolerance-dependent jump is conjoined with a lower bound on the order); Fortran def-use of local work arrays (affine index minimisation over the DO nest: no read below the lowest stored index, with a positive fixture); Fortran error discipline (status argument tested between the CALL and the first read of an output)',
    level_text='Static formula conformance: the expressions coded are, for all n, x, '
               'm, the textbook ones (B&H 4.47, 4.53, 4.74, 4.88; Yang 2003 eqs. '
               '14-15, 24-29), and the radius/thickness descriptions are '
               'indistinguishable to theory code.  Convergence, truncation and the '
               'compiled solvers are not decided.',
    level_note='Trusted: scipy.special spherical_jn/yn compute j_n, y_n and their '
               'derivatives; the oracles below (cited) are transcribed correctly; '
               'h2 = j - i y (van de Hulst time convention, as the code uses).',
)

TH = 'holopy.scattering.theory.'
MLF = TH + 'mielensfunctions.'
MSL = TH + 'mie_f.miescatlib.'
MUL = TH + 'mie_f.multilayer_sphere_lib.'


def run(check, prog):
    check.explanation = (
        'Each Mie-series routine is evaluated into terms (loops as recurrences); the '
        'terms are compared in canonical form with oracle formulas transcribed from '
        'the literature.')
    check.trusted += ['scipy.special spherical Bessel functions', 'transcribed oracles']
    canon = Canon(atom_rewrite=atom_rewrite)
    layered_radii(check, prog, canon)
    non_interference(check, prog)
    seam(check, prog, canon)
    albl(check, prog, canon)
    pitau(check, prog, canon)
    smatrix(check, prog, canon)
    bh488(check, prog, canon)
    yang(check, prog, canon)
    qratio(check, prog)
    tolerance_slots(check, prog)
    cluster_handoff(check, prog)
    option_slots(check, prog)
    fortran_double_precision(check, prog)
    fortran_single_precision_quotients(check, prog)
    series_exit(check, prog)
    psi_product_start(check, prog)
    work_arrays_defined(check, prog)
    status_examined(check, prog)
    cluster_order_cap(check, prog)
    # "at every detector point and polarization": the lens theories place the
    # Mie series relative to the polarisation direction (rule shared with C05)
    from . import c05
    c05.mielens_rotation(check, prog, Canon(trig_expand=True))
    # ... and the compiled far-field routines receive (theta, phi) in the slots
    # their Fortran headers declare
    c05.f2py_coordinate_roles(check, prog)


def layered_radii(check, prog, canon):
    q = 'holopy.scattering.scatterer.sphere.LayeredSphere.r'
    fd = prog.func(q)
    loc = prog.loc(q, fd)
    it = Interp(prog, max_depth=1)
    res = it.analyze(q)
    v = res.ret
    t = intern(('attr', sym('self'), 't'))
    # r[j] = t[0] + ... + t[j]: either numpy.cumsum(t), or the recurrence
    # r[0] = t[0]; r[j] = r[j-1] + t[j] for j = 1 .. len(t)-1, with the position j
    # produced by enumerate (any start) over t[1:] or by range(1, len(t))
    ok = v == ('call', 'numpy.cumsum', (t,), ()) or \
        v == ('call', ('attr', t, 'cumsum'), (), ())
    why = 'r is not the running sum of the thicknesses: %s' % show(v)[:160]
    if v[0] == 'loop':
        init, step, itr = v[3], v[4], v[5]
        ok_init = init[0] == 'upd' and init[3] == num(0) and init[4] == ('idx', t, num(0)) \
            and init[1][0] == 'call' and init[1][1] == 'numpy.zeros'
        rest = intern(('idx', t, ('slice', num(1), NONE, NONE)))
        one = num(1)
        lid = v[1] if not isinstance(v[1], tuple) else None
        ok_step = ok_iter = False
        if step[0] == 'upd' and step[1][0] == 'phi' and step[2] == 'item':
            key, val = step[3], step[4]
            if itr[0] == 'call' and itr[1] == 'enumerate' and itr[2] and itr[2][0] == rest:
                kws = dict(itr[3])
                start = itr[2][1] if len(itr[2]) == 2 else kws.get('start', num(0))
                ok_iter = len(itr[2]) <= 2 and set(kws) <= {'start'}
                pos = [x for x in subterms(key) if x[0] == 'idx' and x[1][0] == 'elem'
                       and x[1][1][0] == 'call' and x[1][1][1] == 'enumerate'
                       and x[2] == num(0)]
                if pos:
                    P = pos[0]           # zero-based position in t[1:]
                    layer = intern(('elem', rest, P[1][2]))
                    ok_step = canon.equal(key, intern(('bin', '+', P, one))) and any(
                        is_sum(val, x, layer) and canon.equal(
                            intern(('bin', '+', x[2], one)), key)
                        for x in subterms(val) if x[0] == 'idx' and x[1] == step[1])
            elif itr == ('call', 'range', (one, ('call', 'len', (t,), ())), ()):
                ok_iter = True
                I = [x for x in subterms(key) if x[0] == 'elem' and x[1] == itr]
                if I and key == I[0]:
                    ok_step = any(
                        is_sum(val, x, intern(('idx', t, key))) and canon.equal(
                            intern(('bin', '+', x[2], one)), key)
                        for x in subterms(val) if x[0] == 'idx' and x[1] == step[1])
        ok = ok_init and ok_iter and ok_step
        why = 'init %s; loop over %s; step %s' % (show(init)[:80], show(itr)[:60],
                                                   show(step)[:160])
    check.require(ok, 'H1-cumulative-radii', 'LayeredSphere.r',
                  'r[0] = t[0]; r[i+1] = r[i] + t[i+1] (outer radius = running sum of '
                  'the thicknesses)', loc,
                  fail_detail='LayeredSphere.r is not the running sum of the thicknesses '
                  '(%s): with three or more layers, thickness and outer-radius '
                  'descriptions differ' % why)


def non_interference(check, prog):
    mods = [TH + m for m in ('mie', 'multisphere', 'mielens', 'lens', 'tmatrix',
                             'mielensfunctions', 'scatteringtheory')] + \
        ['holopy.scattering.imageformation']
    n = 0
    for mn in mods:
        m = prog.module(mn)
        for node in ast.walk(m.tree):
            if isinstance(node, ast.Attribute) and node.attr == 't' and \
                    isinstance(node.value, ast.Name) and node.value.id in (
                        'scatterer', 's', 'sph', 'sphere'):
                check.bad('H2-thickness-never-read', '%s reads .t' % mn.rpartition('.')[2],
                          'theory code reads the layer thicknesses directly: radius- '
                          'and thickness-specified spheres can be treated differently',
                          '%s:%d' % (m.relpath, node.lineno))
            if isinstance(node, ast.Name) and node.id == 'LayeredSphere':
                check.bad('H2-thickness-never-read',
                          '%s mentions LayeredSphere' % mn.rpartition('.')[2],
                          'theory code distinguishes LayeredSphere from Sphere',
                          '%s:%d' % (m.relpath, node.lineno))
            if isinstance(node, ast.Attribute) and isinstance(node.value, ast.Name) and \
                    node.value.id in ('scatterer', 's', 'sph'):
                n += 1
    check.ok('H2-thickness-never-read', 'theory modules',
             '%d attribute reads on scatterers, none of .t; no LayeredSphere test' % n,
             'holopy/scattering/theory')
    check.floor('scatterer attribute reads in theory modules', n, 15)


def seam(check, prog, canon):
    q = TH + 'mie.Mie._scat_coeffs'
    fd = prog.func(q)
    loc = prog.loc(q, fd)
    it = Interp(prog, max_depth=1, opaque=[MSL + 'scatcoeffs', MSL + 'nstop',
                                           MUL + 'scatcoeffs_multi',
                                           'holopy.core.utils.ensure_array'])
    res = it.analyze(q)
    single = [o for o in res.returns if o.value[0] == 'call' and
              o.value[1] == MSL + 'scatcoeffs']
    multi = [o for o in res.returns if o.value[0] == 'call' and
             o.value[1] == MUL + 'scatcoeffs_multi']
    ok = len(single) == 1 and len(multi) == 1
    check.require(ok, 'H3-dispatch', 'Mie._scat_coeffs',
                  'one single-layer and one multi-layer exit', loc,
                  fail_detail='returns %s' % [show(o.value)[:60] for o in res.returns])
    if not ok:
        return
    v = single[0].value
    m0, x0 = v[2][0], v[2][1]
    xarr = x0[1] if x0[0] == 'idx' else None
    marr = m0[1] if m0[0] == 'idx' else None
    ok_idx = x0[0] == 'idx' and x0[2] == num(0) and m0[0] == 'idx' and m0[2] == num(0)
    # the path condition must force exactly one layer: assuming len(x) != 1, the
    # conjunction of the path's conditions (whatever their form: positive test,
    # negated early exit, ...) evaluates to false
    from hpstatic.logic import cond3
    lenx = intern(('call', 'len', (xarr,), ())) if xarr else None

    def more_layers(t):
        if lenx is not None and t[0] == 'cmp' and {t[2], t[3]} == {lenx, num(1)}:
            return {'==': False, '!=': True}.get(t[1])
        return None
    ok_one = ok_idx and cond3(single[0].cond, more_layers) is False
    check.require(ok_one, 'H3-dispatch', 'Mie._scat_coeffs single-layer branch',
                  'taken only when there is exactly one size parameter; uses m[0], x[0]',
                  loc, fail_detail='the single-layer routine is called with %s, %s on a '
                  'path that does not require len(x) == 1 (conditions: %s): the outer '
                  'layers of a multi-layer sphere are silently dropped' % (
                      show(m0)[:60], show(x0)[:60],
                      [('' if p else 'not ') + show(t)[:80] for t, p in single[0].cond]))
    # x = k * r, m = n / n_medium
    wx = expr_term(prog, 'medium_wavevec * r', {'medium_wavevec': sym('medium_wavevec'),
                                                'r': intern(('call', 'holopy.core.utils.ensure_array',
                                                             (('attr', sym('s'), 'r'),), ()))})
    wm = expr_term(prog, 'n / medium_index', {'medium_index': sym('medium_index'),
                                              'n': intern(('call', 'holopy.core.utils.ensure_array',
                                                           (('attr', sym('s'), 'n'),), ()))})
    mv = multi[0].value
    gm, gx = mv[2][0], mv[2][1]

    def strip(t):
        while t[0] == 'call' and t[1] == 'holopy.core.utils.ensure_array':
            t = t[2][0]
        return t
    c0 = Canon()
    check.require(c0.equal(strip(gx), wx) and c0.equal(strip(gm), wm), 'H3-dispatch',
                  'Mie._scat_coeffs arguments',
                  'size parameters x = k r, relative indices m = n / n_medium', loc,
                  fail_detail='x = %s, m = %s' % (c0.show(strip(gx))[:80],
                                                  c0.show(strip(gm))[:80]))
    # refusals: a zero radius, or a size parameter beyond the supported range --
    # nothing else (a negated guard would refuse every ordinary sphere)
    from .common import norm_cond, lt_form
    rz = [o for o in res.raises]
    okr = len(rz) == 2
    if okr:
        c1 = norm_cond(rz[0].cond)
        c2 = norm_cond(rz[1].cond)
        okr = len(c1) == 1 and c1[0][1] is True and c1[0][0][0] == 'call' and \
            isinstance(c1[0][0][1], tuple) and c1[0][0][1][2] == 'any' and \
            c1[0][0][1][1][0] == 'cmp' and c1[0][0][1][1][1] == '==' and \
            c1[0][0][1][1][3] == num(0) and \
            any(x == ('attr', sym('s'), 'r') for x in subterms(c1[0][0]))
        big = [t for t, p in c2 if p and t[0] == 'cmp']
        rest = [(t, p) for t, p in c2 if (t, p) != (c1[0][0], False)]
        okr = okr and len(rest) == 1 and len(big) == 1
        if okr:
            f = lt_form(big[0])
            okr = f is not None and f[0] == '<' and f[1][0] == 'num' and \
                f[2][0] == 'call' and isinstance(f[2][1], tuple) and f[2][1][2] == 'max'
    check.require(okr, 'H3-dispatch', 'Mie._scat_coeffs refusals',
                  'InvalidScatterer iff a radius is zero or the largest size parameter '
                  'exceeds the supported range', loc, fail_detail='raises under %s' % [
                      [(show(t)[:70], p) for t, p in o.cond] for o in rz])
    nst = v[2][2]
    check.require(nst == ('call', MSL + 'nstop', (x0,), ()), 'H3-dispatch',
                  'Mie._scat_coeffs truncation', 'nstop computed from the same x', loc)


def _outside(t, shields, target):
    """occurrences of `target` in `t` that are not inside one of `shields`"""
    out = []

    def go(x):
        if x in shields:
            return
        if x == target:
            out.append(x)
            return
        if isinstance(x, tuple):
            for y in x:
                if isinstance(y, tuple):
                    go(y)
    go(t)
    return out


def albl(check, prog, canon):
    q = MLF + 'AlBlFunctions.calculate_al_bl'
    fd = prog.func(q)
    loc = prog.loc(q, fd)
    psi = MLF + 'AlBlFunctions.riccati_psin'
    xi = MLF + 'AlBlFunctions.riccati_xin'
    it = Interp(prog, max_depth=1, opaque=[psi, xi])
    res = it.analyze(q)
    v = res.ret
    if v[0] != 'tuple' or len(v[1]) != 2:
        check.bad('H4-al-bl', 'calculate_al_bl', 'does not return (a, b)', loc)
        return
    a, b = v[1]
    n_, x_, l_ = sym('index_ratio'), sym('size_parameter'), sym('l')

    def f(fn, z, d):
        kws = (('derivative', ('const', True)),) if d else ()
        return canon_call(prog, fn, (l_, z), kws)
    # xi_n is built on h2_n = j_n - i y_n (checked below): the formulas are those of
    # the e^{+i w t} convention (van de Hulst), whose results are the complex
    # conjugates of the library's Lorenz-Mie (Bohren & Huffman) ones, and in which
    # an absorbing index is n - i k.  The library's own convention (Mie, Sphere.n,
    # the documentation) is n + i k, so the index must enter conjugated; otherwise
    # a_l(m) = conj(a_BH(conj m)) and an absorbing sphere is computed as a gain
    # medium.  (For a real index nothing changes.)
    conj_forms = [intern(('call', 'numpy.conj', (n_,), ())),
                  intern(('call', 'numpy.conjugate', (n_,), ())),
                  intern(('call', ('attr', n_, 'conjugate'), (), ())),
                  intern(('call', ('attr', n_, 'conj'), (), ()))]
    used = [m_ for m_ in conj_forms if any(x == m_ for x in subterms(a))]
    m_ = used[0] if used else n_
    nx = intern(('bin', '*', m_, x_))
    env = {'m': m_, 'psi_mx': f(psi, nx, False), 'dpsi_mx': f(psi, nx, True),
           'psi_x': f(psi, x_, False), 'dpsi_x': f(psi, x_, True),
           'xi_x': f(xi, x_, False), 'dxi_x': f(xi, x_, True)}
    bare = any(x == n_ and True for t_ in (a, b) for x in _outside(t_, conj_forms, n_))
    check.require(bool(used) and not bare, 'H4-al-bl', 'index convention',
                  'the relative index enters the e^{+iwt}-convention series conjugated '
                  '(Im n > 0 absorbs, as for the Lorenz-Mie solver)', loc,
                  fail_detail='calculate_al_bl uses index_ratio as given while xi_n is '
                  'built on h2_n: a_l(m) = conj(a_LorenzMie(conj m)), so a sphere with '
                  'n = 1.5 + 0.1j gains energy (Q_ext < Q_sca) in MieLens and absorbs in Mie')
    # Bohren & Huffman eq. 4.53
    wa = expr_term(prog, '(m*psi_mx*dpsi_x - psi_x*dpsi_mx) / (m*psi_mx*dxi_x - xi_x*dpsi_mx)',
                   env)
    wb = expr_term(prog, '(psi_mx*dpsi_x - m*psi_x*dpsi_mx) / (psi_mx*dxi_x - m*xi_x*dpsi_mx)',
                   env)
    c0 = Canon()
    check.require(c0.equal(a, wa), 'H4-al-bl', 'a_l',
                  'B&H 4.53: a_n = [m psi_n(mx) psi_n\'(x) - psi_n(x) psi_n\'(mx)] / '
                  '[m psi_n(mx) xi_n\'(x) - xi_n(x) psi_n\'(mx)]', loc,
                  fail_detail='a_l = %s' % c0.show(a)[:300])
    check.require(c0.equal(b, wb), 'H4-al-bl', 'b_l',
                  'B&H 4.53: b_n = [psi_n(mx) psi_n\'(x) - m psi_n(x) psi_n\'(mx)] / '
                  '[psi_n(mx) xi_n\'(x) - m xi_n(x) psi_n\'(mx)]', loc,
                  fail_detail='b_l = %s' % c0.show(b)[:300])
    # Riccati-Bessel functions
    z, n = sym('z'), sym('n')
    for fn, base, args in ((psi, 'scipy.special.spherical_jn', ('n', 'z')),
                           (xi, MLF + 'spherical_h2n', ('order', 'z'))):
        order = sym(args[0])
        for d in (False, True):
            def decide(t, d=d):
                if t == sym('derivative'):
                    return d
                return None
            it = Interp(prog, max_depth=1, decide=decide, opaque=[MLF + 'spherical_h2n'])
            res = it.analyze(fn)
            got = res.ret
            fz = intern(('call', base, (order, z), ()))
            if base.endswith('spherical_h2n'):
                dfz = canon_call(prog, base, (order, z),
                                 (('derivative', sym('derivative')),))
            else:
                dfz = intern(('call', base, (order, z), (('derivative', ('const', True)),)))
            want = intern(('bin', '*', z, fz)) if not d else \
                intern(('bin', '+', ('bin', '*', z, dfz), fz))
            short = fn.rpartition('.')[2]
            check.require(c0.equal(got, want), 'H4-riccati-bessel',
                          '%s%s' % (short, "'" if d else ''),
                          '%s = z f(z)%s' % (short, "; derivative z f'(z) + f(z)" if d
                                             else ''),
                          prog.loc(fn, prog.func(fn)),
                          fail_detail='%s returns %s' % (short, c0.show(got)[:160]))
    # h2 = j - i y
    q2 = MLF + 'spherical_h2n'
    it = Interp(prog, max_depth=1)
    res = it.analyze(q2)
    want = expr_term(prog, 'J - 1j * Y', {
        'J': intern(('call', 'scipy.special.spherical_jn', (sym('n'), sym('z'),
                                                             sym('derivative')), ())),
        'Y': intern(('call', 'scipy.special.spherical_yn', (sym('n'), sym('z'),
                                                             sym('derivative')), ()))})
    check.require(c0.equal(res.ret, want), 'H4-riccati-bessel', 'spherical_h2n',
                  'h2_n = j_n - i y_n', prog.loc(q2, prog.func(q2)),
                  fail_detail='returns %s' % c0.show(res.ret)[:120])


def pitau(check, prog, canon):
    q = MLF + 'calculate_pil_taul'
    fd = prog.func(q)
    loc = prog.loc(q, fd)
    it = Interp(prog, max_depth=1)
    res = it.analyze(q)
    lps = [l for l in it.loops.values() if l['func'] == q]
    v = res.ret
    # the two recurrences are named by their position in the returned pair
    okr = v[0] == 'tuple' and len(v[1]) == 2 and all(
        x[0] == 'attr' and x[2] == 'T' and x[1][0] == 'idx' and
        x[1][2] == ('slice', num(1), NONE, NONE) and x[1][1][0] == 'loop' for x in v[1])
    if len(lps) != 1 or not okr:
        check.bad('H4-pi-tau', 'calculate_pil_taul', 'no single recurrence loop whose '
                  'two arrays are returned as (pi[1:].T, tau[1:].T)', loc)
        return
    lp = lps[0]
    npi, ntau = v[1][0][1][1][1], v[1][1][1][1][1]
    if npi == ntau or npi not in lp['vars'] or ntau not in lp['vars']:
        check.bad('H4-pi-tau', 'calculate_pil_taul', 'returned arrays are not the two '
                  'recurrence variables', loc)
        return
    c0 = Canon()
    (pi0, pis), (tau0, taus) = lp['vars'][npi], lp['vars'][ntau]
    mu = None
    ok_init = pi0[0] == 'upd' and pi0[3] == num(1) and pi0[4] == num(1) and \
        pi0[1][0] == 'call' and pi0[1][1] == 'numpy.zeros'
    ok_init = ok_init and tau0[0] == 'upd' and tau0[3] == num(1) and \
        tau0[4][0] == 'call' and tau0[4][1] == 'numpy.cos'
    check.require(ok_init, 'H4-pi-tau', 'initial values',
                  'pi_0 = 0, pi_1 = 1, tau_1 = cos(theta)', loc,
                  fail_detail='pi starts as %s, tau as %s' % (show(pi0)[:80],
                                                             show(tau0)[:80]))
    rng = lp['iter']
    ok_rng = rng[0] == 'call' and rng[1] == 'range' and rng[2][0] == num(2) and \
        c0.equal(rng[2][1], intern(('bin', '+', sym('max_order'), num(1))))
    check.require(ok_rng, 'H4-pi-tau', 'recurrence range', 'n = 2 .. max_order', loc)
    if not (pis[0] == 'upd' and taus[0] == 'upd' and tau0[0] == 'upd'):
        check.bad('H4-pi-tau', 'recurrence', 'unexpected update form', loc)
        return
    n = pis[3]
    mu = tau0[4]
    P = pis[1]          # phi(pi)
    env = {'n': n, 'mu': mu, 'P': P, 'Pn': pis[4]}
    want_pi = expr_term(prog, '(2*n - 1)/(n - 1) * mu * P[n-1] - n/(n - 1) * P[n-2]', env)
    check.require(c0.equal(pis[4], want_pi) and pis[1][0] == 'phi', 'H4-pi-tau', 'pi_n',
                  'B&H 4.47: pi_n = (2n-1)/(n-1) mu pi_{n-1} - n/(n-1) pi_{n-2}', loc,
                  fail_detail='pi_n = %s' % c0.show(pis[4])[:240])
    # tau_n = n mu pi_n - (n+1) pi_{n-1}, with pi_n the value just computed
    want_tau = expr_term(prog, 'n * mu * Pn - (n + 1) * P[n-1]', env)
    check.require(c0.equal(taus[4], want_tau) and taus[3] == n, 'H4-pi-tau', 'tau_n',
                  'B&H 4.47: tau_n = n mu pi_n - (n+1) pi_{n-1}', loc,
                  fail_detail='tau_n = %s' % c0.show(taus[4])[:240])
    check.require(okr, 'H4-pi-tau', 'returned orders',
                  'orders 1..N are returned, (pi, tau), theta-major', loc)


def smatrix(check, prog, canon):
    q = MLF + 'MieScatteringMatrix._eval'
    fd = prog.func(q)
    loc = prog.loc(q, fd)
    for which, first, second in (('perpendicular', 'bls', 'als'),
                                 ('parallel', 'als', 'bls')):
        def decide(t, which=which):
            if t[0] == 'cmp' and t[1] == '==' and t[2] == ('attr', sym('self'),
                                                          'parallel_or_perpendicular'):
                return t[3] == ('const', which)
            return None
        it = Interp(prog, max_depth=1, decide=decide,
                    opaque=[MLF + 'calculate_al_bl', MLF + 'calculate_pil_taul'])
        res = it.analyze(q)
        v = res.ret
        sm = v if (v[0] == 'call' and v[1] == 'numpy.sum') else None
        if sm is None:
            cand = [x for x in subterms(v) if x[0] == 'call' and x[1] == 'numpy.sum']
            sm = cand[0] if cand else None
        ok = sm is not None and kw(sm, 'axis') == num(1)
        if not ok:
            check.bad('H4-scattering-matrix', 'S_' + which, 'no sum over orders', loc)
            continue
        body = sm[2][0]
        pt = [x for x in subterms(body) if x[0] == 'call' and
              x[1] == MLF + 'calculate_pil_taul']
        ab = [x for x in subterms(body) if x[0] == 'comp' and any(
            y[0] == 'call' and y[1] == 'numpy.array' for y in subterms(x))]
        okf = bool(pt) and body[0] == 'bin' and body[1] == '*'
        if okf:
            coeffs, mix = body[2], body[3]
            if not any(x[0] == 'comp' for x in subterms(coeffs)) or \
                    any(x == pt[0] for x in subterms(coeffs)):
                coeffs, mix = mix, coeffs
            pils = intern(('idx', pt[0], num(0)))
            tauls = intern(('idx', pt[0], num(1)))
            # mix = X*tauls + Y*pils where X, Y are the al/bl arrays
            c0 = Canon()
            r = c0.rat(mix)
            pils, tauls = c0.canon_term(pils), c0.canon_term(tauls)
            terms = {}
            if r.den != {(): 1}:
                terms = None
            for mono, c in (r.num.items() if terms is not None else ()):
                atoms = [a for a, e in mono]
                if c != 1 or len(mono) != 2 or any(e != 1 for a, e in mono):
                    terms = None
                    break
                if tauls in atoms:
                    terms['tau'] = [a for a in atoms if a != tauls][0]
                elif pils in atoms:
                    terms['pi'] = [a for a in atoms if a != pils][0]
            okf = bool(terms) and set(terms) == {'tau', 'pi'}
            if okf:
                # which of (als, bls) multiplies tau?  als = element 0 of zip(*als_bls)
                def which_of(t):
                    k = [y for y in subterms(t) if y[0] == 'idx' and is_num(y[2])]
                    return k[0][2][1] if k else None
                itau, ipi = which_of(terms['tau']), which_of(terms['pi'])
                want_tau = 1 if first == 'bls' else 0
                okf = itau == want_tau and ipi == 1 - want_tau
            # coefficient (2l+1)/(l(l+1))
            cc = [x for x in subterms(coeffs) if x[0] == 'comp']
            okc = bool(cc)
            if okc:
                e = cc[0][3][0][0]
                okc = c0.equal(cc[0][2], expr_term(prog, '(2*l + 1)/(l*(l + 1))', {'l': e})) \
                    and cc[0][3][0][1][0] == 'call' and cc[0][3][0][1][1] == 'range' and \
                    cc[0][3][0][1][2][0] == num(1)
            okf = okf and okc
            if okf:
                # orders 1 .. L for the weights, the angular functions and the
                # coefficients alike; the coefficient routine gets (m, x, l)
                rng = cc[0][3][0][1]
                L = rng[2][1] if len(rng[2]) == 2 else None
                Lterm = None
                if L is not None and L[0] == 'bin' and L[1] == '+' and \
                        num(1) in (L[2], L[3]):
                    Lterm = L[3] if L[2] == num(1) else L[2]
                okL = Lterm is not None and len(pt[0][2]) == 2 and \
                    pt[0][2][1] == Lterm and pt[0][2][0] == sym(fd.args.args[1].arg)
                ab_calls = [x for x in subterms(body) if x[0] == 'call' and
                            x[1] == MLF + 'calculate_al_bl']
                me_ = sym(fd.args.args[0].arg)
                okab = bool(ab_calls) and all(
                    len(x[2]) == 3 and x[2][0] == ('attr', me_, 'index_ratio') and
                    x[2][1] == ('attr', me_, 'size_parameter') for x in ab_calls)
                okf = okL and okab
        check.require(okf, 'H4-scattering-matrix', 'S_' + which,
                      'S_%s = sum_l (2l+1)/(l(l+1)) (%s tau_l + %s pi_l)' % (
                          which, first[0], second[0]), loc,
                      fail_detail='S_%s sums %s' % (which, show(body)[:240]))


def bh488(check, prog, canon):
    q = MSL + 'scatcoeffs'
    fd = prog.func(q)
    loc = prog.loc(q, fd)
    it = Interp(prog, max_depth=1, opaque=[TH + 'mie_f.mie_specfuncs.riccati_psi_xi'])
    res = it.analyze(q)
    v = res.ret
    ok = v[0] == 'call' and v[1] == 'numpy.array' and v[2][0][0] == 'list' and \
        len(v[2][0][1]) == 2
    if not ok:
        check.bad('H4-bh-4.88', 'scatcoeffs', 'does not return array([a, b])', loc)
        return
    an, bn = [x[1] if x[0] == 'idx' else x for x in v[2][0][1]]
    sl = [x[2] for x in v[2][0][1] if x[0] == 'idx']
    m, x, nstop = sym('m'), sym('x'), sym('nstop')
    D = [c for c in subterms(an) if c[0] == 'call' and isinstance(c[1], str) and
         c[1].endswith('dn_1_down')]
    px = [c for c in subterms(an) if c[0] == 'call' and c[1].endswith('riccati_psi_xi')
          ] if True else []
    if not D or not px:
        check.bad('H4-bh-4.88', 'scatcoeffs', 'log-derivative / Riccati-Bessel calls not '
                  'found', loc)
        return
    env = {'D': D[0], 'psi': intern(('idx', px[0], num(0))),
           'xi': intern(('idx', px[0], num(1))), 'm': m, 'x': x, 'nstop': nstop}
    shift = 'np.concatenate((np.zeros(1), %s))[0:nstop+1]'
    n_ = 'np.arange(nstop+1)'
    wa = expr_term(prog, '((D/m + %s/x)*psi - %s) / ((D/m + %s/x)*xi - %s)' % (
        n_, shift % 'psi', n_, shift % 'xi'), env)
    wb = expr_term(prog, '((D*m + %s/x)*psi - %s) / ((D*m + %s/x)*xi - %s)' % (
        n_, shift % 'psi', n_, shift % 'xi'), env)
    c0 = Canon()
    check.require(c0.equal(an, wa), 'H4-bh-4.88', 'scatcoeffs a_n',
                  'B&H 4.88: a_n = ([D_n(mx)/m + n/x] psi_n - psi_{n-1}) / '
                  '([D_n(mx)/m + n/x] xi_n - xi_{n-1})', loc,
                  fail_detail='a_n = %s' % c0.show(an)[:300])
    check.require(c0.equal(bn, wb), 'H4-bh-4.88', 'scatcoeffs b_n',
                  'B&H 4.88: b_n = ([m D_n(mx) + n/x] psi_n - psi_{n-1}) / '
                  '([m D_n(mx) + n/x] xi_n - xi_{n-1})', loc,
                  fail_detail='b_n = %s' % c0.show(bn)[:300])
    # D_n evaluated at m x; psi, xi at x; output starts at n = 1
    okD = c0.equal(D[0][2][0], intern(('bin', '*', m, x)))
    okp = px[0][2][0] == x and px[0][2][1] == nstop
    oks = all(s[0] == 'slice' and s[1] == num(1) for s in sl) and len(sl) == 2
    check.require(okD and okp and oks, 'H4-bh-4.88', 'scatcoeffs arguments',
                  'D_n at m x; psi_n, xi_n at x; orders 1..nstop returned', loc,
                  fail_detail='D%s, psi/xi%s, slices %s' % (
                      show(D[0][2][0]), show(px[0][2][0]), [show(s) for s in sl]))


    # the downward recursion starts from the continued fraction evaluated at the
    # same argument and at the order the recursion starts from:
    #   dn_1_down(z, nmx, nstop, start_val = lentz_dn1(z, nmx, eps1, eps2))
    a = D[0][2]
    mx = intern(('bin', '*', m, x))
    top = intern(('bin', '+', nstop, num(1)))
    okr = len(a) == 4 and c0.equal(a[1], top) and c0.equal(a[2], nstop) and \
        a[3][0] == 'call' and isinstance(a[3][1], str) and \
        a[3][1].endswith('lentz_dn1') and len(a[3][2]) >= 2 and \
        c0.equal(a[3][2][0], mx) and c0.equal(a[3][2][1], top)
    check.require(okr, 'H4-bh-4.88', 'scatcoeffs downward recursion',
                  'D_n(mx) runs down from order nstop + 1 to nstop orders, started '
                  'from the Lentz continued fraction at the same argument m x and '
                  'the same order nstop + 1', loc,
                  fail_detail='dn_1_down%s' % show(('tuple', a))[:200])


def yang(check, prog, canon):
    q = MUL + 'scatcoeffs_multi'
    fd = prog.func(q)
    loc = prog.loc(q, fd)
    sf = TH + 'mie_f.mie_specfuncs.'
    it = Interp(prog, max_depth=1, opaque=[sf + 'log_der_13', sf + 'Qratio',
                                           sf + 'riccati_psi_xi', MSL + 'nstop'])
    res = it.analyze(q)
    # the two recurrences are named by their role: H^a is the loop-carried value
    # the returned a_n is built from, H^b the one b_n is built from
    v0 = res.ret
    nA = nB = None
    if v0[0] == 'call' and v0[1] == 'numpy.array' and v0[2] and v0[2][0][0] == 'list' \
            and len(v0[2][0][1]) == 2:
        la = {x[1] for x in subterms(v0[2][0][1][0]) if x[0] == 'loop'}
        lb = {x[1] for x in subterms(v0[2][0][1][1]) if x[0] == 'loop'}
        if len(la) == 1 and len(lb) == 1 and la != lb:
            nA, nB = next(iter(la)), next(iter(lb))
    lps = [l for l in it.loops.values() if l['func'] == q and nA in l['vars']
           and nB in l['vars']]
    if len(lps) != 1:
        check.bad('H3-yang-recursion', 'scatcoeffs_multi', 'layer loop not found', loc)
        return
    lp = lps[0]
    c0 = Canon()
    lay = [x for x in subterms(lp['vars'][nA][1]) if x[0] == 'elem'][0]
    marr = [x for x in subterms(lp['vars'][nA][1]) if x[0] == 'idx' and x[2] == lay]
    ma = None
    xa = None
    pm, px_ = [sym(a.arg) for a in fd.args.args[:2]]
    for x in subterms(lp['vars'][nA][1]):
        if x[0] == 'bin' and x[1] == '*' and x[2][0] == 'idx' and x[3][0] == 'idx' and \
                x[2][2] == lay and x[3][2] == lay:
            # the first positional parameter is the index array, the second the
            # size-parameter array (the caller passes them in that order)
            for A, B in ((x[2][1], x[3][1]), (x[3][1], x[2][1])):
                if any(y == pm for y in subterms(A)) and any(y == px_ for y in subterms(B)):
                    ma, xa = A, B
    if ma is None:
        check.bad('H3-yang-recursion', 'scatcoeffs_multi',
                  'cannot identify m_l x_l in the layer loop', loc)
        return
    # ... and they are the caller's arrays themselves, layer for layer: only a
    # conversion of the element type may sit in between (dropping, merging or
    # re-ordering layers changes which sphere is computed)
    def converted_only(t, p):
        while t != p:
            if t[0] == 'call' and t[1] in ('numpy.array', 'numpy.asarray',
                                           'numpy.atleast_1d',
                                           'holopy.core.utils.ensure_array') and \
                    len(t[2]) == 1 and set(dict(t[3])) <= {'dtype'}:
                t = t[2][0]
            elif t[0] == 'call' and isinstance(t[1], tuple) and t[1][0] == 'attr' and \
                    t[1][2] == 'astype' and len(t[2]) == 1:
                t = t[1][1]
            else:
                return False
        return True
    check.require(converted_only(ma, pm) and converted_only(xa, px_), 'H3-yang-recursion',
                  'scatcoeffs_multi layers',
                  'the recursion runs over the given index and size-parameter arrays, '
                  'every layer, in the given order', loc,
                  fail_detail='the recursion uses m = %s, x = %s' % (
                      show(ma)[:100], show(xa)[:100]))
    Ha, Hb = intern(('phi', nA, lay[2])), intern(('phi', nB, lay[2]))
    env = {'m': ma, 'x': xa, 'l': lay, 'Ha': Ha, 'Hb': Hb, 'nstop': None}
    ld = [c for c in subterms(lp['vars'][nA][1]) if c[0] == 'call' and
          c[1] == sf + 'log_der_13']
    qr = [c for c in subterms(lp['vars'][nA][1]) if c[0] == 'call' and
          c[1] == sf + 'Qratio']
    z1 = expr_term(prog, 'm[l]*x[l-1]', env)
    z2 = expr_term(prog, 'm[l]*x[l]', env)
    d1 = [c for c in ld if c0.equal(c[2][0], z1)]
    d2 = [c for c in ld if c0.equal(c[2][0], z2)]
    if not d1 or not d2 or not qr:
        check.bad('H3-yang-recursion', 'scatcoeffs_multi',
                  'D_n at m_l x_{l-1} / m_l x_l or Q_n^l not found in the layer loop', loc)
        return
    env.update({'D1z1': intern(('idx', d1[0], num(0))), 'D3z1': intern(('idx', d1[0], num(1))),
                'D1z2': intern(('idx', d2[0], num(0))), 'D3z2': intern(('idx', d2[0], num(1))),
                'Q': qr[0]})
    # Yang (2003) eqs. 26-29 and 24-25
    G1 = '(m[l]*Ha - m[l-1]*D1z1)'
    G2 = '(m[l]*Ha - m[l-1]*D3z1)'
    Gt1 = '(m[l-1]*Hb - m[l]*D1z1)'
    Gt2 = '(m[l-1]*Hb - m[l]*D3z1)'
    wHa = expr_term(prog, '(%s*D1z2 - Q*%s*D3z2) / (%s - Q*%s)' % (G2, G1, G2, G1), env)
    wHb = expr_term(prog, '(%s*D1z2 - Q*%s*D3z2) / (%s - Q*%s)' % (Gt2, Gt1, Gt2, Gt1), env)
    check.require(c0.equal(lp['vars'][nA][1], wHa), 'H3-yang-recursion', 'H^a_n',
                  'Yang (2003) eqs. 24, 26, 27: H^a in layer l from layer l-1 (m_{l-1} '
                  'and m_l)', loc,
                  fail_detail='H^a step = %s' % c0.show(lp['vars'][nA][1])[:300])
    check.require(c0.equal(lp['vars'][nB][1], wHb), 'H3-yang-recursion', 'H^b_n',
                  'Yang (2003) eqs. 25, 28, 29', loc,
                  fail_detail='H^b step = %s' % c0.show(lp['vars'][nB][1])[:300])
    # Q ratio arguments and the loop range / start
    okq = c0.equal(qr[0][2][0], z1) and c0.equal(qr[0][2][1], z2)
    rng = lp['iter']
    okr = rng[0] == 'call' and rng[1] == 'numpy.arange' and rng[2][0] == num(1) and \
        rng[2][1] == ('attr', ma, 'size')
    h0 = lp['vars'][nA][0]
    okh = h0 == lp['vars'][nB][0] and h0[0] == 'idx' and h0[2] == num(0) and \
        h0[1][0] == 'call' and h0[1][1] == sf + 'log_der_13' and \
        c0.equal(h0[1][2][0], expr_term(prog, 'm[0]*x[0]', env))
    check.require(okq and okr and okh, 'H3-yang-recursion', 'start and range',
                  'H^a = H^b = D^1_n(m_1 x_1) in the core; layers 2..L; Q_n^l at '
                  '(m_l x_{l-1}, m_l x_l)', loc)
    # closing formulas == single-layer formulas with D -> H, m -> m_L, x -> x_L
    v = res.ret
    ok = v[0] == 'call' and v[1] == 'numpy.array' and v[2][0][0] == 'list'
    if not ok:
        check.bad('H3-seam', 'scatcoeffs_multi', 'does not return array([a, b])', loc)
        return
    an, bn = [x[1] if x[0] == 'idx' else x for x in v[2][0][1]]
    px = [c for c in subterms(an) if c[0] == 'call' and c[1] == sf + 'riccati_psi_xi']
    HA = [x for x in subterms(an) if x[0] == 'loop' and x[1] == nA]
    HB = [x for x in subterms(bn) if x[0] == 'loop' and x[1] == nB]
    if not px or not HA or not HB:
        check.bad('H3-seam', 'scatcoeffs_multi closing',
                  'closing formulas do not use the recursion results', loc)
        return
    L = expr_term(prog, 'm.size - 1', {'m': ma})
    nst = px[0][2][1]
    env2 = {'H': HA[0], 'psi': intern(('idx', px[0], num(0))),
            'xi': intern(('idx', px[0], num(1))), 'mL': intern(('idx', ma, L)),
            'xL': intern(('idx', xa, L)), 'nstop': nst}
    shift = 'np.concatenate((np.zeros(1), %s))[0:nstop+1]'
    n_ = 'np.arange(nstop+1)'
    wa = expr_term(prog, '((H/mL + %s/xL)*psi - %s) / ((H/mL + %s/xL)*xi - %s)' % (
        n_, shift % 'psi', n_, shift % 'xi'), env2)
    env2['H'] = HB[0]
    wb = expr_term(prog, '((H*mL + %s/xL)*psi - %s) / ((H*mL + %s/xL)*xi - %s)' % (
        n_, shift % 'psi', n_, shift % 'xi'), env2)
    check.require(c0.equal(an, wa) and c0.equal(bn, wb), 'H3-seam',
                  'scatcoeffs_multi closing a_n, b_n',
                  'Yang eqs. 14-15 = B&H 4.88 with D_n(mx) -> H_n, m -> m_L, x -> x_L: a '
                  'one-layer "layered" sphere takes the plain-sphere formula', loc,
                  fail_detail='a_n = %s' % c0.show(an)[:240])
    okx = c0.equal(px[0][2][0], intern(('call', ('attr', xa, 'max'), (), ())))
    check.require(okx, 'H3-seam', 'scatcoeffs_multi outer argument',
                  'psi, xi evaluated at the outermost size parameter', loc)


# ----------------------------------------------------------------------
def _num_default(node):
    if isinstance(node, ast.Constant) and isinstance(node.value, (int, float)) and \
            not isinstance(node.value, bool):
        return float(node.value)
    if isinstance(node, ast.UnaryOp) and isinstance(node.op, ast.USub):
        v = _num_default(node.operand)
        return None if v is None else -v
    return None


def _defaults_of(fd):
    a = fd.args
    names = [x.arg for x in a.posonlyargs + a.args]
    out = {}
    for n, d in zip(names[len(names) - len(a.defaults):], a.defaults):
        v = _num_default(d)
        if v is not None:
            out[n] = v
    for k, d in zip(a.kwonlyargs, a.kw_defaults):
        v = _num_default(d) if d is not None else None
        if v is not None:
            out[k.arg] = v
    return names, out


F2PY = {'lentz_dn1', 'dn_1_down', 'asm_mie_far', 'mie_fields', 'tmatrix_fields',
        'amncalc', 'asm', 'ampld', 'calc_scat_field', 'fieldstocart',
        'mie_internal_coeffs', 'log_der_1'}


def tolerance_slots(check, prog):
    crossed = []
    sites = {}          # f2py routine -> [(slot tuple of constants, where)]
    nforward = 0
    for m in prog.modules.values():
        if not m.name.startswith('holopy.scattering.theory'):
            continue
        for fn in ast.walk(m.tree):
            if not isinstance(fn, ast.FunctionDef):
                continue
            names, dflt = _defaults_of(fn)
            # a class may keep the tolerance as an attribute set from a defaulted
            # __init__ parameter: self.eps1 -> default of eps1
            attr_dflt = {}
            if names and names[0] == 'self':
                cls = [c for c in ast.walk(m.tree) if isinstance(c, ast.ClassDef) and
                       fn in c.body]
                for c in cls:
                    for i in c.body:
                        if isinstance(i, ast.FunctionDef) and i.name == '__init__':
                            _, d0 = _defaults_of(i)
                            for st in ast.walk(i):
                                if isinstance(st, ast.Assign) and len(st.targets) == 1 \
                                        and isinstance(st.targets[0], ast.Attribute) and \
                                        isinstance(st.targets[0].value, ast.Name) and \
                                        st.targets[0].value.id == 'self' and \
                                        isinstance(st.value, ast.Name) and \
                                        st.value.id in d0:
                                    attr_dflt[st.targets[0].attr] = d0[st.value.id]

            def const_of(a):
                if isinstance(a, ast.Name) and a.id in dflt:
                    return dflt[a.id]
                if isinstance(a, ast.Attribute) and isinstance(a.value, ast.Name) and \
                        a.value.id == 'self' and a.attr in attr_dflt:
                    return attr_dflt[a.attr]
                return None
            for call in ast.walk(fn):
                if not isinstance(call, ast.Call):
                    continue
                cname = call.func.attr if isinstance(call.func, ast.Attribute) else (
                    call.func.id if isinstance(call.func, ast.Name) else None)
                if cname is None:
                    continue
                actual = [const_of(a) for a in call.args]
                where = '%s:%d %s()' % (m.relpath, call.lineno, fn.name)
                if cname in F2PY:
                    if sum(1 for x in actual if x is not None) >= 1:
                        sites.setdefault(cname, []).append((tuple(actual), where, m, call))
                    continue
                # package callee with a Python signature
                tgt = None
                if isinstance(call.func, ast.Name):
                    r = prog.resolve_name(m.name, call.func.id)
                    if r and r[0] == 'func':
                        tgt = prog.func(r[1])
                elif isinstance(call.func, ast.Attribute):
                    try:
                        r = prog.resolve_expr(m.name, call.func)
                    except Exception:
                        r = None
                    if r and r[0] == 'func':
                        tgt = prog.func(r[1])
                if tgt is None:
                    continue
                fnames, fd_ = _defaults_of(tgt)
                bound = {}
                for i, a in enumerate(call.args):
                    if i < len(fnames) and actual[i] is not None and fnames[i] in fd_:
                        bound[fnames[i]] = actual[i]
                for k in call.keywords:
                    v = const_of(k.value)
                    if k.arg in fd_ and v is not None:
                        bound[k.arg] = v
                # by name: an argument called like another parameter of the callee
                # than the one it lands in (eps2 handed over as eps1 ...)
                def aname(a):
                    if isinstance(a, ast.Name):
                        return a.id
                    if isinstance(a, ast.Attribute) and isinstance(a.value, ast.Name) \
                            and a.value.id == 'self':
                        return a.attr
                    return None
                landed = {}
                for i, a in enumerate(call.args):
                    if i < len(fnames) and aname(a) is not None:
                        landed[fnames[i]] = aname(a)
                for k in call.keywords:
                    if k.arg is not None and aname(k.value) is not None:
                        landed[k.arg] = aname(k.value)
                for f, an in landed.items():
                    if an != f and an in fnames and f in fd_ and an in fd_ and \
                            landed.get(an) == f:
                        if f < an:
                            crossed.append((where, cname, f, an))
                if len(bound) >= 2:
                    nforward += 1
                    wrong = {f: v for f, v in bound.items() if fd_[f] != v}
                    for f, v in wrong.items():
                        for g, w in wrong.items():
                            if f < g and v == fd_[g] and w == fd_[f] and v != w:
                                crossed.append((where, cname, f, g))
    check.floor('defaulted parameters forwarded pairwise', nforward, 3)
    check.require(not crossed, 'H5-tolerances-not-crossed', 'internal hand-offs',
                  '%d calls forward two or more defaulted numeric parameters, none '
                  'crossed' % nforward, 'holopy/scattering/theory',
                  fail_detail='; '.join('%s passes its %s/%s defaults crossed to %s' % (
                      w, f, g, c) for w, c, f, g in crossed[:3]))
    nsite = 0
    for cname, lst in sorted(sites.items()):
        nsite += len(lst)
        width = max(len(a) for a, _, _, _ in lst)
        for k in range(width):
            vals = [(a[k], w, m, c) for a, w, m, c in lst if k < len(a) and a[k] is not None]
            if len(vals) < 2:
                continue
            counts = {}
            for v, w, m, c in vals:
                counts[v] = counts.get(v, 0) + 1
            major = max(counts, key=lambda x: counts[x])
            bad = [(v, w, m, c) for v, w, m, c in vals if v != major]
            check.require(not bad, 'H5-f2py-slot-agreement', '%s argument %d' % (cname, k + 1),
                          'every call site hands over the parameter whose default is %g '
                          '(%d sites)' % (major, len(vals)),
                          bad[0][1] if bad else lst[0][1],
                          fail_detail='%s passes the parameter whose default is %g where '
                          'the other %d call sites pass the one whose default is %g: the '
                          'two tolerances of the continued fraction are swapped' % (
                              bad[0][1] if bad else '', bad[0][0] if bad else 0,
                              counts[major], major))
    check.floor('f2py call sites carrying defaulted tolerances', nsite, 5)


# ----------------------------------------------------------------------
def cluster_handoff(check, prog):
    """H6: the multi-sphere solver receives, per sphere, the same dimensionless
    quantities the single-sphere series is evaluated at: size parameter k r, and the
    real and imaginary part of the *relative* index n / n_medium -- in the slots
    the Fortran header reads them from (SNI, SKI, XI of AMNCALC)."""
    import os
    from hpstatic.fortran import f2py_signatures
    q = TH + 'multisphere.Multisphere._scsmfo_setup'
    fd = prog.func(q)
    loc = prog.loc(q, fd)
    sig = f2py_signatures(os.path.join(prog.root, 'holopy/scattering/theory/mie_f/'
                                                  'scsmfo_min.for')).get('AMNCALC')
    if not sig:
        check.error('AMNCALC not found in scsmfo_min.for')
        return
    it = Interp(prog, max_depth=2,
                opaque=['holopy.scattering.scatterer.spherecluster.Spheres.__init__'])
    sc, k, med = [sym(a.arg) for a in fd.args.args[1:4]]
    it.types[sc] = prog.find_class('Spheres')
    it.analyze(q)
    calls = [c for c in it.calls if c['name'].endswith('amncalc')]
    if len(calls) != 1:
        check.bad('H6-cluster-handoff', 'Multisphere._scsmfo_setup',
                  'no single call of the compiled cluster solver', loc)
        return
    slots = dict(zip(sig, calls[0]['args']))
    slots.update({kk.upper(): v for kk, v in calls[0]['kwargs']})
    members = intern(('attr', sc, 'scatterers'))
    c0 = Canon()

    def quantity(t):
        """(part, attribute, scale) of a per-sphere array expression, or None"""
        if t[0] == 'call' and t[1] in ('numpy.array', 'numpy.asarray') and len(t[2]) == 1:
            return quantity(t[2][0])
        if t[0] == 'call' and t[1] == 'list' and len(t[2]) == 1:
            return quantity(t[2][0])
        if t[0] == 'comp' and len(t[3]) == 1 and t[3][0][1] == members and not t[3][0][2]:
            return quantity(t[2])
        if t[0] == 'attr' and t[2] in ('real', 'imag'):
            r = quantity(t[1])
            if r is None or r[0] != 'full':
                return None
            return ('re' if t[2] == 'real' else 'im', r[1], r[2])
        if t[0] == 'bin' and t[1] in ('/', '*'):
            for a, b in ((t[2], t[3]), (t[3], t[2])):
                if atoms_of(b) <= {k, med} and not any(
                        x[0] in ('attr', 'call', 'elem') for x in subterms(b)):
                    if t[1] == '/' and b is not t[3]:
                        continue
                    r = quantity(a)
                    if r is None:
                        return None
                    return (r[0], r[1], intern(('bin', t[1], r[2], b)))
            return None
        if t[0] == 'attr' and t[1][0] == 'elem' and t[1][1] == members:
            return ('full', t[2], num(1))
        return None
    want = {'SNI': ('re', 'n', intern(('bin', '/', num(1), med)), 'Re(n / n_medium)'),
            'SKI': ('im', 'n', intern(('bin', '/', num(1), med)), 'Im(n / n_medium)'),
            'XI': ('full', 'r', k, 'k r')}
    for slot, (part, attr, scale, text) in want.items():
        got = quantity(slots.get(slot, NONE))
        ok = got is not None and got[0] == part and got[1] == attr and \
            c0.equal(got[2], scale)
        check.require(ok, 'H6-cluster-handoff', 'amncalc slot %s' % slot,
                      'each sphere\'s %s' % text, loc,
                      fail_detail='slot %s receives %s%s' % (
                          slot, show(slots.get(slot, NONE))[:120],
                          '' if got is None else ' = %s-part of %s * %s' % (
                              got[0], got[1], c0.show(got[2]))))


def fortran_double_precision(check, prog):
    """H9: the compiled solvers compute in double precision (REAL*8 / COMPLEX*16
    throughout): the relative index must not pass through a single-precision
    value on its way in.  Fortran's CMPLX(a, b) without a KIND argument returns
    a *default* (single precision) complex whatever the kind of a and b -- the
    double form is DCMPLX(a, b) or CMPLX(a, b, KIND=8).  A bare CMPLX of double
    data rounds it to 24 bits: the cluster solver then agrees with the Lorenz-Mie
    solver evaluated at float32(m), 1e-7 away in general and tens of per cent on
    a narrow resonance."""
    import re
    from hpstatic.fortran import FortranProgram, scan_file
    from .c10 import meson_inputs, MIE_DIR, python_entry_points
    files = meson_inputs(prog.root, MIE_DIR)
    fp = FortranProgram(prog.root, files)
    entries = python_entry_points(prog, ['mieangfuncs', 'scsmfo_min', 'uts_scsmfo'])
    reach = {}
    for ent in entries:
        r = fp.reachable(ent)
        if r:
            reach.update(r)
    check.floor('mie_f units reachable from Python', len(reach), 10)
    BARE = re.compile(r'(?<![A-Za-z0-9_])cmplx\s*\(', re.I)

    def bare_cmplx(text):
        """argument lists of CMPLX calls without a kind"""
        out = []
        for m in BARE.finditer(text):
            depth, i, args, cur = 1, m.end(), [], ''
            while i < len(text) and depth:
                ch = text[i]
                if ch == '(':
                    depth += 1
                elif ch == ')':
                    depth -= 1
                    if not depth:
                        break
                if ch == ',' and depth == 1:
                    args.append(cur)
                    cur = ''
                else:
                    cur += ch
                i += 1
            args.append(cur)
            if len(args) < 3 and not any('kind' in a.lower() for a in args):
                out.append(','.join(a.strip() for a in args))
        return out
    # the scanner itself, on a two-line example (the expected count below is 0)
    assert bare_cmplx('ri=cmplx(sn,sk)') == ['sn,sk'] and \
        not bare_cmplx('ri=dcmplx(sn,sk)') and not bare_cmplx('z=cmplx(a,b,kind=8)')
    n = 0
    nbad = 0
    seen = set()
    for name in sorted(reach):
        u = fp.units[name]
        if id(u) in seen:
            continue
        seen.add(id(u))
        for line, text in u.stmts:
            n += 1
            for args in bare_cmplx(text):
                nbad += 1
                check.bad('H9-double-precision', '%s: CMPLX(%s)' % (u.name, args),
                          'CMPLX without a KIND returns single precision: the double '
                          'data are rounded to 24 bits (use DCMPLX)',
                          '%s:%d' % (u.path, line))
    check.floor('Fortran statements scanned for single-precision CMPLX', n, 500)
    if not nbad:
        check.ok('H9-double-precision', 'mie_f sources',
                 'no bare CMPLX in any unit reachable from Python', MIE_DIR)


_F_TOKEN = None


def _f_tokens(text):
    """tokens of a Fortran expression: ('num', kind) | ('id', name) | op"""
    import re
    global _F_TOKEN
    if _F_TOKEN is None:
        _F_TOKEN = re.compile(
            r"\s*(?:(\d+\.\d*(?:[eEdD][+-]?\d+)?(?:_\w+)?|\.\d+(?:[eEdD][+-]?\d+)?(?:_\w+)?|"
            r"\d+[eEdD][+-]?\d+|\d+)|([A-Za-z_]\w*)|(\*\*|//|[-+*/(),]|\.[a-zA-Z]+\.|[<>=/]=?|:))")
    out, i = [], 0
    while i < len(text):
        m = _F_TOKEN.match(text, i)
        if not m or m.end() == i:
            return None
        i = m.end()
        if m.group(1):
            lit = m.group(1).lower()
            if 'd' in lit or '_' in lit:
                out.append(('num', 'double'))
            elif '.' in lit or 'e' in lit:
                out.append(('num', 'single'))
            else:
                out.append(('num', 'int'))
        elif m.group(2):
            out.append(('id', m.group(2).lower()))
        else:
            out.append(m.group(3))
    return out


def single_precision_quotients(text, is_int):
    """Quotients of an assignment's right-hand side that Fortran evaluates in
    default (single) precision although an integer variable takes part: every
    operand is an integer entity or a real literal without a D exponent.
    `is_int(name)`: whether the identifier is of integer type.  Returns the
    source text of the statement once per such quotient."""
    if '=' not in text:
        return []
    lhs, _, rhs = text.partition('=')
    if rhs.startswith('=') or not lhs.strip() or lhs.strip().lower().startswith((
            'if', 'do ', 'call', 'print', 'write', 'parameter', 'data')):
        return []
    toks = _f_tokens(rhs.strip())
    if not toks:
        return []
    RANK = {'int': 0, 'single': 1, 'double': 2}
    pos = [0]
    hits = []

    def peek():
        return toks[pos[0]] if pos[0] < len(toks) else None

    def take():
        t = peek()
        pos[0] += 1
        return t

    def join(a, b):
        return (a[0] if RANK[a[0]] >= RANK[b[0]] else b[0], a[1] or b[1])

    def primary():
        t = take()
        if t is None:
            raise ValueError
        if t in ('-', '+'):
            return primary()
        if t == '(':
            v = expr()
            if take() != ')':
                raise ValueError
            return v
        if isinstance(t, tuple) and t[0] == 'num':
            return (t[1], False)
        if isinstance(t, tuple) and t[0] == 'id':
            name = t[1]
            if peek() == '(':
                take()
                args = []
                if peek() != ')':
                    args.append(expr())
                    while peek() in (',', ':'):
                        take()
                        if peek() not in (')', ','):
                            args.append(expr())
                if take() != ')':
                    raise ValueError
                if name in ('dble', 'dfloat', 'dcmplx', 'dreal', 'dimag'):
                    return ('double', False)
                if name in ('real', 'float', 'sngl', 'cmplx'):
                    return ('single', any(a[1] for a in args))
                if name in ('int', 'nint', 'mod', 'max0', 'min0', 'len', 'size'):
                    return ('int', any(a[1] for a in args) or True)
                if is_int(name):
                    return ('int', True)
                v = ('double', False)
                return v
            return ('int', True) if is_int(name) else ('double', False)
        raise ValueError

    def power():
        v = primary()
        if peek() == '**':
            take()
            e = power()
            v = (v[0] if v[0] != 'int' or e[0] == 'int' else e[0], v[1] or e[1])
        return v

    def term():
        v = power()
        while peek() in ('*', '/'):
            op = take()
            w = power()
            r = join(v, w)
            if op == '/' and r[0] == 'single' and r[1]:
                hits.append(text.strip())
            v = r
        return v

    def expr():
        v = term()
        while peek() in ('+', '-'):
            take()
            v = join(v, term())
        return v
    try:
        expr()
    except (ValueError, IndexError):
        return []
    return hits


def fortran_single_precision_quotients(check, prog):
    """H9b: no series weight is computed in single precision.  In Fortran a real
    literal without a D exponent is single precision, and an expression whose
    other operands are integers stays single: `(2.*n + 1.) / (n * (n + 1.))` is
    rounded to 24 bits before it is stored in a double -- every amplitude built
    from it is off by ~1e-8 relative, which is what separates 4 pi / k^2 Re S(0)
    from C_ext computed in Python's double precision.  Rule: in every unit
    reachable from Python, no quotient whose operands are integer variables and
    default-real literals only (a literal-only quotient such as `1./3.` in an
    order estimate involves no variable and is not looked at)."""
    import re
    from hpstatic.fortran import FortranProgram
    from .c10 import meson_inputs, MIE_DIR, python_entry_points
    files = meson_inputs(prog.root, MIE_DIR)
    fp = FortranProgram(prog.root, files)
    entries = python_entry_points(prog, ['mieangfuncs', 'scsmfo_min', 'uts_scsmfo'])
    reach = {}
    for ent in entries:
        r = fp.reachable(ent)
        if r:
            reach.update(r)
    # the walker itself, on the two forms it must tell apart
    ii = lambda n: n in ('n', 'm', 'nn1')
    assert single_precision_quotients('prefactor = (2.*n + 1.) / (n * (n + 1.))', ii)
    assert single_precision_quotients('pref = nn1 * (1. / m)', ii)
    assert not single_precision_quotients('prefactor = (2.d0*n + 1.d0) / (n * (n + 1.d0))', ii)
    assert not single_precision_quotients('dn(i - 1) = i / z - 1. / (dn(i) + i / z)', ii)
    assert not single_precision_quotients('xv=xv**(1./3.)', ii)
    assert not single_precision_quotients('fmn=1./fnr(n-m+1)/fnr(n+m)', ii)
    DECL = re.compile(r'^\s*integer\b[^:]*?(?:::)?\s*(.*)$', re.I)
    nst, nbad, seen = 0, 0, set()
    for name in sorted(reach):
        u = fp.units[name]
        if id(u) in seen:
            continue
        seen.add(id(u))
        texts = [t for _, t in u.stmts]
        none = any(re.match(r'^\s*implicit\s+none', t, re.I) for t in texts)
        declared = set()
        non_int = set()
        for t in texts:
            m = DECL.match(t)
            if m and not re.match(r'^\s*integer\s+function', t, re.I):
                for nm in re.findall(r'([A-Za-z_]\w*)\s*(?:\([^)]*\))?\s*(?:=[^,]*)?(?:,|$)',
                                     m.group(1)):
                    declared.add(nm.lower())
            m2 = re.match(r'^\s*(real|double\s+precision|complex|logical|character)\b'
                          r'[^:]*?(?:::)?\s*(.*)$', t, re.I)
            if m2:
                for nm in re.findall(r'([A-Za-z_]\w*)', m2.group(2)):
                    non_int.add(nm.lower())

        def is_int(nm, declared=declared, non_int=non_int, none=none):
            if nm in declared:
                return True
            if nm in non_int or none:
                return False
            return nm[0] in 'ijklmn'
        for line, t in u.stmts:
            nst += 1
            for hit in single_precision_quotients(t, is_int):
                nbad += 1
                check.bad('H9-double-precision', '%s: %s' % (u.name, ' '.join(hit.split())),
                          'this quotient has only integer variables and default-real '
                          'literals as operands: Fortran evaluates it in single '
                          'precision and the 24-bit result is what the double on the '
                          'left receives (write the literals with a D exponent)',
                          '%s:%d' % (u.path, line))
    check.floor('Fortran statements scanned for single-precision quotients', nst, 500)
    if not nbad:
        check.ok('H9-double-precision', 'mie_f quotients',
                 'no quotient of integer variables and default-real literals in any '
                 'unit reachable from Python', MIE_DIR)


def psi_product_start(check, prog):
    """H13: the Riccati-Bessel function psi_n of the cluster solver is not started
    by a quotient that has no digits.  `hankel` (backward branch, n > x) builds
    psi_n as the running product psi_n = psi_(n-1) / (n / x + D_n) from
    psi_0 = sin x.  The first factor, 1 / x + D_1 = psi_0 / psi_1, is a difference
    of two O(1) numbers that is ~0 when sin x is rounding noise -- x a multiple of
    pi: r = 0.5, lambda = 1, n_medium = 1 -- and every psi_n then carries an O(1)
    relative error (one-sphere cluster against Lorenz-Mie: C_ext 2.46 for 2.73 at
    x = pi, 3.59 for 7.39 at x = 2 pi; 6e-10 again one part in a million away).
    chi_n comes from its own recurrence, so the error does not cancel.  Rule: in
    every loop of HANKEL that updates PSI by that quotient, order 1 is excepted --
    the loop starts at 2, or the quotient sits on the branch i /= 1 of a test on
    the loop variable -- and PSI for order 1 is assigned from psi_0 / x and the
    cosine (the closed form sin x / x - cos x)."""
    import re
    from hpstatic.fortran import FortranProgram
    from .c10 import meson_inputs, MIE_DIR
    files = meson_inputs(prog.root, MIE_DIR)
    fp = FortranProgram(prog.root, files)
    u = fp.units.get('HANKEL')
    if u is None:
        check.error('subroutine HANKEL not found in the mie_f sources')
        return
    sq = lambda t: ''.join(t.upper().split())
    stmts = [(line, sq(t)) for line, t in u.stmts]
    # loops (DO label var=lo,hi  ... label CONTINUE / ENDDO) and block IFs
    loops = []          # stack of (var, lo)
    guards = []         # stack of [cond, in_else]
    n = 0
    for k, (line, t) in enumerate(stmts):
        m = re.match(r'^DO(\d+)?,?([A-Z][A-Z0-9]*)=([^,]+),', t)
        if m:
            loops.append((m.group(1), m.group(2), m.group(3), len(guards)))
            continue
        if loops and ((loops[-1][0] and u.labels.get(k) == int(loops[-1][0])) or
                      (not loops[-1][0] and t in ('ENDDO',))):
            loops.pop()
            continue
        mb = re.match(r'^IF\((.*)\)THEN$', t)
        if mb:
            guards.append([mb.group(1), False])
            continue
        if t == 'ELSE' and guards:
            guards[-1][1] = True
            continue
        if t in ('ENDIF',) and guards:
            guards.pop()
            continue
        m = re.match(r'^PSI=PSI/\((.*)\)$', t)
        if m and 'XI(' in m.group(1) and loops:
            n += 1
            _, var, lo, gdepth = loops[-1]
            inner = guards[gdepth:]
            # (the exception may be narrowed to where it is needed: `i = 1 and
            # |psi_0| < |psi_1|` keeps the quotient where it is the accurate one,
            # at small x and next to the zeros of psi_1)
            def first_order(c):
                return c in ('%s.EQ.1' % var, '%s==1' % var) or \
                    c.startswith('%s.EQ.1.AND.' % var) or c.startswith('%s==1.AND.' % var)
            excepted = lo not in ('1', '0') or any(
                (first_order(c) and in_else) or
                (c in ('%s.GT.1' % var, '%s.NE.1' % var, '%s>1' % var, '%s/=1' % var,
                       '%s.GE.2' % var, '%s>=2' % var) and not in_else)
                for c, in_else in inner)
            check.require(excepted, 'H13-psi-product-start',
                          'scsmfo_min.for::HANKEL PSI quotient in DO %s=%s' % (var, lo),
                          'order 1 is not taken as psi_0 / (1 / x + D_1)',
                          '%s:%d' % (u.path, line),
                          fail_detail='`%s` runs from %s = %s: for sin x ~ 1e-16 the '
                          'divisor is the difference of two O(1) numbers and psi_1 '
                          '(hence every psi_n) has no correct digit' % (t, var, lo))
    check.need('PSI product loops in HANKEL', n, 1, 'H13-psi-product-start',
               'scsmfo_min.for::HANKEL', 'psi_n is built as a running product',
               '%s:%d' % (u.path, u.line))


def series_exit(check, prog):
    """H10: the single-sphere series of the cluster solver is not cut at the first
    small term.  The Lorenz-Mie series is not monotone: for m > 1 narrow resonances
    sit at orders x < n < m x, after the non-resonant terms have fallen below any
    tolerance.  An early exit on the size of the *current* term alone (mie1:
    `if(err.lt.qeps.or.n.eq.nstop) goto 310`) stops in front of such an order and
    returns a_n = b_n = 0 for it.  Rule: in MIE1, a jump out of the order loop that
    depends on the tolerance is conjoined with a lower bound on the order n."""
    import re
    from hpstatic.fortran import FortranProgram
    from .c10 import meson_inputs, MIE_DIR
    files = meson_inputs(prog.root, MIE_DIR)
    fp = FortranProgram(prog.root, files)
    u = fp.units.get('MIE1')
    if u is None:
        check.error('subroutine MIE1 not found in the mie_f sources')
        return
    exits = []
    stmts = list(u.stmts)
    for i, (line, text) in enumerate(stmts):
        t = ' '.join(text.lower().split())
        # `if (c) goto 310`, `if (c) exit`, and the block form of either
        m = re.match(r'^if\s*\((.*)\)\s*(go\s*to\s*\d+|exit)\s*$', t)
        if m is None:
            mb = re.match(r'^if\s*\((.*)\)\s*then$', t)
            if mb:
                depth = 1
                for _, nxt in stmts[i + 1:]:
                    n2 = ' '.join(nxt.lower().split())
                    if re.match(r'^if\s*\(.*\)\s*then$', n2):
                        depth += 1
                    elif re.match(r'^end\s*if$', n2):
                        depth -= 1
                        if depth == 0:
                            break
                    elif depth == 1 and re.match(r'^(go\s*to\s*\d+|exit)$', n2):
                        m = mb
                        break
        if m and 'qeps' in m.group(1):
            exits.append((line, m.group(1), text.strip()))
    check.need('tolerance-dependent exits of the order loop in MIE1', len(exits), 1,
               'H10-series-exit', 'MIE1 order loop',
               'the series ends on a tolerance or at the Wiscombe bound',
               '%s:%d' % (u.path, u.line))
    for line, cond, text in exits:
        bad = []
        for dis in re.split(r'\.or\.', cond):
            if 'qeps' not in dis:
                continue
            guarded = '.and.' in dis and re.search(
                r'\bn\s*\.(gt|ge)\.', dis) is not None
            if not guarded:
                bad.append(dis.strip())
        check.require(not bad, 'H10-series-exit', 'MIE1: ' + ' '.join(text.split()),
                      'an exit on the size of the current term also requires the order '
                      'to be past the resonance region', '%s:%d' % (u.path, line),
                      fail_detail='the order loop is left as soon as %s, whatever n '
                      'is: for x = 10.98, m = 1.948 the term of order 15 is 3e-7 of the '
                      'sum and the loop stops, while b_17 has modulus 0.92 -- a '
                      'one-sphere cluster is 21 %% off the Lorenz-Mie solver (C_ext '
                      '764.5 for 952.3) with the default tolerance' % ' / '.join(bad))


_H11_FIXTURE = """      subroutine demo(nmax,out)
      implicit real*8(a-h,o-z)
      real*8 w(0:40),out(*)
      do n=%d,40
         w(n)=dsqrt(dble(n))
      enddo
      do n=1,nmax
         do k=-n+1,n-1
            out(n)=out(n)+w(n-k-1)*w(n+k)
         enddo
      enddo
      return
      end
"""


def work_arrays_defined(check, prog):
    """H11: the compiled cluster routines read no element of a local work array that
    no statement writes.  A local array lives on the stack: an element that is
    never stored holds whatever an earlier call left there, so a product
    `fnr(0) * 0` that "cannot matter" is NaN whenever that word happens to be a
    NaN or Inf bit pattern -- the amplitude matrix, the cross sections and the
    hologram of a perfectly ordinary cluster then come out NaN, depending on what
    ran before.  Rule (hpstatic/fdefuse.py): for every rank-1 local array of every
    program unit of the mie_f sources, the smallest index of each unguarded read
    (affine in the DO variables, minimised over the DO nest) is not below the
    smallest index any store writes."""
    import os
    import tempfile
    from hpstatic.fortran import scan_file
    from hpstatic import fdefuse
    from .c10 import meson_inputs, MIE_DIR, TM_DIR
    files = meson_inputs(prog.root, MIE_DIR) + meson_inputs(prog.root, TM_DIR)
    # the rule must see the defect it is about (and stay silent on its repair)
    for start, want in ((1, 1), (0, 0)):
        with tempfile.NamedTemporaryFile('w', suffix='.for', delete=False) as f:
            f.write(_H11_FIXTURE % start)
        try:
            us = scan_file(f.name)
            got = fdefuse.analyse(us[0])[0]
        finally:
            os.unlink(f.name)
        if len(got) != want:
            check.error('H11 fixture: %d findings for an initialisation loop starting '
                        'at %d, expected %d' % (len(got), start, want))
            return
    nunits = narr = 0
    seen = set()
    for rel in files:
        path = os.path.normpath(os.path.join(prog.root, rel))
        if path in seen or not os.path.exists(path):
            continue
        seen.add(path)
        # PARAMETERs of INCLUDEd files (scfodim.for: npd, nod, notd)
        inc = {}
        with open(path, errors='replace') as f:
            for m in __import__('re').finditer(r"(?im)^\s+include\s+'([^']+)'", f.read()):
                ip = os.path.join(os.path.dirname(path), m.group(1))
                if os.path.exists(ip):
                    # name = <integer literal> entries of its PARAMETER statements
                    # (continuation lines joined)
                    text = ''.join(ln[6:] if len(ln) > 6 else '' for ln in
                                   open(ip, errors='replace').read().splitlines()
                                   if ln[:1] not in 'cC*!')
                    text = text.replace(' ', '').lower()
                    for mm in __import__('re').finditer(
                            r'([a-z][a-z0-9_]*)=(\d+)(?=[,)])', text):
                        inc[mm.group(1)] = int(mm.group(2))
        relpath = os.path.relpath(path, prog.root)
        for u in scan_file(path, relpath):
            nunits += 1
            findings, analysed, skipped = fdefuse.analyse(u, inc)
            narr += len(analysed)
            by = {}
            for x in findings:
                by.setdefault(x['array'], []).append(x)
            for a in analysed:
                construct = '%s::%s local array %s' % (os.path.basename(relpath),
                                                       u.name, a.upper())
                bad = by.get(a, [])
                if bad:
                    x = bad[0]
                    check.bad('H11-work-array-defined', construct,
                              '%s(%d) is read (%s(%s) at line %d, %d such reads) but the '
                              'smallest index any statement stores is %d: the element '
                              'is whatever the stack held -- with a NaN / Inf bit '
                              'pattern there, `%s(%d) * 0` is NaN and every amplitude '
                              'matrix, cross section and hologram of the cluster solver '
                              'is NaN, depending on what was called before' % (
                                  a.upper(), x['reached'], a, x['index'], x['line'],
                                  len(bad), x['lowest_written'], a, x['reached']),
                              '%s:%d' % (relpath, x['line']))
                else:
                    check.ok('H11-work-array-defined', construct,
                             'no unguarded read reaches below the lowest stored index',
                             '%s:%d' % (relpath, u.line))
    check.floor('H11 program units scanned', nunits, 60)
    check.floor('H11 local work arrays analysed', narr, 12)


def status_examined(check, prog):
    """H12: a compiled routine that reports failure through a status argument is
    not trusted blindly.  SBESJY (spherical Bessel functions by a continued
    fraction) returns IFAIL = -1 *with its output arrays untouched* when the
    argument is out of range or the fraction has not converged within its
    iteration limit; its callers pass automatic (stack) arrays, so an ignored
    failure is read back as whatever the previous point or the previous call left
    there -- fields of order 1e277, or plausible numbers that depend on the order
    of the detector points.  Rule: in every caller, between the CALL and the first
    statement that reads one of the routine's output arguments, the status
    variable is tested."""
    import os
    import re
    from hpstatic.fortran import scan_file
    from .c10 import meson_inputs, MIE_DIR
    files = []
    for rel in meson_inputs(prog.root, MIE_DIR):
        path = os.path.normpath(os.path.join(prog.root, rel))
        if os.path.exists(path) and path not in files:
            files.append(path)
    units = []
    for path in files:
        units += [(path, u) for u in scan_file(path, os.path.relpath(path, prog.root))]
    # routines with a status dummy, and which of their dummies are outputs
    reporters = {}
    for path, u in units:
        hm = re.search(r'\((.*)\)', u.header.replace(' ', ''))
        dummies = [d.upper() for d in hm.group(1).split(',')] if hm else []
        if 'IFAIL' not in dummies:
            continue
        outs = set()
        with open(path, errors='replace') as f:
            lines = f.read().splitlines()
        for line in lines[u.line - 1:u.line + 80]:
            m = re.match(r'(?i)^[c!*]f2py\s+intent\(out\)\s+(\w+)', line.strip())
            if m:
                outs.add(m.group(1).upper())
        reporters[u.name] = (dummies, outs - {'IFAIL'})
    check.need('routines reporting failure through IFAIL', len(reporters), 1,
               'H12-status-examined', 'mie_f status arguments',
               'the Bessel routine reports failure through its IFAIL argument',
               os.path.relpath(files[0], prog.root) if files else '')
    nsites = 0
    for path, u in units:
        stmts = [(line, ''.join(t.upper().split())) for line, t in u.stmts]
        for i, (line, t) in enumerate(stmts):
            m = re.match(r'^CALL(\w+)\((.*)\)$', t)
            if not m or m.group(1) not in reporters or m.group(1) == u.name:
                continue
            dummies, outs = reporters[m.group(1)]
            actual = [a for a in re.split(r',(?![^()]*\))', m.group(2))]
            if len(actual) != len(dummies):
                continue
            bind = dict(zip(dummies, actual))
            status = bind['IFAIL']
            out_names = {re.sub(r'\(.*$', '', bind[d]) for d in outs}
            nsites += 1
            tested = None
            used = None
            for line2, t2 in stmts[i + 1:]:
                names = set(re.findall(r'[A-Z_][A-Z0-9_]*', t2))
                if t2.startswith('IF(') and status in names:
                    cond_end = 0
                    depth = 0
                    for k, ch in enumerate(t2):
                        if ch == '(':
                            depth += 1
                        elif ch == ')':
                            depth -= 1
                            if depth == 0:
                                cond_end = k
                                break
                    if status in set(re.findall(r'[A-Z_][A-Z0-9_]*', t2[:cond_end + 1])):
                        tested = line2
                        break
                if names & out_names:
                    used = line2
                    break
            construct = '%s::%s CALL %s' % (os.path.basename(u.path), u.name, m.group(1))
            where = '%s:%d' % (u.path, line)
            if tested is not None:
                check.ok('H12-status-examined', construct,
                         '%s is tested (line %d) before the outputs are read' % (
                             status, tested), where)
            else:
                check.bad('H12-status-examined', construct,
                          '%s is never tested: %s are read%s as the stack left them when '
                          '%s gives up (k r above its iteration limit -- a detector a '
                          'few millimetres from the particle): the field there is '
                          'garbage that depends on the previous point and the previous '
                          'call' % (status, ', '.join(sorted(out_names)),
                                    ' (line %d)' % used if used else '', m.group(1)),
                          where)
    check.floor('H12 call sites of status-reporting routines', nsites, 4)


def option_slots(check, prog):
    """H8: a solver option kept on the theory object reaches the compiled routine in
    the slot that means that option -- slot names are read from the Fortran
    headers on every run, the meaning of each is the table below."""
    import os
    from hpstatic.fortran import f2py_signatures
    mief = os.path.join(prog.root, 'holopy/scattering/theory/mie_f/')
    sigs = {}
    for fn in ('mieangfuncs.f90', 'scsmfo_min.for'):
        sigs.update(f2py_signatures(os.path.join(mief, fn)))
    # (python entry, compiled routine) -> {Fortran dummy: option attribute}
    TABLE = [
        (TH + 'mie.Mie.raw_fields', 'MIE_FIELDS',
         {'RAD': 'compute_escat_radial', 'RAD_DEP': 'full_radial_dependence'}),
        (TH + 'multisphere.Multisphere.raw_fields', 'TMATRIX_FIELDS',
         {'RAD': 'compute_escat_radial'}),
        (TH + 'multisphere.Multisphere._scsmfo_setup', 'AMNCALC',
         {'NITER': 'niter', 'EPS': 'eps', 'QEPS1': 'qeps1', 'QEPS2': 'qeps2',
          'METH': 'meth'}),
    ]
    me = sym('self')
    n = 0
    for q, routine, want in TABLE:
        fd = prog.func(q)
        loc = prog.loc(q, fd)
        sig = sigs.get(routine)
        if not sig:
            check.error('%s not found in the Fortran sources' % routine)
            continue
        missing = [d for d in want if d not in sig]
        if missing:
            check.error('%s has no dummy argument %s' % (routine, missing))
            continue
        it = Interp(prog, max_depth=0)
        it.analyze(q)
        calls = [c for c in it.calls if c['name'].split('.')[-1] == routine.lower()]
        if not calls:
            check.bad('H8-option-slots', '%s -> %s' % (q.split('.')[-2] + '.' +
                                                        q.split('.')[-1], routine),
                      'the compiled routine is not called', loc)
            continue
        for c in calls:
            slots = dict(zip(sig, c['args']))
            slots.update({kk.upper(): v for kk, v in c['kwargs']})
            for dummy, opt in sorted(want.items()):
                n += 1
                got = slots.get(dummy)
                check.require(got == intern(('attr', me, opt)), 'H8-option-slots',
                              '%s slot %s' % (routine.lower(), dummy),
                              'receives the theory\'s own `%s`' % opt, loc,
                              fail_detail='slot %s receives %s' % (
                                  dummy, show(got)[:100] if got else 'nothing'))
    check.floor('option slots of compiled routines', n, 8)


def qratio(check, prog, canon=None):
    """H3-yang-Q: the ratio Q_n = [psi_n(z1)/zeta_n(z1)] / [psi_n(z2)/zeta_n(z2)] of
    Yang (2003) eq. 23, derived independently of the source:
      n = 0:  psi_0/zeta_0 (z) = (1 - exp(-2 i z)) / 2   (psi_0 = sin z, zeta_0 = -i e^{iz})
      n > 0:  psi_n/psi_{n-1} = 1/(D1_n + n/z),  zeta_n/zeta_{n-1} = 1/(D3_n + n/z)
    so Q_0 = (1 - e^{-2 i z1}) / (1 - e^{-2 i z2}) and
       Q_n = Q_{n-1} (D3_n(z1) + n/z1)(D1_n(z2) + n/z2) / ((D1_n(z1) + n/z1)(D3_n(z2) + n/z2))."""
    sf = TH + 'mie_f.mie_specfuncs.'
    q = sf + 'Qratio'
    fd = prog.func(q)
    loc = prog.loc(q, fd)

    def decide(t):
        # the caller passes the logarithmic derivatives
        if t[0] == 'cmp' and t[1] in ('==', 'is') and t[3] == NONE:
            return False
        return None
    it = Interp(prog, max_depth=1, decide=decide, opaque=[sf + 'log_der_13'])
    v = it.analyze(q).ret
    ok = v[0] == 'loop'
    if not ok:
        check.bad('H3-yang-Q', 'Qratio', 'not an upward recursion: %s' % show(v)[:120], loc)
        return
    init, step, itr = v[3], v[4], v[5]
    z1, z2 = [sym(a.arg) for a in fd.args.args[:2]]
    a1, a2, b1, b2 = sym('A1'), sym('A2'), sym('B1'), sym('B2')

    def parts(t):
        # Re / Im of the two arguments as free real symbols; conversions dropped
        if not t or not isinstance(t[0], str):
            return tuple(parts(x) if isinstance(x, tuple) else x for x in t)
        if t[0] == 'call' and t[1] in ('numpy.complex128', 'complex') and len(t[2]) == 1:
            return parts(t[2][0])
        if t[0] == 'call' and t[1] in ('numpy.real', 'numpy.imag') and len(t[2]) == 1:
            inner = parts(t[2][0])
            if inner in (z1, z2):
                return {('numpy.real', z1): a1, ('numpy.real', z2): a2,
                        ('numpy.imag', z1): b1, ('numpy.imag', z2): b2}[(t[1], inner)]
        if t[0] == 'attr' and t[2] in ('real', 'imag') and parts(t[1]) in (z1, z2):
            return {('real', z1): a1, ('real', z2): a2,
                    ('imag', z1): b1, ('imag', z2): b2}[(t[2], parts(t[1]))]
        return tuple(parts(x) if isinstance(x, tuple) else x for x in t)
    c0 = Canon()
    ok0 = init[0] == 'upd' and init[2] == 'item' and init[3] == num(0)
    if ok0:
        got = intern(parts(init[4]))
        env = {'a1': a1, 'a2': a2, 'b1': b1, 'b2': b2}
        want = expr_term(prog, '(1 - np.exp(-2j*a1 + 2*b1)) / (1 - np.exp(-2j*a2 + 2*b2))', env)
        ok0 = c0.equal(got, want)
    check.require(ok0, 'H3-yang-Q', 'Qratio start value',
                  'Q_0 = (1 - exp(-2i z1)) / (1 - exp(-2i z2)) (Yang eq. 34)', loc,
                  fail_detail='Q_0 = %s' % (c0.show(intern(parts(init[4])))[:240] if init[0] == 'upd'
                                            else show(init)[:120]))
    okr = itr[0] == 'call' and itr[1] == 'numpy.arange' and itr[2][0] == num(1) and \
        step[0] == 'upd' and step[1][0] == 'phi' and step[2] == 'item'
    if okr:
        n = step[3]
        d1, d2 = sym(fd.args.args[3].arg), sym(fd.args.args[4].arg)
        env = {'Q': intern(('idx', step[1], ('bin', '-', n, num(1)))), 'n': n,
               'z1': z1, 'z2': z2,
               'D1z1': intern(('idx', ('idx', d1, num(0)), n)),
               'D3z1': intern(('idx', ('idx', d1, num(1)), n)),
               'D1z2': intern(('idx', ('idx', d2, num(0)), n)),
               'D3z2': intern(('idx', ('idx', d2, num(1)), n))}
        want = expr_term(prog, 'Q * (D3z1 + n/z1) * (D1z2 + n/z2) / '
                         '((D1z1 + n/z1) * (D3z2 + n/z2))', env)
        okr = n[0] == 'elem' and c0.equal(intern(parts(step[4])), want)
    check.require(okr, 'H3-yang-Q', 'Qratio recursion',
                  'Q_n = Q_{n-1} (D3_n(z1)+n/z1)(D1_n(z2)+n/z2) / ((D1_n(z1)+n/z1)'
                  '(D3_n(z2)+n/z2)), n = 1..nstop (Yang eq. 33)', loc,
                  fail_detail='step = %s' % c0.show(intern(parts(step[4])))[:240]
                  if step[0] == 'upd' else show(step)[:120])


def cluster_order_cap(check, prog):
    """H7: the multi-sphere solver can hold the series of every sphere it accepts.

    The compiled code dimensions its single-sphere expansions with the PARAMETER
    `nod` (scfodim.for) and clamps the order it would need, `nstop = min(nstop,
    nod)` in mie1, where nstop = nint(x + 4 x^(1/3)) + 5.  Its only warning is
    printed under `if (suppress .eq. 0)`; Python passes suppress = 1 by default
    and discards the returned per-sphere orders.  So the size guard on the Python
    side is the only protection: it must not admit size parameters whose series
    needs more than `nod` terms."""
    import os
    import re
    fdir = os.path.join(prog.root, 'holopy/scattering/theory/mie_f')
    try:
        dim = open(os.path.join(fdir, 'scfodim.for')).read()
        src = open(os.path.join(fdir, 'scsmfo_min.for')).read()
    except OSError as e:
        check.error('cannot read the multi-sphere Fortran sources: %s' % e)
        return
    m = re.search(r'\bnod\s*=\s*(\d+)', dim, re.I)
    clamp = re.search(r'nstop\s*=\s*min\s*\(\s*nstop\s*,\s*nod\s*\)', src, re.I)
    order = re.search(r'nstop\s*=\s*nint\s*\(\s*x\s*\+\s*4\.\s*\*\s*x\s*\*\*\s*\(\s*1\./3\.\s*\)\s*\)\s*\+\s*5', src, re.I)
    if not m:
        check.error('PARAMETER nod not found in scfodim.for')
        return
    nod = int(m.group(1))
    q = TH + 'multisphere.Multisphere._scsmfo_setup'
    fd = prog.func(q)
    loc = prog.loc(q, fd)
    it = Interp(prog, max_depth=1,
                opaque=['holopy.scattering.scatterer.spherecluster.Spheres.__init__'])
    res = it.analyze(q)
    k = sym(fd.args.args[2].arg)
    # the size guard: raise when r * k > LIMIT
    limits = []
    for o in res.raises:
        for ct, pol in o.cond:
            for x in subterms(ct):
                f = lt_form(x) if x[0] == 'cmp' else None
                if f and f[1][0] == 'num' and any(y == k for y in subterms(f[2])) and \
                        any(y[0] == 'attr' and y[2] == 'r' for y in subterms(f[2])):
                    limits.append(float(f[1][1]))
    # does the routine look at the orders the solver reports?
    am = [c for c in it.calls if c['name'].endswith('amncalc')]
    if not limits or not am:
        check.bad('H7-cluster-order-cap', 'Multisphere._scsmfo_setup',
                  'no size guard of the form r * k > LIMIT / no amncalc call found', loc)
        return
    limit = min(limits)
    if not clamp or not order:
        # the Fortran no longer clamps (or computes the order differently): nothing
        # to compare the guard with
        check.ok('H7-cluster-order-cap', 'Multisphere._scsmfo_setup',
                 'mie1 does not clamp the expansion order to nod', loc)
        return
    need = lambda x: round(x + 4. * x ** (1. / 3.)) + 5
    # largest size parameter whose series fits
    lo, hi = 0.0, 1e6
    for _ in range(200):
        mid = (lo + hi) / 2
        if need(mid) <= nod:
            lo = mid
        else:
            hi = mid
    # ... and the cluster-centred expansion: amncalc needs nint(xc + 4 xc^(1/3)) + 2
    # orders for xc = k (distance from the centroid + radius), clamps them to the
    # PARAMETER notd and warns only when suppress = 0.  The Python-side guard on
    # the centred coordinates is again the only protection.
    mt = re.search(r'\bnotd\s*=\s*(\d+)', dim, re.I)
    clampt = re.search(r'nodrt\s*\(\s*i\s*\)\s*=\s*min\s*\(\s*nodrt\s*\(\s*i\s*\)\s*,\s*notd\s*\)',
                       src, re.I)
    ordert = re.search(r'nint\s*\(\s*xc\s*\+\s*4\.\s*\*\s*xc\s*\*\*\s*\(\s*1\./3\.\s*\)\s*\)\s*\+\s*2',
                       src, re.I)
    seps = []
    for o in res.raises:
        for ct, pol in o.cond:
            for x in subterms(ct):
                f = lt_form(x) if x[0] == 'cmp' else None
                if f and f[1][0] == 'num' and any(y == k for y in subterms(f[2])) and \
                        any(y[0] == 'attr' and y[2] == 'centers' for y in subterms(f[2])):
                    seps.append(float(f[1][1]))
    if mt and clampt and ordert:
        notd = int(mt.group(1))
        needt = lambda x: round(x + 4. * x ** (1. / 3.)) + 2
        lo2, hi2 = 0.0, 1e6
        for _ in range(200):
            mid = (lo2 + hi2) / 2
            if needt(mid) <= notd:
                lo2 = mid
            else:
                hi2 = mid
        sep = min(seps) if seps else float('inf')
        check.require(needt(sep) <= notd if seps else False, 'H7-cluster-order-cap',
                      'Multisphere._scsmfo_setup separation guard %g vs notd=%d' % (
                          sep, notd),
                      'every centred coordinate the guard admits needs at most notd = '
                      '%d orders of the cluster expansion' % notd, loc,
                      fail_detail='centred coordinates up to k d = %g are accepted, but '
                      'amncalc clamps the cluster-centred expansion at notd = %d orders, '
                      'enough only for k (d + a) <= %.1f; the clamp is silent (suppress '
                      '= 1) -- and the default-theory rule (separation <= 30 largest '
                      'radii, no wavevector) hands such clusters to Multisphere' % (
                          sep, notd, lo2))
    check.require(need(limit) <= nod, 'H7-cluster-order-cap',
                  'Multisphere._scsmfo_setup size guard %g vs nod=%d' % (limit, nod),
                  'every size parameter the guard admits (x <= %g) needs at most nod = %d '
                  'terms' % (limit, nod), loc,
                  fail_detail='spheres up to x = %g are accepted, but mie1 clamps the '
                  'series at nod = %d terms, enough only for x <= %.1f (order needed at '
                  'x = %g: %d); the clamp is silent (suppress = 1, returned orders '
                  'discarded)' % (limit, nod, lo, limit, need(limit)))
