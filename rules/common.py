"""Helpers shared by the rule modules."""
import ast

from hpstatic.interp import Interp, Frame
from hpstatic.loader import AnalysisError, norm_src
from hpstatic.terms import sym, subterms, atoms_of, show, intern

HPO = 'holopy.core.holopy_object.HoloPyObject'
THEORY = 'holopy.scattering.theory.scatteringtheory.ScatteringTheory'
SCATTERER = 'holopy.scattering.scatterer.scatterer.Scatterer'


def exported_classes(prog, packages):
    """Classes re-exported by the given package __init__ modules."""
    out = []
    for pk in packages:
        m = prog.module(pk)
        for local in sorted(m.imports):
            if local == '*':
                continue
            r = prog.resolve_name(pk, local)
            if r[0] == 'class' and r[1] not in out:
                out.append(r[1])
        for name, node in m.defs.items():
            if isinstance(node, ast.ClassDef):
                q = pk + '.' + name
                if q not in out:
                    out.append(q)
    return out


def call_args(prog, rec):
    """{parameter name: argument term} of a call record, bound through the
    callee's signature when the callee is a function of the repository (the
    receiver of a method is bound to its first parameter); for other callees the
    keywords by name and the positionals by index.  f(a, b), f(a, y=b) and
    f(x=a, y=b) give the same dictionary."""
    out = {}
    try:
        fd = prog.func(rec['name'])
        names = [a.arg for a in fd.args.posonlyargs + fd.args.args]
    except Exception:
        names = []
    for i, a in enumerate(rec['args']):
        out[names[i] if i < len(names) else i] = a
    for k, v in rec['kwargs']:
        out[k] = v
    return out


def term_args(prog, t):
    """call_args for an uninlined call term ('call', qualified name, pos, kws)"""
    if t[0] != 'call':
        return {}
    return call_args(prog, dict(name=t[1] if isinstance(t[1], str) else '',
                                args=t[2], kwargs=t[3]))


def canon_call(prog, qual, pos, kws=(), skip=0):
    """the call term the evaluator builds for qual(*pos, **kws): keywords naming
    the next positional parameters sit in their slots (Interp._bind_leading)"""
    pos, kws = list(pos), dict(kws)
    try:
        fd = prog.func(qual)
        names = [a.arg for a in fd.args.args][skip:]
    except Exception:
        names = []
    while len(pos) < len(names) and names[len(pos)] in kws:
        pos.append(kws.pop(names[len(pos)]))
    return intern(('call', qual, tuple(pos), tuple(sorted(kws.items()))))


def method_term_args(prog, cq, t):
    """call_args for an uninlined method call term
    ('call', ('attr', receiver, name), pos, kws) on an instance of class cq
    (receiver excluded)"""
    if t[0] != 'call' or not isinstance(t[1], tuple) or t[1][0] != 'attr':
        return {}
    hit = prog.lookup(cq, t[1][2])
    names = [a.arg for a in hit[2].args.args][1:] if hit and hit[0] == 'method' else []
    out = {}
    for i, a in enumerate(t[2]):
        out[names[i] if i < len(names) else i] = a
    for k, v in t[3]:
        out[k] = v
    return out


def list_builder(t):
    """(element term, iterable term, loop id) of a list built element by element,
    whether written as a comprehension, as list(<generator>), or as a loop that
    appends to an empty list; None for anything else (or with a filter)."""
    if t[0] == 'call' and t[1] == 'list' and len(t[2]) == 1 and not t[3]:
        t = t[2][0]
    if t[0] == 'comp' and t[1] in ('list', 'gen') and len(t[3]) == 1 and not t[3][0][2]:
        target, iterable, _ = t[3][0]
        lid = target[2] if target[0] == 'elem' else None
        if lid is None:
            ids = {x[2] for x in subterms(t[2]) if x[0] == 'elem' and len(x) > 2}
            lid = sorted(ids, key=str)[0] if len(ids) == 1 else None
        return t[2], iterable, lid
    if t[0] == 'loop' and len(t) >= 6 and t[3] == ('list', ()) and t[4][0] == 'mut' and \
            t[4][1] == ('phi', t[1], t[2]) and t[4][2] == 'append' and \
            len(t[4][3]) == 1 and not t[4][4]:
        return t[4][3][0], t[5], t[2]
    return None


def call_arg(prog, rec, name, default=None):
    return call_args(prog, rec).get(name, default)


def init_of(prog, cq):
    hit = prog.lookup(cq, '__init__')
    if not hit or hit[0] != 'method':
        return None, None
    return hit[1], hit[2]


def init_params(fd):
    a = fd.args
    return [x.arg for x in a.posonlyargs + a.args][1:] + \
        [x.arg for x in a.kwonlyargs]


def param_defaults(fd):
    a = fd.args
    names = [x.arg for x in a.posonlyargs + a.args]
    out = {}
    for n, d in zip(names[len(names) - len(a.defaults):], a.defaults):
        out[n] = d
    for k, d in zip(a.kwonlyargs, a.kw_defaults):
        if d is not None:
            out[k.arg] = d
    return out


def final_self(prog, cq, max_depth=6, opaque=()):
    """Symbolically run the __init__ chain of class cq.

    Returns (interp, frame, self_term, result) where self_term is the merged
    object state at the normal exits, or None if no normal exit exists."""
    owner, fd = init_of(prog, cq)
    if fd is None:
        return None
    it = Interp(prog, max_depth=max_depth, opaque=opaque)
    res = it.analyze(owner + '.__init__', selfcls=cq)
    normal = [o for o in res.outcomes if o.kind in ('fall', 'return')]
    if not normal:
        return it, None, None, res
    env = normal[0].env if len(normal) == 1 else it.merge_by_cond(normal, ())
    selfname = fd.args.args[0].arg
    selft = env[selfname]
    it.types[selft] = cq
    fr = Frame(prog.classes[cq].module, cq, cq, selfname, 0, cq + '.<probe>')
    return it, fr, selft, res


def has_unknown(t):
    return [x for x in subterms(t) if x[0] == 'unk']


def method_quals(prog, cq):
    """All (owner, name, fd) methods visible on class cq through its MRO."""
    seen = {}
    for q in prog.mro(cq):
        c = prog.classes[q]
        for n, fd in c.methods.items():
            seen.setdefault(n, (q, fd))
    return seen


def self_attr_stores(prog, cq):
    """Names X such that some method of cq's MRO executes `self.X = ...`."""
    out = {}
    for q in prog.mro(cq):
        c = prog.classes[q]
        fds = list(c.methods.values())
        for p in c.properties.values():
            fds += [f for f in (p['getter'], p['setter']) if f is not None]
        for fd in fds:
            if not fd.args.args:
                continue
            sn = fd.args.args[0].arg
            for n in ast.walk(fd):
                if isinstance(n, ast.Attribute) and isinstance(n.ctx, ast.Store) \
                        and isinstance(n.value, ast.Name) and n.value.id == sn:
                    out.setdefault(n.attr, []).append((q, fd.name, n.lineno))
    return out


def code_varnames(fd):
    """Names that end up in fd.__code__.co_varnames (CPython >= 3.12: inlined
    comprehension targets included): arguments first, then locals."""
    a = fd.args
    args = [x.arg for x in a.posonlyargs + a.args] + \
        [x.arg for x in a.kwonlyargs]
    if a.vararg:
        args.append(a.vararg.arg)
    if a.kwarg:
        args.append(a.kwarg.arg)
    local = []

    def add(n):
        if n not in args and n not in local:
            local.append(n)

    def visit(node):
        for ch in ast.iter_child_nodes(node):
            if isinstance(ch, (ast.FunctionDef, ast.AsyncFunctionDef, ast.ClassDef)):
                add(ch.name)
                continue
            if isinstance(ch, ast.Lambda):
                continue
            if isinstance(ch, ast.Name) and isinstance(ch.ctx, (ast.Store, ast.Del)):
                add(ch.id)
            elif isinstance(ch, ast.ExceptHandler) and ch.name:
                add(ch.name)
            elif isinstance(ch, (ast.Import, ast.ImportFrom)):
                for al in ch.names:
                    add((al.asname or al.name).split('.')[0])
            visit(ch)
    for st in fd.body:
        visit(ast.Module(body=[st], type_ignores=[]))
    return args, local


def const_keys(t):
    """Constant string keys of a dict term, or None."""
    if t[0] != 'dict':
        return None
    keys = []
    for k, v in t[1]:
        if k[0] != 'const' or not isinstance(k[1], str):
            return None
        keys.append(k[1])
    return keys


def const_list(t):
    if t[0] not in ('list', 'tuple'):
        return None
    out = []
    for x in t[1]:
        if x[0] == 'const':
            out.append(x[1])
        elif x[0] == 'num':
            out.append(x[1])
        else:
            return None
    return out


def norm_cond(cond):
    """path condition with leading negations folded into the polarity"""
    out = []
    for t, p in cond:
        while t[0] == 'un' and t[1] == 'not':
            t, p = t[2], not p
        out.append((t, p))
    return out


def path_has(cond, pred, pol=True):
    return any(pred(t) and p == pol for t, p in norm_cond(cond))


def lt_form(t):
    """('<' or '<=' or '==', a, b) for a comparison in any orientation"""
    if t[0] != 'cmp':
        return None
    op, a, b = t[1], t[2], t[3]
    if op in ('>', '>='):
        return ({'>': '<', '>=': '<='}[op], b, a)
    if op in ('==', '!='):
        return (op,) + tuple(sorted((a, b), key=lambda x: x._n if hasattr(x, '_n') else 0))
    return (op, a, b)


def is_sum(t, a, b):
    return t[0] == 'bin' and t[1] == '+' and ((t[2] == a and t[3] == b) or
                                            (t[2] == b and t[3] == a))


def as_difference(t):
    """(minuend, subtrahend) of `a - b` or `a + (-b)`, else None"""
    if t[0] == 'bin' and t[1] == '-':
        return t[2], t[3]
    if t[0] == 'bin' and t[1] == '+':
        for x, y in ((t[2], t[3]), (t[3], t[2])):
            if y[0] == 'un' and y[1] == '-':
                return x, y[2]
    return None


def passed_guards(res):
    """conditions of the early exits (raise / return) of an analysed function:
    every later statement runs under their negation"""
    out = set()
    for o in res.outcomes:
        if o.kind in ('raise', 'return') and o.cond:
            t, p = norm_cond(o.cond)[-1]
            if p:
                out.add(t)
    return out


def beyond_guards(cond, res):
    """path condition with the negations of earlier early-exit guards removed"""
    g = passed_guards(res)
    return [(t, p) for t, p in norm_cond(cond) if not (p is False and t in g)]


_POS = {'!=': '==', 'is not': 'is', 'not in': 'in'}


def canon_cond(cond):
    """norm_cond + negative comparison operators folded into the polarity:
    (a != b, False) and (a == b, True) become the same entry"""
    out = []
    for t, p in norm_cond(cond):
        if t[0] == 'cmp' and t[1] in _POS:
            from hpstatic.terms import intern
            t, p = intern(('cmp', _POS[t[1]], t[2], t[3])), not p
        out.append((t, p))
    return out


def isinstance_value(prog, t, subject, C):
    """Truth value of the guard atom `t` when `subject` is an instance of exactly
    the class C (None: of no class of the package): isinstance(subject, K) and
    isinstance(subject, (K1, K2, ...)) have definite answers from the class
    hierarchy; anything else is unknown (None)."""
    if t[0] == 'call' and t[1] == 'isinstance' and len(t[2]) == 2 and not t[3] and \
            t[2][0] == subject:
        ks = t[2][1][1] if t[2][1][0] == 'tuple' else (t[2][1],)
        if all(k[0] == 'classref' for k in ks):
            return C is not None and any(prog.is_subclass(C, k[1]) for k in ks)
    return None


def split_value_ite(effects):
    """A store of `a if c else b` is the same as the store of a under c and of b
    under not c: expand such effects so that rules that read one row per stored
    value see the same rows for either spelling."""
    out = []
    for e in effects:
        v = e.get('value')
        if isinstance(v, tuple) and v and v[0] == 'ite':
            for val, pol in ((v[2], True), (v[3], False)):
                e2 = dict(e)
                e2['value'] = val
                e2['cond'] = tuple(e['cond']) + ((v[1], pol),)
                out.extend(split_value_ite([e2]))
        else:
            out.append(e)
    return out
